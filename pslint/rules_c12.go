package main

// C12 — poryswitch; C13 — constants; C14 — movement and mart lists.

import (
	"fmt"
	"go/token"
	"go/types"
	"regexp"
	"sort"
	"strings"

	"golang.org/x/tools/go/ssa"
)

func init() {
	property("C12",
		"Static conformance of poryswitch selection: (a) every selector returns, for each case map, the entry under the -s value when that key is present and otherwise the entry under '_' (presence decided by the comma-ok bit, not by the value), parallel maps with the same key sequence, and fails under enableEnvironmentErrors when neither exists; (b) the header takes the value from compileSwitches[identifier] and errors for missing switches only under enableEnvironmentErrors; (c) parsing the cases can write only the token window, the scope stacks and the font cache of the Parser — nothing an unselected case produced can reach the program except through the case map; (d) '-s K=V' splits at the first '='. The -s map is written only by Set (C12.d); the font table is read-only (C17.g); item parsers are told \"multiple\" exactly for the brace form (C12.e); no parser-held map is written while cases are parsed (C12.c).",
		[]string{"scheme argument of DESIGN §4 C12", "balanced scope stacks (C20.a)"},
		"C12.a", "C12.b", "C12.c", "C12.d", "C12.e", "C09.d", "C06.c", "C12.f", "C12.g", "C01.h", "C17.f", "C17.g", "C20.a", "C18.m", "C06.f", "C18.d", "C18.n", "C19.b", "C19.c", "C19.d", "C19.e", "C14.d", "C05.a")
	property("C13",
		"Static conformance of constant substitution: (a) every token literal that is accumulated into an argument, operand, comparison value, case value, table-entry field, mart item or constant value passes through tryReplaceWithConstant (the only exceptions are literal parentheses); (b) names (identifiers, labels, map script names, movement steps) and text are never passed through it; (c) a constant is stored only after the duplicate check, its value is scanned up to the next top-level keyword; (d) the helper is a pure lookup that returns its argument when the name is not a constant. Gathering loops write every token and one space exactly between tokens (C13.f); a substitution result only ever becomes an element of a space-joined value (C13.b).",
		[]string{"that textual and token-wise replacement coincide for multi-token values is not decided"},
		"C13.a", "C13.b", "C13.c", "C13.d", "C10.a", "C14.c", "C20.c", "C13.e", "C19.e", "C19.f", "C13.f", "C18.m", "C06.f", "C02.b", "C03.d", "C10.b", "C18.d", "C18.n")
	property("C14",
		"Static conformance of list handling: (a) a movement multiplier is accepted exactly in [1, 9999], must be an INT, and expands to exactly that many copies; (b) the movement emitter writes the terminator exactly once on every path and nothing after it; (c) the mart emitter writes '.align 2' first, stops at the first item equal to ITEM_NONE — tested on the very value it would write — and writes the terminator once, unconditionally, after the loop; items and their tokens are parallel; (d) list parsers append each identifier once and advance on every iteration. Integer tokens are decoded with ParseInt(literal, 0, 64) (C14.e); allocation sizes are bounded (C18.k); the expansion appends the step token itself (C14.a); Emit is total (C10.f).",
		[]string{"go/ssa lowering is faithful to the source"},
		"C14.a", "C14.b", "C14.c", "C14.d", "C06.b", "C12.f", "C12.g", "C13.c", "C12.a", "C10.f", "C19.f", "C18.k", "C14.e", "C01.h", "C13.a", "C08.e", "C10.g", "C18.m", "C06.a", "C06.c", "C12.e", "C18.d", "C18.n", "C19.b", "C19.c", "C19.d", "C19.e")

	register(&Rule{ID: "C12.f", Doc: "every parsed poryswitch case is recorded under its own name, whatever its content", Floor: 5, Run: c12f})
	register(&Rule{ID: "C13.e", Doc: "no decision depends on how many tokens a substituted value was written with", Floor: 1, Run: c13e})
	register(&Rule{ID: "C12.g", Doc: "a list poryswitch case body ends at its own closing brace, whatever closes the enclosing list", Floor: 2, Run: c12g})
	register(&Rule{ID: "C12.a", Doc: "selection protocol: value key if present else '_', comma-ok presence, error under environment errors", Floor: 10, Run: c12a})
	register(&Rule{ID: "C12.b", Doc: "poryswitch header: value from compileSwitches[ident]; environment errors only in normal mode", Floor: 3, Run: c12b})
	register(&Rule{ID: "C12.c", Doc: "case parsing writes only token window, scope stacks, font cache", Floor: 3, Run: c12c})
	register(&Rule{ID: "C12.d", Doc: "-s option splits at the first '='", Floor: 1, Run: c12d})
	register(&Rule{ID: "C12.e", Doc: "colon-form cases take exactly one item: the item loop only repeats when multiple items are allowed", Floor: 6, Run: c12e})
	register(&Rule{ID: "C13.a", Doc: "accumulated token literals pass through tryReplaceWithConstant", Floor: 24, Run: c13a})
	register(&Rule{ID: "C13.b", Doc: "names and movement steps are never constant-substituted", Floor: 14, Run: c13b})
	register(&Rule{ID: "C13.c", Doc: "constant definition: scan stops at top-level keywords", Floor: 2, Run: c13c})
	register(&Rule{ID: "C13.d", Doc: "tryReplaceWithConstant is a pure lookup", Floor: 1, Run: c13d})
	register(&Rule{ID: "C14.a", Doc: "movement multiplier interval and expansion", Floor: 4, Run: c14a})
	register(&Rule{ID: "C14.b", Doc: "movement terminator exactly once, nothing after it", Floor: 3, Run: c14b})
	register(&Rule{ID: "C14.c", Doc: "mart: align first, stop at ITEM_NONE tested on the written value, one terminator", Floor: 5, Run: c14c})
	register(&Rule{ID: "C14.d", Doc: "list parsing: each identifier appended once, every iteration advances", Floor: 4, Run: c14d})
}

const switchValueT = "(*parser.Parser).parsePoryswitchHeader@0#1"

func c12a(c *Ctx) {
	for _, name := range []string{"parser.Parser.parsePoryswitchStatement", "parser.Parser.parsePoryswitchTextStatement", "parser.Parser.parsePoryswitchListStatement"} {
		fn := c.Fn(name)
		if fn == nil {
			continue
		}
		short := fn.Name()
		// case maps: map-typed results of a call
		caseMaps := map[ssa.Value]bool{}
		instrs(fn, func(in ssa.Instruction) {
			switch x := in.(type) {
			case *ssa.Extract:
				if _, ok := x.Type().Underlying().(*types.Map); ok {
					caseMaps[x] = true
				}
			case *ssa.Call:
				if _, ok := x.Type().Underlying().(*types.Map); ok {
					caseMaps[x] = true
				}
			}
		})
		if len(caseMaps) == 0 {
			c.Bad(short+"/case-maps", c.W.FuncPos(fn), "no case map found")
			continue
		}
		used := map[ssa.Value]bool{}
		type selAlt struct {
			key  string
			must []string
		}
		// the alternatives of each result, over all successful returns (the two selections may be
		// merged into one return or be two returns)
		altsOf := map[int][]selAlt{}
		posOf := map[int]string{}
		for _, r := range returnsOf(fn) {
			if !c.isSuccessRet(fn, r) {
				continue
			}
			for ri, res := range r.Results[:len(r.Results)-1] {
				// a field of the selected record (`selected.statements`) is selected with the record
				if f, isField := res.(*ssa.Field); isField {
					res = f.X
				}
				var leaves []ssa.Value
				phiLeaves(res, map[ssa.Value]bool{}, &leaves)
				// ... or of a record variable assigned once per alternative
				var memAlts []storeAlt
				if a := memVar(res); a != nil && a.Heap == false {
					memAlts = c.reachingStores(fn, a, res.(ssa.Instruction))
					if len(memAlts) > 0 {
						leaves = nil
						for _, ma := range memAlts {
							leaves = append(leaves, ma.val)
						}
					}
				}
				fromMap := false
				for _, lf := range leaves {
					if m := lookupMap(lf); m != nil && caseMaps[m] {
						fromMap = true
						used[m] = true
					}
				}
				if !fromMap {
					continue
				}
				key := fmt.Sprintf("%s/result#%d", short, ri)
				pos := c.W.Pos(r.Pos())
				// the alternatives of the selection: a merge of two lookups, or one lookup under a
				// key that was chosen between the value and "_"
				var alts []selAlt
				if len(memAlts) > 0 {
					for _, ma := range memAlts {
						alts = append(alts, selAlt{lookupKey(c, fn, ma.val), ma.must})
					}
				} else if ph, isPhi := res.(*ssa.Phi); isPhi && !isLoopHeader(ph.Block()) {
					for i, e := range ph.Edges {
						alts = append(alts, selAlt{lookupKey(c, fn, e), c.edgeMust(fn, ph.Block().Preds[i], ph.Block())})
					}
				} else {
					lv := res
					if ex, isEx := lv.(*ssa.Extract); isEx {
						lv = ex.Tuple
					}
					if lk, isLk := lv.(*ssa.Lookup); isLk {
						if kp, isPhi := lk.Index.(*ssa.Phi); isPhi && !isLoopHeader(kp.Block()) {
							for i, e := range kp.Edges {
								alts = append(alts, selAlt{c.term(fn, e), c.edgeMust(fn, kp.Block().Preds[i], kp.Block())})
							}
						}
					}
				}
				if len(alts) == 0 {
					// one lookup under a fixed key: an alternative of its own, guarded by the way to this return
					lv := res
					if ex, isEx := lv.(*ssa.Extract); isEx {
						lv = ex.Tuple
					}
					if lk, isLk := lv.(*ssa.Lookup); isLk {
						alts = append(alts, selAlt{c.term(fn, lk.Index), c.mustLits(fn, r.Block())})
					}
				}
				_ = key
				altsOf[ri] = append(altsOf[ri], alts...)
				if posOf[ri] == "" {
					posOf[ri] = pos
				}
			}
		}
		var ris []int
		for ri := range altsOf {
			ris = append(ris, ri)
		}
		sort.Ints(ris)
		for _, ri := range ris {
			{
				alts := altsOf[ri]
				key := fmt.Sprintf("%s/result#%d", short, ri)
				pos := posOf[ri]
				if len(alts) == 0 {
					c.Bad(key, pos, "no selection from the case map is returned for this result")
					continue
				}
				sawValue, sawFallback := false, false
				ok := true
				why := ""
				for _, al := range alts {
					k, em := al.key, al.must
					present := false
					absent := false
					for _, l := range em {
						if strings.HasSuffix(l, "["+switchValueT+"]#1") {
							if l[0] == '+' {
								present = true
							} else {
								absent = true
							}
						}
					}
					switch {
					case k == switchValueT && present:
						sawValue = true
					case k == `"_"` && absent:
						sawFallback = true
					default:
						ok = false
						why = fmt.Sprintf("an entry read under key %s is selected on a path where the presence of the -s value in the case map was not decided by its comma-ok bit (%v)", pretty(k), em)
					}
				}
				c.Check(ok && sawValue && sawFallback, key, pos, "selected = cases[value] if present, else cases[\"_\"]", why+" (need both the value-key and the '_'-key selection)")
			}
		}
		for m := range caseMaps {
			c.Check(used[m], short+"/map-selected["+pretty(c.term(fn, m))+"]", c.W.FuncPos(fn), "a selection from this case map is returned", "case map "+pretty(c.term(fn, m))+" is parsed but no selection from it is returned")
		}
		// error when neither exists, only under enableEnvironmentErrors
		nErr := 0
		for _, r := range returnsOf(fn) {
			if c.isSuccessRet(fn, r) {
				continue
			}
			must := c.mustLits(fn, r.Block())
			noFallback := false
			for _, l := range must {
				if strings.HasPrefix(l, "-") && strings.HasSuffix(l, `["_"]#1`) {
					noFallback = true
				}
			}
			if noFallback {
				nErr++
				c.Check(hasLit(must, "+$0.enableEnvironmentErrors"), fmt.Sprintf("%s/no-case-error#%d", short, nErr), c.W.Pos(r.Pos()), "missing case is an error only in normal mode", "the 'no poryswitch case found' error is raised even in lint mode")
				// ... and always in normal mode: from where the '_' entry is looked up, the error
				// depends on nothing but "not there" and the mode (not on how many cases there are)
				var base map[string]bool
				instrs(fn, func(in ssa.Instruction) {
					if lk, ok := in.(*ssa.Lookup); ok && lk.CommaOk {
						if k, isC := strConst(lk.Index); isC && k == "_" && instrDominates(lk, r) {
							base = map[string]bool{}
							for _, l := range c.mustLits(fn, lk.Block()) {
								base[l] = true
							}
						}
					}
				})
				if base != nil {
					var extra []string
					for _, l := range must {
						if !base[l] && l != "+$0.enableEnvironmentErrors" && !(strings.HasPrefix(l, "-") && strings.HasSuffix(l, `["_"]#1`)) {
							extra = append(extra, l)
						}
					}
					c.Check(len(extra) == 0, fmt.Sprintf("%s/no-case-error#%d/no-further-condition", short, nErr), c.W.Pos(r.Pos()), "no further condition on the missing-case error", "the 'no poryswitch case found' error also depends on "+fmt.Sprint(prettyAll(extra))+": some programs without a matching case would compile in normal mode")
				}
			}
		}
		c.Check(nErr >= 1, short+"/no-case-error", c.W.FuncPos(fn), "no matching case and no '_' fails compilation", "no error return when neither the value nor '_' has a case")
	}
}

// lookupMap: v is (an extract of) a lookup; return the map operand.
func lookupMap(v ssa.Value) ssa.Value {
	if ex, ok := v.(*ssa.Extract); ok {
		v = ex.Tuple
	}
	if lk, ok := v.(*ssa.Lookup); ok {
		return lk.X
	}
	return nil
}

func c12b(c *Ctx) {
	fn := c.Fn("parser.Parser.parsePoryswitchHeader")
	if fn == nil {
		return
	}
	n := 0
	for _, r := range returnsOf(fn) {
		if !c.isSuccessRet(fn, r) {
			continue
		}
		n++
		id, val := c.term(fn, r.Results[0]), c.term(fn, r.Results[1])
		ok := strings.HasSuffix(id, ".Literal") && val == "$0.compileSwitches["+id+"]#0"
		c.Check(ok, "header/value", c.W.Pos(r.Pos()), "value = compileSwitches[identifier]", "header returns ("+pretty(id)+", "+pretty(val)+"), expected (identifier, compileSwitches[identifier])")
		var exp []string
		if ep := c.W.Method("parser", "Parser", "expectPeek"); ep != nil {
			for _, call := range callsToIn(fn, ep) {
				s, _ := strConst(call.Common().Args[1])
				exp = append(exp, s)
			}
		}
		c.Check(fmt.Sprint(exp) == "[( IDENT ) {]" && id == "$0.peek2Token.Literal", "header/shape", c.W.Pos(r.Pos()), "poryswitch ( IDENT ) { and the identifier is the token after '('", fmt.Sprintf("header expects %v and takes the identifier from %s", exp, pretty(id)))
	}
	c.Check(n == 1, "header/return", c.W.FuncPos(fn), "one successful return", fmt.Sprintf("%d successful returns", n))
	nEnv := 0
	for _, r := range returnsOf(fn) {
		if c.isSuccessRet(fn, r) {
			continue
		}
		must := c.mustLits(fn, r.Block())
		missing := false
		for _, l := range must {
			if (strings.HasPrefix(l, "-$0.compileSwitches[") && strings.HasSuffix(l, "#1")) || l == "-(0 < builtin:len($0.compileSwitches))" {
				missing = true
			}
		}
		if missing {
			nEnv++
			c.Check(hasLit(must, "+$0.enableEnvironmentErrors"), fmt.Sprintf("header/missing-switch-error#%d", nEnv), c.W.Pos(r.Pos()), "missing switches are errors only in normal mode", "a missing compile switch fails the parse even in lint mode")
		}
	}
	c.Check(nEnv == 2, "header/missing-switch-errors", c.W.FuncPos(fn), "no switches at all / this switch missing", fmt.Sprintf("found %d environment error returns, expected 2", nEnv))
}

func c12c(c *Ctx) {
	allowed := map[string]bool{"curToken": true, "peekToken": true, "peek2Token": true, "peek3Token": true, "peek4Token": true, "breakStack": true, "continueStack": true, "fonts": true}
	for _, name := range []string{"parser.Parser.parsePoryswitchStatementCases", "parser.Parser.parsePoryswitchTextCases", "parser.Parser.parsePoryswitchListCases"} {
		fn := c.Fn(name)
		if fn == nil {
			continue
		}
		var bad []string
		n := 0
		for _, k := range c.Eff().Writes(fn) {
			if strings.HasPrefix(k, "parser.Parser.") {
				n++
				if !allowed[strings.TrimPrefix(k, "parser.Parser.")] {
					bad = append(bad, k)
				}
			}
			if strings.HasPrefix(k, "map:") && !strings.Contains(k, "[]token.Token") && !strings.Contains(k, "[]ast.Statement") && !strings.Contains(k, "*parser.impData") && !strings.Contains(k, "map[string]string") && !strings.Contains(k, "map[string]struct{}") && !strings.Contains(k, "map[string]bool") {
				bad = append(bad, k)
			}
			// package-level state outlives the case as well
			if strings.HasPrefix(k, "global:") {
				bad = append(bad, k)
			}
			// ... and so does any other object of the parser package the parser points to (a
			// registry, a cache): fields of parser types other than the Parser itself, the
			// hoisting records and the per-statement impData that the case hands back
			if strings.HasPrefix(k, "parser.") && !strings.HasPrefix(k, "parser.Parser.") && !strings.HasPrefix(k, "parser.impData.") && !strings.HasPrefix(k, "parser.impText.") && !strings.HasPrefix(k, "parser.impMovement.") && !strings.HasPrefix(k, "parser.ParseError.") {
				bad = append(bad, k)
			}
		}
		c.Check(len(bad) == 0 && n > 0, fn.Name()+"/effects", c.W.FuncPos(fn), "parsing the cases writes only the token window, scope stacks and font cache of the parser", fmt.Sprintf("parsing the cases may write %v: content of a case that is not selected could influence the output", bad))
		// the maps written while parsing cases are maps made on the way (case tables, seen-sets):
		// none is a map the parser holds (constants, switches, hoisting tables)
		seen := map[*ssa.Function]bool{}
		var held []string
		var visit func(g *ssa.Function, depth int)
		visit = func(g *ssa.Function, depth int) {
			if g == nil || seen[g] || !c.W.InRepo(g) || len(g.Blocks) == 0 || depth > 12 {
				return
			}
			seen[g] = true
			instrs(g, func(in ssa.Instruction) {
				switch x := in.(type) {
				case *ssa.MapUpdate:
					if r := mapRootField(x.Map); r != "" {
						held = append(held, g.Name()+" writes "+r+" at "+c.W.Pos(x.Pos()))
					} else if gg := globalOrigin(x.Map); gg != nil {
						held = append(held, g.Name()+" writes the package-level "+gg.Name()+" at "+c.W.Pos(x.Pos()))
					}
				case ssa.CallInstruction:
					if calleeName(x) == "builtin:delete" {
						if r := mapRootField(x.Common().Args[0]); r != "" {
							held = append(held, g.Name()+" deletes from "+r+" at "+c.W.Pos(x.Pos()))
						}
					}
					visit(callee(x), depth+1)
					for _, a := range x.Common().Args {
						if mc, ok := a.(*ssa.MakeClosure); ok {
							if h, ok := mc.Fn.(*ssa.Function); ok {
								visit(h, depth+1)
							}
						}
						if h, ok := a.(*ssa.Function); ok {
							visit(h, depth+1)
						}
					}
				}
			})
		}
		visit(fn, 0)
		c.Check(len(held) == 0, fn.Name()+"/no-parser-map-written", c.W.FuncPos(fn), fmt.Sprintf("no map held by the parser is written while cases are parsed (%d functions reachable)", len(seen)), fmt.Sprintf("while parsing poryswitch cases a map held by the parser is written (%v): a case that is not selected would leave a trace", held))
	}
}

// mapRootField: the map value is loaded from a field of the Parser (p.constants, p.compileSwitches, ...).
func mapRootField(m ssa.Value) string {
	for i := 0; i < 8; i++ {
		switch x := m.(type) {
		case *ssa.UnOp:
			if _, t, f, ok := fieldAddrOf(x.X); ok && typeIs(t, "parser", "Parser") {
				return "Parser." + f
			}
			m = x.X
		case *ssa.FieldAddr:
			// a map inside an object the parser points to (p.cache.done)
			m = x.X
		case *ssa.Phi:
			for _, e := range x.Edges {
				if r := mapRootField(e); r != "" {
					return r
				}
			}
			return ""
		default:
			return ""
		}
	}
	return ""
}

func c12d(c *Ctx) {
	fn := c.Fn(".mapOption.Set")
	if fn == nil {
		fn = c.W.Method("", "mapOption", "Set")
	}
	if fn == nil {
		c.Unk("anchor:main.mapOption.Set", "-", "mapOption.Set not found")
		return
	}
	ok := false
	for _, ci := range callsNamed(fn, "strings.SplitN") {
		a := ci.Common().Args
		sep, _ := strConst(a[1])
		n, _ := intConst(a[2])
		if sep == "=" && n == 2 && c.term(fn, a[0]) == "$1" {
			ok = true
		}
	}
	okStore := false
	instrs(fn, func(in ssa.Instruction) {
		if mu, isMU := in.(*ssa.MapUpdate); isMU {
			k, v := c.term(fn, mu.Key), c.term(fn, mu.Value)
			if strings.HasSuffix(k, "[0]") && strings.HasSuffix(v, "[1]") && hasLit(c.mustLits(fn, mu.Block()), `-(builtin:len(strings.SplitN($1,"=",2)) != 2)`) {
				okStore = true
			}
			if strings.HasSuffix(k, "[0]") && strings.HasSuffix(v, "[1]") {
				for _, l := range c.mustLits(fn, mu.Block()) {
					if strings.Contains(l, "builtin:len(strings.SplitN($1,\"=\",2))") {
						okStore = true
					}
				}
			}
		}
	})
	// second accepted shape: i := strings.Index(value, "="); i < 0 rejected; key = value[:i], val = value[i+1:]
	if !(ok && okStore) {
		instrs(fn, func(in ssa.Instruction) {
			if mu, isMU := in.(*ssa.MapUpdate); isMU {
				k, v := c.term(fn, mu.Key), c.term(fn, mu.Value)
				idx := `strings.Index($1,"=")`
				if k == "$1[:"+idx+"]" && v == "$1["+idx+"+1:]" && hasLit(c.mustLits(fn, mu.Block()), "-("+idx+" < 0)") {
					ok, okStore = true, true
				}
			}
		})
	}
	// Set records exactly one entry per option: the key as written (switch names are case
	// sensitive: GAME and game are different switches)
	{
		nUpd := 0
		instrs(fn, func(in ssa.Instruction) {
			if _, isMU := in.(*ssa.MapUpdate); isMU {
				nUpd++
			}
		})
		// ... for every well-formed option: no successful return of Set is reached without the
		// entry having been stored (`-s GAME=` sets GAME to the empty value; it selects `_`)
		{
			isUpd := func(in ssa.Instruction) bool { _, ok := in.(*ssa.MapUpdate); return ok }
			w, skip := existsPath(pathQuery{from: entry(fn), avoid: isUpd, edgeOK: notErrorEdge, target: func(in ssa.Instruction) bool {
				r, ok := in.(*ssa.Return)
				return ok && isSuccessReturn(r)
			}})
			why := ""
			if skip {
				why = "mapOption.Set can return successfully (" + c.nearPos(w) + ") without having stored the option: a switch given on the command line would be unknown to the parser"
			}
			c.Check(!skip, "mapOption.Set/every-option-stored", c.W.FuncPos(fn), "every accepted -s option is stored", why)
		}
		c.Check(nUpd == 1, "mapOption.Set/one-entry", c.W.FuncPos(fn), "Set stores one entry per -s option", fmt.Sprintf("mapOption.Set updates the map %d times: besides NAME=VALUE as written it stores something else (another spelling of the name?), so one -s option can override another switch", nUpd))
	}
	// the switch values that reach the parser are the ones given on the command line: nothing in
	// package main rewrites the map after (or besides) Set
	nOther := 0
	for _, f := range c.W.FuncsOf("") {
		if isTestFunc(c.W, f) || f == fn {
			continue
		}
		instrs(f, func(in ssa.Instruction) {
			mu, isMU := in.(*ssa.MapUpdate)
			if !isMU {
				return
			}
			mt, isMap := mu.Map.Type().Underlying().(*types.Map)
			if !isMap || !types.Identical(mt.Key(), types.Typ[types.String]) || !types.Identical(mt.Elem(), types.Typ[types.String]) {
				return
			}
			nOther++
			c.Bad("switch-map/written-outside-Set/"+c.W.FuncKey(f), c.W.Pos(mu.Pos()), f.Name()+" rewrites a string map of the command line after it was parsed: the switch values the parser selects cases with would no longer be the ones given with -s")
		})
		for _, ci := range callsIn(f) {
			if calleeName(ci) == "builtin:delete" {
				nOther++
				c.Bad("switch-map/written-outside-Set/"+c.W.FuncKey(f), c.W.Pos(ci.Pos()), f.Name()+" deletes from a map of the command line")
			}
		}
	}
	c.Check(nOther == 0, "switch-map/only-Set-writes", c.W.FuncPos(fn), "only mapOption.Set writes the -s map", "the -s map is rewritten outside Set")
	c.Check(ok && okStore, "mapOption.Set", c.W.FuncPos(fn), "K=V split at the first '=' (value may contain '='), anything else rejected", "-s values are not split at the first '=' (strings.SplitN(value, \"=\", 2) with a length check, or strings.Index with a negative-index check)")
}

// ---- C13 -----------------------------------------------------------------------------------

// isTokenLiteral: term denotes the Literal of a lexer token in the parser's window.
func isTokenLiteral(t string) bool {
	return strings.HasSuffix(t, ".Literal") && (strings.HasPrefix(t, "$0.curToken") || strings.HasPrefix(t, "$0.peek") || strings.HasPrefix(t, "mu(") || strings.HasPrefix(t, "$1.curToken") || strings.HasPrefix(t, "$1.peek"))
}

func c13a(c *Ctx) {
	try := c.Fn("parser.Parser.tryReplaceWithConstant")
	if try == nil {
		return
	}
	// sinks: append of a string element to a []string accumulator, or WriteString to a builder,
	// in the parse functions that build arguments / operands / values
	sinkFns := []string{"parser.Parser.parseCommandStatement", "parser.Parser.parseMartStatement", "parser.Parser.parseMapscriptsStatement", "parser.Parser.parseSwitchStatement",
		"parser.Parser.parseLeafBooleanExpression", "parser.Parser.parseConditionVarOperator", "parser.Parser.parseConstant"}
	total := 0
	// each listed function together with its private helpers (unitOf)
	var sinkUnits []*ssa.Function
	seenUnit := map[*ssa.Function]bool{}
	for _, name := range sinkFns {
		root := c.Fn(name)
		if root == nil {
			continue
		}
		for _, m := range c.unitOf(root) {
			if !seenUnit[m.fn] && m.fn != try {
				seenUnit[m.fn] = true
				sinkUnits = append(sinkUnits, m.fn)
			}
		}
	}
	for _, fn := range sinkUnits {
		isRoot := false
		for _, name := range sinkFns {
			if c.Fn(name) == fn {
				isRoot = true
			}
		}
		n := 0
		check := func(v ssa.Value, site ssa.Instruction, kind string) {
			t := c.term(fn, v)
			if s, isC := strConst(v); isC {
				_ = s
				return
			}
			pos := c.W.Pos(site.Pos())
			key := fmt.Sprintf("%s/%s#%d", fn.Name(), kind, n)
			if call, ok := v.(*ssa.Call); ok && callee(call) == try {
				n++
				arg := c.term(fn, call.Call.Args[1])
				// ... of the token being consumed (the parser's current token, an element of a token
				// list, a token handed in) — not of a token that is still ahead
				okTok := strings.HasSuffix(arg, ".Literal") && !c.readsLookahead(fn, call.Call.Args[1], call)
				c.Check(okTok, key, pos, "token literal passed through tryReplaceWithConstant ("+arg+")", "tryReplaceWithConstant is applied to "+pretty(arg)+", expected the literal of the token being consumed")
				return
			}
			if strings.HasSuffix(t, ".Literal") {
				n++
				// raw literal: only allowed for parentheses
				must := c.mustLits(fn, site.Block())
				paren := false
				for _, l := range must {
					if strings.HasPrefix(l, "+(") && (strings.HasSuffix(l, `.Type == "(")`) || strings.HasSuffix(l, `.Type == ")")`)) {
						paren = true
					}
				}
				c.Check(paren, key, pos, "raw literal only for a parenthesis token", "token literal "+pretty(t)+" is accumulated without constant substitution")
				return
			}
			// anything else that is accumulated is itself an accumulated value being closed (the
			// joined parts of an argument), never a processed copy of a literal
			var leaves []ssa.Value
			phiLeaves(v, map[ssa.Value]bool{}, &leaves)
			for _, lf := range leaves {
				lt := c.term(fn, lf)
				if _, isC := strConst(lf); isC {
					continue
				}
				okOther := strings.HasPrefix(lt, "strings.Join(") || strings.HasPrefix(lt, "(*strings.Builder).String(") || strings.HasPrefix(lt, "$")
				if !okOther {
					n++
					c.Bad(key+"/other", pos, "the value "+pretty(lt)+" is accumulated: it is neither a substituted token literal, a parenthesis, nor a joined value being closed (a processed copy of a literal escapes the substitution rules)")
					return
				}
			}
		}
		instrs(fn, func(in ssa.Instruction) {
			call, ok := in.(*ssa.Call)
			if !ok {
				return
			}
			switch calleeName(call) {
			case "builtin:append":
				if sl, ok := call.Type().Underlying().(*types.Slice); ok && types.Identical(sl.Elem(), types.Typ[types.String]) {
					for _, e := range varargElems(call.Call.Args[1]) {
						check(e, call, "append")
					}
				}
			case "(*strings.Builder).WriteString":
				check(call.Call.Args[1], call, "write")
			}
		})
		total += n
		if !isRoot {
			continue // a helper need not accumulate anything itself
		}
		nUnit := n
		for _, m := range c.unitOf(fn) {
			if m.fn != fn {
				nUnit++ // counted when the helper itself is visited
			}
		}
		c.Check(nUnit > 0, fn.Name()+"/sinks", c.W.FuncPos(fn), fmt.Sprintf("%d accumulation sites", n), "no accumulation site found any more")
	}
	// gathered parts are joined by single spaces (the way an argument written out is)
	for _, fn := range sinkUnits {
		for _, ci := range callsIn(fn) {
			if calleeName(ci) != "strings.Join" {
				continue
			}
			sep, isC := strConst(ci.Common().Args[1])
			c.Check(isC && sep == " ", fmt.Sprintf("%s/join-separator@%d", fn.Name(), c.T(fn).callOrd[ci]), c.W.Pos(ci.Pos()), "parts are joined by one space", "gathered tokens are joined with "+pretty(c.term(fn, ci.Common().Args[1]))+" instead of a single space: a constant standing for several tokens would be spelled differently from the same tokens written out")
		}
	}
	// what is stored is the accumulated string
	type fieldSink struct{ fn, pkg, typ, field, want string }
	for _, s := range []fieldSink{
		{"parser.Parser.parseSwitchStatement", "ast", "SwitchStatement", "Operand", `Literal=strings.Join(`},
		{"parser.Parser.parseSwitchStatement", "ast", "SwitchCase", "Value", `Literal=strings.Join(`},
		{"parser.Parser.parseLeafBooleanExpression", "ast", "OperatorExpression", "Operand", `Literal=strings.Join(`},
		{"parser.Parser.parseConditionVarOperator", "ast", "OperatorExpression", "ComparisonValue", `strings.Join(`},
		{"parser.Parser.parseMapscriptsStatement", "ast", "TableMapScriptEntry", "Condition", `Literal=(*strings.Builder).String(`},
		{"parser.Parser.parseMapscriptsStatement", "ast", "TableMapScriptEntry", "Comparison", `(*strings.Builder).String(`},
	} {
		fn := c.Fn(s.fn)
		if fn == nil {
			continue
		}
		n := 0
		chk := func(v string, pos string) {
			if strings.Contains(v, "expectPeekVarOrAutoVar@0#") || v == `"0"` {
				return // AutoVar operand / implicit comparison value
			}
			n++
			okV := strings.Contains(v, s.want)
			if okV && !strings.HasPrefix(s.want, "Literal=") && !strings.HasPrefix(v, s.want) && !strings.HasPrefix(strings.TrimPrefix(strings.TrimLeft(v, "("), `"( " ++ `), s.want) && !strings.HasPrefix(v, "phi(") {
				okV = false // something applied to the read-out (ToUpper, TrimSpace, …)
			}
			c.Check(okV, fmt.Sprintf("%s/%s.%s#%d", fn.Name(), s.typ, s.field, n), pos, s.typ+"."+s.field+" holds the substituted, joined value", s.typ+"."+s.field+" is "+pretty(v)+", which is not the joined result of the constant-substituted tokens")
		}
		for _, st := range storesToField(fn, s.pkg, s.typ, s.field) {
			v := c.term(fn, st.Val)
			// a token field of a record whose Literal is set afterwards, in place
			// (`entry.Condition = tok; entry.Condition.Literal = joined`)
			if !strings.Contains(v, s.want) && strings.HasPrefix(s.want, "Literal=") {
				if fa, ok := st.Addr.(*ssa.FieldAddr); ok {
					if rec, ok := fa.X.(*ssa.Alloc); ok && rec.Referrers() != nil {
						for _, r := range *rec.Referrers() {
							fa2, ok := r.(*ssa.FieldAddr)
							if !ok || fa2.Field != fa.Field || fa2.Referrers() == nil {
								continue
							}
							for _, r2 := range *fa2.Referrers() {
								fa3, ok := r2.(*ssa.FieldAddr)
								if !ok || fieldName(fa3.X.Type(), fa3.Field) != "Literal" || fa3.Referrers() == nil {
									continue
								}
								for _, r3 := range *fa3.Referrers() {
									if st3, ok := r3.(*ssa.Store); ok && st3.Addr == ssa.Value(fa3) && canReach(st, st3) {
										v = "Literal=" + c.term(fn, st3.Val)
									}
								}
							}
						}
					}
				}
			}
			if !strings.Contains(v, s.want) {
				// a value handed back by a helper: every origin must be the joined result
				src := st.Val
				want := s.want
				if strings.HasPrefix(s.want, "Literal=") {
					// a token whose Literal is the value: follow the Literal
					want = strings.TrimPrefix(s.want, "Literal=")
					src = nil
					if _, f := c.valueWith(fn, st.Val); f != nil && f["Literal"] != "" {
						src = c.valueOfTerm(fn, f["Literal"])
					}
				}
				var os []valueOrigin
				if src != nil {
					os = c.originsOf(fn, src, nil, 2)
				} else if strings.HasPrefix(s.want, "Literal=") {
					// the whole token is handed back by a helper: look at the Literal it gives it
					for _, o := range c.originsOf(fn, st.Val, nil, 2) {
						_, f := c.valueWith(o.fn, o.v)
						if f == nil || f["Literal"] == "" {
							os = nil
							break
						}
						if lv := c.valueOfTerm(o.fn, f["Literal"]); lv != nil {
							os = append(os, c.originsOf(o.fn, lv, nil, 1)...)
						} else {
							os = nil
							break
						}
					}
				}
				_ = want
				all := len(os) > 0
				for _, o := range os {
					ot := c.term(o.fn, o.v)
					if !strings.Contains(ot, want) && ot != `""` {
						all = false
					}
				}
				if all {
					v = s.want + "…) (returned by a helper)"
				}
			}
			chk(v, c.W.Pos(st.Pos()))
		}
		// composite literals stored whole (local struct values)
		instrs(fn, func(in ssa.Instruction) {
			a, ok := in.(*ssa.Alloc)
			if !ok || a.Comment != "complit" || !typeIs(a.Type(), s.pkg, s.typ) {
				return
			}
			if _, isPtr := a.Type().Underlying().(*types.Pointer); isPtr {
				for _, ref := range *a.Referrers() {
					if u, ok := ref.(*ssa.UnOp); ok && u.X == ssa.Value(a) {
						_, f := c.withFields(fn, c.term(fn, u))
						if f != nil && f[s.field] != "" {
							chk(f[s.field], c.W.Pos(a.Pos()))
						}
					}
				}
			}
		})
		c.Check(n > 0, fmt.Sprintf("%s/%s.%s", fn.Name(), s.typ, s.field), c.W.FuncPos(fn), fmt.Sprintf("%d stores", n), "no store to "+s.typ+"."+s.field+" found")
	}
	// mart items: one substituted item per token item, full range
	if fn := c.Fn("parser.Parser.parseMartStatement"); fn != nil {
		ok := false
		for _, st := range storesToField(fn, "ast", "MartStatement", "Items") {
			for _, e := range appendElems(st.Val) {
				t := c.term(fn, e)
				// (TokenItems as it is when the items are made, or as it is when the node is handed back)
				var tis []string
				for _, a := range allocsOf(fn, "ast", "MartStatement") {
					tis = append(tis, c.fieldAtUse(fn, a, "TokenItems", st))
					for _, r := range returnsOf(fn) {
						if isSuccessReturn(r) && len(r.Results) > 0 && r.Results[0] == ssa.Value(a) {
							tis = append(tis, c.fieldAtUse(fn, a, "TokenItems", r))
						}
					}
				}
				for _, ti := range tis {
					if ti != "" && ti != "zero" && strings.HasPrefix(t, "(*parser.Parser).tryReplaceWithConstant($0,"+ti+"[phi(") && strings.Contains(t, "+1].Literal)") {
						ok = true
					}
				}
			}
		}
		c.Check(ok, "parseMartStatement/items-from-token-items", c.W.FuncPos(fn), "Items[i] = substituted literal of TokenItems[i] for every i", "mart Items are not built as tryReplaceWithConstant(TokenItems[i].Literal) over the full range")
	}
	_ = total
}

func c13b(c *Ctx) {
	// no stored name / step derives from tryReplaceWithConstant
	type nf struct{ pkg, typ, field string }
	fields := []nf{{"ast", "Identifier", "Value"}, {"ast", "MapScript", "Name"}, {"ast", "TableMapScriptEntry", "Name"}, {"ast", "TableMapScript", "Name"},
		{"ast", "MovementStatement", "MovementCommands"}, {"ast", "MapScript", "Type"}, {"ast", "TableMapScript", "Type"}, {"ast", "RawStatement", "Value"}}
	for _, f := range fields {
		n := 0
		bad := ""
		for _, fn := range c.W.FuncsOf("parser") {
			if isTestFunc(c.W, fn) {
				continue
			}
			for _, st := range storesToField(fn, f.pkg, f.typ, f.field) {
				n++
				if strings.Contains(c.term(fn, st.Val), "tryReplaceWithConstant") {
					bad = c.W.Pos(st.Pos())
				}
			}
			instrs(fn, func(in ssa.Instruction) {
				a, ok := in.(*ssa.Alloc)
				if !ok || a.Comment != "complit" || !typeIs(a.Type(), f.pkg, f.typ) {
					return
				}
				for _, ref := range *a.Referrers() {
					if u, ok := ref.(*ssa.UnOp); ok && u.X == ssa.Value(a) {
						if _, fl := c.withFields(fn, c.term(fn, u)); fl != nil && fl[f.field] != "" {
							n++
							if strings.Contains(fl[f.field], "tryReplaceWithConstant") {
								bad = c.W.Pos(a.Pos())
							}
						}
					}
				}
			})
		}
		c.Check(bad == "" && n > 0, "never-substituted/"+f.typ+"."+f.field, "parser/parser.go", fmt.Sprintf("%s.%s is never constant-substituted (%d stores)", f.typ, f.field, n), f.typ+"."+f.field+" is stored from a constant-substituted value at "+bad+" (names, steps and raw text must stay as written)")
	}
	// what a substitution is used for: its result becomes one element of a space-joined value
	// (appended to a []string, or written to a builder) and nothing else — it is never stored as
	// a token's literal (a step, a name), never run through text processing (an inline string)
	try := c.Fn("parser.Parser.tryReplaceWithConstant")
	if try != nil {
		nUse := 0
		for _, ci := range c.W.callsTo(try) {
			fn := ci.Parent()
			if isTestFunc(c.W, fn) || fn == try {
				continue
			}
			v, ok := ci.(ssa.Value)
			if !ok || v.Referrers() == nil {
				continue
			}
			nUse++
			key := fmt.Sprintf("substitution-use/%s@%d", c.W.FuncKey(fn), c.T(fn).callOrd[ci])
			bad := ""
			for _, r := range *v.Referrers() {
				switch y := r.(type) {
				case *ssa.DebugRef:
				case *ssa.Store:
					// element of the varargs slice of an append
					if ia, ok := y.Addr.(*ssa.IndexAddr); ok {
						if a, ok := ia.X.(*ssa.Alloc); ok && a.Comment == "varargs" {
							continue
						}
					}
					bad = "stored to " + pretty(c.term(fn, y.Addr))
				case ssa.CallInstruction:
					if calleeName(y) == "(*strings.Builder).WriteString" {
						continue
					}
					bad = "passed to " + calleeName(y)
				default:
					bad = fmt.Sprintf("used by %T", r)
				}
			}
			arg := stripLoopTags(c.term(fn, ci.Common().Args[1]))
			if bad == "" && !strings.HasSuffix(arg, ".Literal") {
				bad = "applied to " + pretty(arg) + ", which is not a token literal"
			}
			c.Check(bad == "", key, c.W.Pos(ci.Pos()), "the substituted literal becomes one element of a space-joined value", "the result of tryReplaceWithConstant is "+bad+": constants would rewrite something other than an argument / operand / value token (movement steps, names and text must stay as written)")
		}
		c.Check(nUse >= 8, "substitution-use/scanned", "-", fmt.Sprintf("%d substitution sites", nUse), fmt.Sprintf("expected at least 8 substitution sites, found %d", nUse))
	}
	// list parsers never call the helper
	for _, name := range []string{"parser.parseMovementValue", "parser.Parser.tryParseLabelStatement", "parser.Parser.parseTextValue", "parser.Parser.parseRawStatement", "parser.Parser.expectPeekVarOrAutoVar"} {
		fn := c.Fn(name)
		if fn == nil || try == nil {
			continue
		}
		c.Check(len(callsToIn(fn, try)) == 0, "never-substituted/"+fn.Name(), c.W.FuncPos(fn), fn.Name()+" does not substitute constants", fn.Name()+" calls tryReplaceWithConstant: movement steps / labels / text / AutoVar result vars must stay as written")
	}
}

func c13c(c *Ctx) {
	seven := []string{"CONST", "MAPSCRIPTS", "MART", "MOVEMENT", "RAW", "SCRIPT", "TEXT"}
	// the set may be a table (checked here) or be spelled by a predicate (read below)
	tlName := c.W.GlobalNamed("parser", "topLevelTokens", "map[token.Type]bool")
	tbl, hasTbl := c.globalMapLiteral("parser", tlName)
	if hasTbl {
		var got []string
		for k := range tbl {
			got = append(got, k)
		}
		sort.Strings(got)
		c.Check(fmt.Sprint(got) == fmt.Sprint(seven), "topLevelTokens", "parser/parser.go", "the constant value scan stops at the seven top-level keywords", fmt.Sprintf("top-level keyword set is %v, expected %v", got, seven))
	}
	fn := c.Fn("parser.Parser.parseConstant")
	if fn == nil {
		return
	}
	// the scan advances exactly while the next token is none of the seven keywords and the input
	// is not exhausted — however the test is spelled (table lookup, predicate helper, comparisons)
	n := 0
	for _, ci := range callsIn(fn) {
		if !strings.HasSuffix(calleeName(ci), "/parser.Parser).nextToken") {
			continue
		}
		b := ci.Block()
		inLoop := false
		for _, blk := range fn.Blocks {
			if isLoopHeader(blk) && loopBody(blk)[b] {
				inLoop = true
			}
		}
		if !inLoop {
			continue
		}
		n++
		d := c.PC(fn).canonOf(c.PC(fn).At(b))
		// only what is said about the tokens of this iteration matters
		d = dropAtoms(d, func(a string) bool { return !strings.Contains(a, "!L") })
		peekRe := regexpMust(`\$0\.peekToken![A-Za-z0-9]+\.Type`)
		curRe := regexpMust(`\$0\.curToken![A-Za-z0-9]+\.Type`)
		peekT, curT := "", ""
		for _, at := range dnfAtoms(d) {
			if m := peekRe.FindString(at); m != "" {
				peekT = m
			}
			if m := curRe.FindString(at); m != "" {
				curT = m
			}
		}
		// a lookup in the (checked) table stands for "is one of its keys"
		if hasTbl {
			lookup := regexpMust(`^@parser\.` + regexp.QuoteMeta(tlName) + `\[(.*)\](#1)?$`)
			open := dnf{unknown: d.unknown}
			for _, cj := range d.cs {
				alts := []conj{{}}
				for _, l := range cj {
					var repl []conj
					if m := lookup.FindStringSubmatch(l[1:]); m != nil {
						if l[0] == '+' {
							for _, k := range seven {
								repl = append(repl, conj{fmt.Sprintf("+(%s == %q)", m[1], k)})
							}
						} else {
							var neg conj
							for _, k := range seven {
								neg = append(neg, fmt.Sprintf("-(%s == %q)", m[1], k))
							}
							repl = []conj{neg}
						}
					} else {
						repl = []conj{{l}}
					}
					var next []conj
					for _, a := range alts {
						for _, r := range repl {
							if m2, ok := conjMerge(a, r); ok {
								next = append(next, m2)
							}
						}
					}
					alts = next
				}
				open.cs = append(open.cs, alts...)
			}
			open.cs = simplify(open.cs)
			d = open
		}
		ok := peekT != "" && curT != ""
		if ok {
			var want conj
			for _, k := range seven {
				want = append(want, fmt.Sprintf("-(%s == %q)", peekT, k))
			}
			want = append(want, fmt.Sprintf("-(%s == %q)", curT, "EOF"))
			dom := map[string][]string{peekT: append(append([]string{}, seven...), "EOF", "@other"), curT: {"EOF", "@other"}}
			// further type names the test mentions belong to the domain too
			for _, at := range dnfAtoms(d) {
				if strings.HasPrefix(at, "("+peekT+` == "`) {
					v := strings.TrimSuffix(strings.TrimPrefix(at, "("+peekT+` == "`), `")`)
					known := false
					for _, x := range dom[peekT] {
						known = known || x == v
					}
					if !known {
						dom[peekT] = append(dom[peekT], v)
					}
				}
			}
			ok = dnfEquivDomain(d, mkDNF([]string(want)), dom)
		}
		c.Check(ok, "parseConstant/stops-at-top-level", c.W.Pos(ci.Pos()), "the value scan goes on exactly while the next token is not a top-level keyword and the input is not exhausted", "the constant value scan advances under ["+d.String()+"], expected exactly: next token is none of "+fmt.Sprint(seven)+" and the current token is not EOF (a value would end early, or swallow the statement that follows)")
	}
	c.Check(n > 0, "parseConstant/scan-loop", c.W.FuncPos(fn), "scan loop found", "cannot find the loop that collects the constant's value")
}

// c13dTable: the constants table is consulted by tryReplaceWithConstant and by the definition
// parser only, and is never replaced or emptied while parsing (a direct p.constants[...] lookup
// for a label or a command name would substitute where C13.b, which follows the helper, cannot see)
func c13dTable(c *Ctx) {
	n := 0
	for _, fn := range c.W.FuncsOf("parser") {
		if isTestFunc(c.W, fn) {
			continue
		}
		allowed := fn.Name() == "tryReplaceWithConstant" || fn.Name() == "parseConstant"
		instrs(fn, func(in ssa.Instruction) {
			switch x := in.(type) {
			case *ssa.Lookup:
				if mapRootField(x.X) == "Parser.constants" {
					n++
					c.Check(allowed, fmt.Sprintf("constants-table/read/%s#%d", c.W.FuncKey(fn), n), c.W.Pos(x.Pos()), "the constants table is read by the substitution helper / the definition parser", fn.Name()+" looks up the constants table itself: a substitution outside tryReplaceWithConstant is invisible to the rules that follow that helper")
				}
			case *ssa.Range:
				if mapRootField(x.X) == "Parser.constants" {
					n++
					c.Check(allowed, fmt.Sprintf("constants-table/read/%s#%d", c.W.FuncKey(fn), n), c.W.Pos(x.Pos()), "the constants table is read by the substitution helper / the definition parser", fn.Name()+" ranges over the constants table")
				}
			case *ssa.Store:
				if _, t, f, ok := fieldAddrOf(x.Addr); ok && typeIs(t, "parser", "Parser") && f == "constants" {
					if _, fresh := rootValue(x.Addr).(*ssa.Alloc); !fresh {
						n++
						c.Bad(fmt.Sprintf("constants-table/replaced/%s#%d", c.W.FuncKey(fn), n), c.W.Pos(x.Pos()), fn.Name()+" replaces the constants table while parsing: constants defined before would be forgotten (and could be redefined)")
					}
				}
			case ssa.CallInstruction:
				if calleeName(x) == "builtin:delete" && mapRootField(x.Common().Args[0]) == "Parser.constants" {
					n++
					c.Bad(fmt.Sprintf("constants-table/deleted/%s#%d", c.W.FuncKey(fn), n), c.W.Pos(x.Pos()), fn.Name()+" deletes from the constants table")
				}
			}
		})
	}
	c.Check(n >= 2, "constants-table/uses", "-", fmt.Sprintf("%d direct uses of the constants table", n), fmt.Sprintf("expected at least 2 direct uses of the constants table, found %d", n))
}

func c13d(c *Ctx) {
	c13dTable(c)
	fn := c.Fn("parser.Parser.tryReplaceWithConstant")
	if fn == nil {
		return
	}
	okHit, okMiss := false, false
	for _, r := range returnsOf(fn) {
		v := c.term(fn, r.Results[0])
		must := c.mustLits(fn, r.Block())
		if v == "$0.constants[$1]#0" && hasLit(must, "+$0.constants[$1]#1") {
			okHit = true
		}
		if v == "$1" && hasLit(must, "-$0.constants[$1]#1") {
			okMiss = true
		}
	}
	c.Check(okHit && okMiss && len(c.Eff().Writes(fn)) == 0, "tryReplaceWithConstant/pure-lookup", c.W.FuncPos(fn), "returns constants[name] when defined, else the name; writes nothing", "tryReplaceWithConstant is not a pure lookup (constants[value] if present, else value)")
}

// ---- C14 -----------------------------------------------------------------------------------

func c14a(c *Ctx) {
	fn := c.Fn("parser.parseMovementValue")
	if fn == nil {
		return
	}
	// the one ParseInt of the multiplier, in parseMovementValue or a private helper of it
	var call ssa.CallInstruction
	var g *ssa.Function
	nCalls := 0
	for _, m := range c.unitOf(fn) {
		for _, ci := range callsNamed(m.fn, "strconv.ParseInt") {
			call, g = ci, m.fn
			nCalls++
		}
	}
	if nCalls != 1 {
		c.Bad("multiplier/parse", c.W.FuncPos(fn), fmt.Sprintf("expected one strconv.ParseInt, found %d", nCalls))
		return
	}
	n := c.term(g, call.(ssa.Value)) + "#0"
	must := c.mustLits(g, call.Block())
	okInt := false
	for _, l := range must {
		if strings.HasPrefix(l, "+(") && strings.HasSuffix(l, `.Type == "INT")`) {
			okInt = true
		}
	}
	c.Check(okInt, "multiplier/must-be-int", c.W.Pos(call.Pos()), "the multiplier token must be an INT", "the multiplier is parsed without testing that the token is an INT")
	// expansion loop: phi i from 0 step 1 while i < bound, one append of the step per iteration;
	// the bound is the parsed multiplier (or, when one loop serves both forms, the constant 1
	// for a step without multiplier)
	var loopPhi *ssa.Phi
	var bound ssa.Value
	instrs(fn, func(in ssa.Instruction) {
		if p, ok := in.(*ssa.Phi); ok && isLoopHeader(p.Block()) {
			if ifi, ok := p.Block().Instrs[len(p.Block().Instrs)-1].(*ssa.If); ok {
				if bo, ok := ifi.Cond.(*ssa.BinOp); ok && bo.Op == token.LSS && bo.X == ssa.Value(p) {
					okB := false
					for _, o := range c.originsOf(fn, bo.Y, nil, 2) {
						if ex, isEx := o.v.(*ssa.Extract); isEx && ex.Index == 0 && ex.Tuple == call.(ssa.Value) {
							okB = true
						}
					}
					if okB {
						loopPhi, bound = p, bo.Y
					}
				}
			}
		}
	})
	if loopPhi == nil {
		c.Bad("multiplier/expansion-loop", c.W.FuncPos(fn), "no loop 'for i < multiplier' found")
		return
	}
	okBound := true
	for _, o := range c.originsOf(fn, bound, nil, 2) {
		if ex, isEx := o.v.(*ssa.Extract); isEx && ex.Index == 0 && ex.Tuple == call.(ssa.Value) {
			continue
		}
		if k, isC := intConst(o.v); isC && k == 1 {
			continue
		}
		okBound = false
	}
	c.Check(okBound, "multiplier/bound", c.W.Pos(loopPhi.Pos()), "the number of copies is the parsed multiplier (1 without a multiplier)", "the expansion loop's bound can be something other than the parsed multiplier or 1")
	// where the multiplier is validated: at the loop when parsed in place, at the helper's
	// successful return when parsed by a helper
	validAt := loopPhi.Block()
	if g != fn {
		validAt = nil
		for _, r := range returnsOf(g) {
			if len(r.Results) > 0 && c.term(g, r.Results[0]) == n {
				validAt = r.Block()
			}
		}
		if validAt == nil {
			c.Bad("multiplier/helper-returns-value", c.W.FuncPos(g), "the multiplier helper does not return the parsed value")
			return
		}
	}
	start, step := false, false
	for _, e := range loopPhi.Edges {
		et := c.term(fn, e)
		if et == "0" {
			start = true
		}
		if et == c.term(fn, loopPhi)+"+1" {
			step = true
		}
	}
	body := loopBody(loopPhi.Block())
	apps := 0
	okElem := false
	for b := range body {
		for _, in := range b.Instrs {
			if ap, ok := in.(*ssa.Call); ok && calleeName(ap) == "builtin:append" {
				apps++
				es := varargElems(ap.Call.Args[1])
				if len(es) == 1 && strings.HasPrefix(c.term(fn, es[0]), "$0.curToken") {
					// ... the step token itself: read while the current token is the identifier, before
					// the parser moves on to '*' and the number
					if ld, isLd := es[0].(*ssa.UnOp); isLd {
						ident := false
						for _, l := range c.mustLits(fn, ld.Block()) {
							if strings.HasPrefix(l, "+($0.curToken") && strings.HasSuffix(l, `.Type == "IDENT")`) {
								ident = true
							}
						}
						moved := false
						for _, x := range ld.Block().Instrs {
							if x == ssa.Instruction(ld) {
								break
							}
							if ci, isCall := x.(ssa.CallInstruction); isCall && strings.HasSuffix(calleeName(ci), ".nextToken") {
								moved = true
							}
						}
						okElem = ident && !moved
					}
				}
			}
		}
	}
	c.Check(start && step && apps == 1 && okElem, "multiplier/expands-n-copies", c.W.Pos(loopPhi.Pos()), "i from 0 to n-1, one copy of the step token per iteration", "the expansion loop does not append exactly one copy of the step for each i in [0, n)")
	hm := c.mustLits(g, validAt)
	c.Check(hasLit(hm, "+(0 < "+n+")"), "multiplier/lower-bound", c.W.Pos(loopPhi.Pos()), "multiplier >= 1", "the expansion is reached without rejecting multipliers <= 0")
	c.Check(hasLit(hm, "-(9999 < "+n+")"), "multiplier/upper-bound", c.W.Pos(loopPhi.Pos()), "multiplier <= 9999", "the expansion is reached without rejecting multipliers > 9999")
	c.Check(hasLit(hm, "+("+c.term(g, call.(ssa.Value))+"#1 == nil)"), "multiplier/parse-error-checked", c.W.Pos(loopPhi.Pos()), "ParseInt error is checked", "the ParseInt error is not checked before the value is used")
}

func c14b(c *Ctx) {
	fn := c.Fn("emitter.Emitter.emitMovementStatement")
	if fn == nil {
		return
	}
	c.checkShape(fn, "movement/output-shape", gSeq(gMark(), gName(), gStar(gSeq(gMark(), gLit("\t%s\n"))), gOpt(gLit("\tstep_end\n"))),
		"a movement is its label, its steps, and at most one appended terminator, which is last")
	var stepW, termW *writeSite
	ws := c.sitesOf(fn)
	for i := range ws {
		if ws[i].isFmt && ws[i].format == "\t%s\n" && len(ws[i].argT) == 1 {
			stepW = &ws[i]
		}
		if ws[i].format == "\tstep_end\n" {
			termW = &ws[i]
		}
	}
	if stepW == nil || termW == nil {
		c.Bad("movement/writes", c.W.FuncPos(fn), "cannot find the step write and the terminator write")
		return
	}
	step := stepW.argT[0]
	c.Check(strings.HasPrefix(step, "$1.MovementCommands[phi(") && strings.HasSuffix(step, "+1].Literal"), "movement/steps-in-order", c.W.Pos(stepW.call.Pos()), "every step is written in order", "steps written are "+pretty(step)+", expected every MovementCommands[i].Literal in order")
	// returns
	nIn, nOut := 0, 0
	for _, r := range returnsOf(fn) {
		must := c.mustLits(fn, r.Block())
		if hasLit(must, "+("+step+` == "step_end")`) {
			nIn++
			c.Check(instrDominates(stepW.call.(ssa.Instruction), r), "movement/stop-after-written-terminator", c.W.Pos(r.Pos()), "emission stops right after a step equal to the terminator was written", "the early return is not preceded by the write of the step")
		} else {
			nOut++
			c.Check(instrDominates(termW.call.(ssa.Instruction), r) && !isInLoopRegion(termW.call.Block()), "movement/terminator-after-loop", c.W.Pos(r.Pos()), "the terminator is written once after the steps", "the normal return is not preceded by exactly one terminator write after the loop")
		}
	}
	c.Check(nIn == 1 && nOut == 1, "movement/exits", c.W.FuncPos(fn), "two exits: after a written step_end, or after appending one", fmt.Sprintf("found %d early and %d normal returns, expected 1 and 1", nIn, nOut))
	// nothing is written after the terminator
	_, after := existsPath(pathQuery{from: after(termW.call.(ssa.Instruction)), target: func(in ssa.Instruction) bool {
		ci, ok := in.(ssa.CallInstruction)
		return ok && strings.HasPrefix(calleeName(ci), "(*strings.Builder).Write")
	}})
	c.Check(!after, "movement/nothing-after-terminator", c.W.Pos(termW.call.Pos()), "nothing follows the terminator", "something is written after the terminator")
}

func c14c(c *Ctx) {
	fn := c.Fn("emitter.Emitter.emitMartStatement")
	if fn == nil {
		return
	}
	c.checkShape(fn, "mart/output-shape", gSeq(gLit("\t.align 2\n"), gMark(), gName(), gStar(gSeq(gMark(), gLit("\t.2byte %s\n"))), gLit("\t.2byte ITEM_NONE\n")),
		"a mart is '.align 2', its label, its items, and exactly one ITEM_NONE, which is last")
	ws := c.sitesOf(fn)
	if len(ws) == 0 {
		c.Bad("mart/writes", c.W.FuncPos(fn), "no writes")
		return
	}
	c.Check(ws[0].konst && ws[0].format == "\t.align 2\n" && instrDominatesAll(ws[0].call.(ssa.Instruction), ws[1:]), "mart/align-first", c.W.Pos(ws[0].call.Pos()), "'.align 2' is written first", "'.align 2' is not the first thing written")
	var itemW, termW *writeSite
	for i := range ws {
		if ws[i].isFmt && ws[i].format == "\t.2byte %s\n" && len(ws[i].argT) == 1 {
			itemW = &ws[i]
		}
		if ws[i].format == "\t.2byte ITEM_NONE\n" {
			termW = &ws[i]
		}
	}
	if itemW == nil || termW == nil {
		c.Bad("mart/item-and-terminator", c.W.FuncPos(fn), "cannot find the item write and the ITEM_NONE terminator write")
		return
	}
	item := itemW.argT[0]
	inOrder := strings.HasPrefix(item, "$1.Items[phi(") && strings.HasSuffix(item, "+1]")
	if !inOrder && itemW.via == nil && len(itemW.args) == 1 && strings.HasPrefix(item, "$1.Items[") {
		// an explicit counter: from 0, plus one per iteration
		if idx := elemIndex(itemW.args[0]); idx != nil {
			inOrder = ascendingFromZero(idx)
		}
	}
	c.Check(inOrder, "mart/items-in-order", c.W.Pos(itemW.call.Pos()), "items are written in order", "item written is "+pretty(item)+", expected Items[i] over the range")
	must := siteMust(*itemW)
	c.Check(hasLit(must, "-("+item+` == "ITEM_NONE")`), "mart/stop-tested-on-written-value", c.W.Pos(itemW.call.Pos()), "an item is written only after the very value to be written was tested not to be ITEM_NONE", "the ITEM_NONE test guarding the write is not made on the value that is written ("+pretty(item)+"): a terminator spelled through a constant would be missed; guards: "+fmt.Sprint(must))
	// the loop exits (break) under +(item == ITEM_NONE): terminator reachable, item write not
	c.Check(!isInLoopRegion(termW.call.Block()) && termW.cond.String() != "" && dnfEquiv(dropAtoms(termW.cond, func(a string) bool { return true }), mkDNF([]string{})), "mart/one-terminator", c.W.Pos(termW.call.Pos()), "one terminator after the loop, unconditionally", "the ITEM_NONE terminator is not written exactly once, unconditionally, after the loop")
	_, again := existsPath(pathQuery{from: after(termW.call.(ssa.Instruction)), target: func(in ssa.Instruction) bool {
		ci, ok := in.(ssa.CallInstruction)
		return ok && strings.HasPrefix(calleeName(ci), "(*strings.Builder).Write")
	}})
	c.Check(!again, "mart/nothing-after-terminator", c.W.Pos(termW.call.Pos()), "nothing follows the terminator", "something is written after the terminator")
	// marker token of the same index
	tel := c.Fn("emitter.tryEmitLineMarker")
	okTok := false
	if tel != nil {
		for _, call := range callsToIn(fn, tel) {
			t := c.term(fn, call.Common().Args[1])
			idx := strings.TrimSuffix(strings.TrimPrefix(item, "$1.Items["), "]")
			if t == "$1.TokenItems["+idx+"]" && call.Block() == itemW.call.Block() {
				okTok = true
			}
		}
	}
	c.Check(okTok, "mart/token-of-same-item", c.W.Pos(itemW.call.Pos()), "the marker of an item uses the token at the same index", "the line marker of an item does not use TokenItems at the item's own index")
}

func instrDominatesAll(a ssa.Instruction, ws []writeSite) bool {
	for _, w := range ws {
		if !instrDominates(a, w.call.(ssa.Instruction)) {
			return false
		}
	}
	return true
}

func c14d(c *Ctx) {
	// the list that is emitted is the list that was parsed: every item token yields its item
	// (Items and TokenItems stay parallel; a repeated or "empty" item is still an item)
	if fn := c.Fn("parser.Parser.parseMartStatement"); fn != nil {
		n := 0
		for _, st := range storesToField(fn, "ast", "MartStatement", "Items") {
			if loopHeaders(fn)[st.Block()] == nil {
				continue
			}
			n++
			w, skip := loopSkip(fn, st)
			c.Check(!skip, "parseMartStatement/every-item-kept", c.W.Pos(st.Pos()), "every item token yields an item", "an item token can be passed over without an item being added (an iteration can reach "+c.nearPos(w)+" without the append): the mart would lack items that were written, and Items / TokenItems would no longer be parallel")
		}
		// (when the items are built without a loop in this function — e.g. by a helper — the
		// clause does not apply; C13.a checks the element shape)
		_ = n
	}
	// the list the list parser returns is the list that is kept: the thin layers between the list
	// parsers and the statement / the hoisting record hand it on as it is
	okOrigin := func(fn *ssa.Function, v ssa.Value, parserName string) bool {
		seen := map[ssa.Value]bool{}
		var ok func(v ssa.Value) bool
		ok = func(v ssa.Value) bool {
			if seen[v] {
				return true
			}
			seen[v] = true
			switch x := v.(type) {
			case *ssa.Extract:
				call, isCall := x.Tuple.(*ssa.Call)
				return isCall && x.Index == 0 && callee(call) != nil && callee(call).Name() == parserName
			case *ssa.Phi:
				for _, e := range x.Edges {
					if !ok(e) {
						return false
					}
				}
				return true
			case *ssa.Const:
				return x.IsNil()
			case *ssa.Slice:
				// the empty literal the field starts with
				a, isA := x.X.(*ssa.Alloc)
				if !isA {
					return false
				}
				arr, isArr := a.Type().Underlying().(*types.Pointer).Elem().Underlying().(*types.Array)
				return isArr && arr.Len() == 0
			}
			return false
		}
		return ok(v)
	}
	if fn := c.Fn("parser.Parser.parseMovesOperator"); fn != nil {
		n := 0
		for _, ret := range returnsOf(fn) {
			if len(ret.Results) != 2 {
				continue
			}
			if k, isC := ret.Results[0].(*ssa.Const); isC && k.IsNil() {
				continue // an error return hands on no list
			}
			n++
			c.Check(okOrigin(fn, ret.Results[0], "parseMovementValue"), fmt.Sprintf("parseMovesOperator/list-handed-on-unchanged#%d", n), c.W.Pos(ret.Pos()), "moves() hands on the list parseMovementValue returned", "moves() returns "+pretty(c.term(fn, ret.Results[0]))+" instead of the list parseMovementValue returned: steps are added, dropped or rearranged between parsing and hoisting")
		}
		c.Check(n > 0, "parseMovesOperator/list-handed-on-unchanged", c.W.FuncPos(fn), "moves() has a successful return", "no successful return of parseMovesOperator found")
	}
	for _, w := range []struct{ fn, typ, field, parser string }{
		{"parser.Parser.parseMovementStatement", "MovementStatement", "MovementCommands", "parseMovementValue"},
		{"parser.Parser.parseMartStatement", "MartStatement", "TokenItems", "parseMartValue"},
	} {
		fn := c.Fn(w.fn)
		if fn == nil {
			continue
		}
		n, direct := 0, 0
		for _, unit := range c.unitOf(fn) {
			for _, st := range storesToField(unit.fn, "ast", w.typ, w.field) {
				n++
				okV := okOrigin(unit.fn, st.Val, w.parser)
				if _, isExt := st.Val.(*ssa.Extract); isExt && okV {
					direct++
				}
				c.Check(okV, fmt.Sprintf("%s/%s-is-the-parsed-list#%d", fn.Name(), w.field, n), c.W.Pos(st.Pos()), w.typ+"."+w.field+" is the list "+w.parser+" returned (or the empty list it starts with)", w.typ+"."+w.field+" is set to "+pretty(c.term(unit.fn, st.Val))+" instead of the list "+w.parser+" returned")
			}
		}
		c.Check(direct > 0, fmt.Sprintf("%s/%s-is-the-parsed-list", fn.Name(), w.field), c.W.FuncPos(fn), "the parsed list is stored", "no store of "+w.parser+"'s result into "+w.typ+"."+w.field+" found")
	}
	nt := c.Fn("parser.Parser.nextToken")
	for _, name := range []string{"parser.parseMartValue", "parser.parseMovementValue"} {
		fn := c.Fn(name)
		if fn == nil || nt == nil {
			continue
		}
		// loop header: the block with the accumulator phi
		var acc *ssa.Phi
		instrs(fn, func(in ssa.Instruction) {
			if p, ok := in.(*ssa.Phi); ok && isLoopHeader(p.Block()) && acc == nil {
				if sl, ok := p.Type().Underlying().(*types.Slice); ok && typeIs(sl.Elem(), "token", "Token") {
					acc = p
				}
			}
		})
		if acc == nil {
			c.Bad(fn.Name()+"/loop", c.W.FuncPos(fn), "cannot find the list loop")
			continue
		}
		head := acc.Block()
		isAdvance := func(in ssa.Instruction) bool {
			ci, ok := in.(ssa.CallInstruction)
			if !ok {
				return false
			}
			if callee(ci) == nt {
				return true
			}
			// nested poryswitch list advances (it consumes at least the keyword)
			return callee(ci) != nil && callee(ci).Name() == "parsePoryswitchListStatement"
		}
		first := head.Instrs[0]
		_, stuck := existsPath(pathQuery{from: point{head, len(head.Instrs) - 1}, avoid: isAdvance, edgeOK: notErrorEdge, target: func(in ssa.Instruction) bool { return in == first }})
		c.Check(!stuck, fn.Name()+"/every-iteration-advances", c.W.Pos(acc.Pos()), "every iteration consumes at least one token", "an iteration can return to the loop head without consuming a token")
		// IDENT arm appends the current token
		okIdent := false
		instrs(fn, func(in ssa.Instruction) {
			ap, ok := in.(*ssa.Call)
			if !ok || calleeName(ap) != "builtin:append" {
				return
			}
			es := varargElems(ap.Call.Args[1])
			if len(es) == 1 && strings.HasPrefix(c.term(fn, es[0]), "$0.curToken") && !strings.Contains(c.term(fn, es[0]), ".") == false {
				for _, l := range c.mustLits(fn, ap.Block()) {
					if strings.HasPrefix(l, "+($0.curToken") && strings.HasSuffix(l, `.Type == "IDENT")`) {
						okIdent = true
					}
				}
			}
		})
		// ... once: from one append of a token read from the window no other such append is reached
		// before the window has moved on (the repetition loop of `step * n` is C14.a's business)
		var winAppends []*ssa.Call
		instrs(fn, func(in ssa.Instruction) {
			ap, ok := in.(*ssa.Call)
			if !ok || calleeName(ap) != "builtin:append" || len(ap.Call.Args) < 2 || loopHeaders(fn)[ap.Block()] != head {
				return
			}
			es := varargElems(ap.Call.Args[1])
			if len(es) == 1 && strings.HasPrefix(c.term(fn, es[0]), "$0.curToken") {
				winAppends = append(winAppends, ap)
			}
		})
		isWinAppend := func(in ssa.Instruction) bool {
			for _, a := range winAppends {
				if in == ssa.Instruction(a) {
					return true
				}
			}
			return false
		}
		for i, ap := range winAppends {
			_, twice := existsPath(pathQuery{from: after(ap), avoid: isAdvance, target: isWinAppend})
			c.Check(!twice, fmt.Sprintf("%s/appended-once#%d", fn.Name(), i), c.W.Pos(ap.Pos()), "a token is appended once before the next one is read", "after a token was appended another append of the current token is reachable without the parser having advanced: the item would be listed twice")
		}
		c.Check(okIdent, fn.Name()+"/ident-appended", c.W.Pos(acc.Pos()), "an identifier token is appended to the list", "identifier tokens are not appended to the list")
		// ... every one of them: the list comes round unchanged only when the token was a comma
		// (an identifier — or a nested poryswitch — that is consumed without being listed is lost)
		{
			body := loopBody(head)
			bad := ""
			var furtherComma []string
			seenP := map[*ssa.Phi]bool{}
			var walk func(p *ssa.Phi, top bool)
			walk = func(p *ssa.Phi, top bool) {
				if seenP[p] {
					return
				}
				seenP[p] = true
				for i, e := range p.Edges {
					pred := p.Block().Preds[i]
					if top && !head.Dominates(pred) {
						continue
					}
					if q, isPhi := e.(*ssa.Phi); isPhi && q != acc && body[q.Block()] {
						if isLoopHeader(q.Block()) {
							continue // the expansion loop of `step * n` (n >= 1: C14.a)
						}
						walk(q, false)
						continue
					}
					if e != ssa.Value(acc) {
						continue
					}
					comma := false
					for _, l := range c.mustLits(fn, pred) {
						if strings.HasPrefix(l, "+($0.curToken") && strings.HasSuffix(l, `.Type == ",")`) {
							comma = true
						}
					}
					if !comma {
						bad = c.nearPos(pred.Instrs[len(pred.Instrs)-1])
					}
					// ... for every comma: the arm is chosen by the kind of the token alone (a comma
					// that is skipped only in moves(), say, is an error in a movement statement)
					if comma {
						base := map[string]bool{}
						for _, sc := range head.Succs {
							if body[sc] {
								for _, l := range c.mustLits(fn, sc) {
									base[verRe.ReplaceAllString(l, "")] = true
								}
							}
						}
						for _, l := range c.mustLits(fn, pred) {
							l = verRe.ReplaceAllString(l, "")
							if base[l] || tokenTypeLitRe.MatchString(l) || errLitRe.MatchString(l) {
								continue
							}
							furtherComma = append(furtherComma, l)
						}
					}
				}
			}
			walk(acc, true)
			c.Check(len(furtherComma) == 0, fn.Name()+"/every-comma-skipped", c.W.Pos(acc.Pos()), "a comma is skipped whatever else holds", fmt.Sprintf("a comma is skipped only under the further condition(s) %v: elsewhere it is an error, although commas between list items are allowed", furtherComma))
			// ... and a turn only ever adds at the end of what was gathered so far
			{
				seenG := map[ssa.Value]bool{}
				var grows func(v ssa.Value) bool
				grows = func(v ssa.Value) bool {
					if v == ssa.Value(acc) || seenG[v] {
						return true
					}
					seenG[v] = true
					switch x := v.(type) {
					case *ssa.Call:
						return calleeName(x) == "builtin:append" && grows(x.Call.Args[0])
					case *ssa.Phi:
						if !body[x.Block()] {
							return false
						}
						for _, e := range x.Edges {
							if !grows(e) {
								return false
							}
						}
						return true
					}
					return false
				}
				for i, e := range acc.Edges {
					if !head.Dominates(acc.Block().Preds[i]) {
						continue
					}
					c.Check(grows(e), fmt.Sprintf("%s/list-grows-at-the-end#%d", fn.Name(), i), c.W.Pos(acc.Pos()), "what a turn hands to the next is the list so far with items added behind it", "a turn of the list loop hands on "+pretty(c.term(fn, e))+", which is not the list gathered so far with items appended: earlier items are dropped or the new ones are put in front")
				}
			}
			c.Check(bad == "", fn.Name()+"/every-item-listed", c.W.Pos(acc.Pos()), "a turn of the list loop leaves the list unchanged only for a comma", "a turn of the list loop can consume a token that is not a comma and leave the list unchanged (through "+bad+"): an item that was written would be missing")
		}
	}
}

// c12e: the item loops of the case-content parsers (statements, movement steps, mart
// items) repeat only under their allowMultiple parameter (brace form); in the colon form the
// loop is left after the first item, so the next case label is not swallowed.
func c12e(c *Ctx) {
	for _, name := range []string{"parser.Parser.parsePoryswitchStatements", "parser.parseMovementValue", "parser.parseMartValue"} {
		fn := c.Fn(name)
		if fn == nil {
			continue
		}
		bp := -1
		for i, p := range fn.Params {
			if b, ok := p.Type().Underlying().(*types.Basic); ok && b.Kind() == types.Bool {
				bp = i
			}
		}
		var head *ssa.BasicBlock
		for _, b := range fn.Blocks {
			if isLoopHeader(b) && head == nil {
				head = b
			}
		}
		if bp < 0 || head == nil {
			c.Bad(fn.Name()+"/shape", c.W.FuncPos(fn), "cannot find the allowMultiple parameter and the item loop")
			continue
		}
		lit := fmt.Sprintf("+$%d", bp)
		ok := true
		n := 0
		for _, p := range head.Preds {
			if !head.Dominates(p) {
				continue
			}
			n++
			if !hasLit(c.edgeMust(fn, p, head), lit) {
				ok = false
			}
		}
		// a list parser that is told which token closes its list looks for an item only while
		// the current token is not that token (an empty ':' case has no item to look for)
		for i, p := range fn.Params {
			if !typeIs(p.Type(), "token", "Type") {
				continue
			}
			re := regexpMust(fmt.Sprintf(`^-\(\$0\.curToken(![A-Za-z0-9@_]+)?\.Type == \$%d\)$`, i))
			okEnd := true
			for b := range loopBody(head) {
				if b == head {
					continue
				}
				has := false
				for _, l := range c.mustLits(fn, b) {
					if re.MatchString(l) {
						has = true
					}
				}
				okEnd = okEnd && has
			}
			c.Check(okEnd, fn.Name()+"/item-only-before-closing-token", c.W.Pos(firstPos(head)), "every iteration starts with the current token tested against the list's closing token", "an item is looked for although the current token may be the list's closing token: an empty case body (which may not even be the selected one) would be a syntax error or swallow the closing token")
		}
		c.Check(ok && n > 0, fn.Name()+"/repeats-only-if-multiple", c.W.Pos(firstPos(head)), "the loop goes round again only when multiple items are allowed", "the item loop can repeat although only a single item is allowed (colon-form case): the following case label would be parsed as content of this case")
	}
	c12eCallers(c)
}

// c12eCallers: what the item parsers are told. "Multiple items allowed" is the brace form of a
// case: the flag handed to parsePoryswitchStatements / parseMovementValue / parseMartValue — and
// to a list-value parser passed as a function value — is (a) the test "the current token is '{'",
// (b) the caller's own flag handed on (adapters), or (c) the constant true where the caller has no
// such flag (a top-level movement / mart / block, which is brace-delimited by syntax).
func c12eCallers(c *Ctx) {
	targets := map[*ssa.Function]bool{}
	for _, name := range []string{"parser.Parser.parsePoryswitchStatements", "parser.parseMovementValue", "parser.parseMartValue"} {
		if f := c.Fn(name); f != nil {
			targets[f] = true
		}
	}
	isBool := func(t types.Type) bool {
		b, ok := t.Underlying().(*types.Basic)
		return ok && b.Kind() == types.Bool
	}
	n := 0
	for _, fn := range c.W.FuncsOf("parser") {
		if isTestFunc(c.W, fn) {
			continue
		}
		ownFlag := false
		for _, p := range fn.Params {
			if isBool(p.Type()) {
				ownFlag = true
			}
		}
		// a function that tells the two case forms apart itself has the answer at hand: it may not
		// pass a constant
		instrs(fn, func(in ssa.Instruction) {
			if bo, ok := in.(*ssa.BinOp); ok && bo.Op == token.EQL {
				for _, v := range []ssa.Value{bo.X, bo.Y} {
					if s, ok := strConst(v); ok && s == "{" {
						ownFlag = true
					}
				}
			}
		})
		for _, ci := range callsIn(fn) {
			com := ci.Common()
			g := callee(ci)
			isTarget := g != nil && targets[g]
			if g == nil && !com.IsInvoke() {
				// a call through a function value of the list-value-parser shape: (p *Parser, flag bool)
				if sig, ok := com.Value.Type().Underlying().(*types.Signature); ok && sig.Params().Len() == 2 && typeIs(sig.Params().At(0).Type(), "parser", "Parser") && isBool(sig.Params().At(1).Type()) {
					isTarget = true
				}
			}
			if !isTarget {
				continue
			}
			var flag ssa.Value
			for _, a := range com.Args {
				if isBool(a.Type()) {
					flag = a
				}
			}
			if flag == nil {
				continue
			}
			n++
			kind := ""
			switch x := flag.(type) {
			case *ssa.Parameter:
				kind = "handed on"
			case *ssa.Const:
				if x.Value != nil && x.Value.String() == "true" && !ownFlag {
					kind = "always multiple (no flag of its own)"
				}
			case *ssa.BinOp:
				if x.Op == token.EQL {
					for _, pair := range [][2]ssa.Value{{x.X, x.Y}, {x.Y, x.X}} {
						if s, ok := strConst(pair[1]); ok && s == "{" && strings.HasSuffix(stripLoopTags(c.term(fn, pair[0])), "Token.Type") {
							kind = "brace form"
						}
					}
				}
			case *ssa.FreeVar:
				kind = "handed on"
			}
			c.Check(kind != "", fmt.Sprintf("multiple-flag/%s@%d", c.W.FuncKey(fn), c.T(fn).callOrd[ci]), c.W.Pos(ci.Pos()), "the item parser is told 'multiple' exactly for the brace form ("+kind+")", "the 'multiple items allowed' flag passed here is "+pretty(c.term(fn, flag))+": it must be the test for the brace form of the case (or the caller's own flag): a colon-form case would swallow the following case label, or a brace-form case would stop after one item")
		}
	}
	c.Check(n >= 5, "multiple-flag/sites", "-", fmt.Sprintf("%d calls of item parsers examined", n), fmt.Sprintf("expected at least 5 calls that pass the multiple-items flag, found %d", n))
}

// c12f: the selection protocol (C12.a) tells "case present" from "case absent" by the
// comma-ok flag of the case maps. That is only right if every case that was parsed is in the
// map: in each of the three case parsers, every map that is returned is updated, under the
// case's own name, on every successful path from the parse of the case content to the next
// iteration — never only for some contents (an explicitly empty case is still a case).
// c12fSiblings: the three case parsers (statements, text, lists) accept the same case labels: a
// case is recorded under the same condition on its label token in all three. (A label kind one
// of them turns away — numbers, say — would make the same poryswitch legal around statements
// and an error around a text.)
func c12fSiblings(c *Ctx) {
	got := map[string]string{}
	var names []string
	for _, name := range []string{"parser.Parser.parsePoryswitchStatementCases", "parser.Parser.parsePoryswitchTextCases", "parser.Parser.parsePoryswitchListCases"} {
		fn := c.Fn(name)
		if fn == nil {
			continue
		}
		var up *ssa.MapUpdate
		instrs(fn, func(in ssa.Instruction) {
			if u, ok := in.(*ssa.MapUpdate); ok && up == nil {
				up = u
			}
		})
		if up == nil {
			continue
		}
		d := c.PC(fn).At(up.Block())
		// what the record depends on, as far as the label token goes: keep the atoms on token
		// types, drop versions and the error tests
		lits := map[string]bool{}
		for _, cj := range d.cs {
			for _, l := range cj {
				l = verRe.ReplaceAllString(l, "")
				if strings.Contains(l, `.Type == "IDENT")`) || strings.Contains(l, `.Type == "INT")`) || strings.Contains(l, `.Type == "STRING")`) || strings.Contains(l, `.Type == "_")`) {
					lits[l] = true
				}
			}
		}
		var ls []string
		for l := range lits {
			ls = append(ls, l)
		}
		sortStrings(ls)
		got[fn.Name()] = strings.Join(ls, " & ")
		names = append(names, fn.Name())
	}
	if len(names) < 3 {
		c.Bad("case-labels/siblings-agree", "-", "the three poryswitch case parsers were not all found")
		return
	}
	same := got[names[0]] == got[names[1]] && got[names[1]] == got[names[2]] && got[names[0]] != ""
	// ... and what they accept is what is documented: a name or a number (`-s LEVEL=2` with cases
	// `1:` `2 {…}`)
	c.Check(strings.Contains(got[names[0]], `.Type == "INT")`) && strings.Contains(got[names[0]], `.Type == "IDENT")`), "case-labels/names-and-numbers", c.W.FuncPos(c.Fn("parser.Parser.parsePoryswitchTextCases")), "a case label is an identifier or a number", "a case is recorded under ["+got[names[0]]+"]: identifiers and numbers must both be accepted as case labels")
	c.Check(same, "case-labels/siblings-agree", c.W.FuncPos(c.Fn("parser.Parser.parsePoryswitchTextCases")), "statement, text and list cases accept the same labels ("+got[names[0]]+")", fmt.Sprintf("the three poryswitch case parsers accept different case labels: %s [%s], %s [%s], %s [%s]", names[0], got[names[0]], names[1], got[names[1]], names[2], got[names[2]]))
}

func c12f(c *Ctx) {
	c12fSiblings(c)
	for _, name := range []string{"parser.Parser.parsePoryswitchStatementCases", "parser.Parser.parsePoryswitchTextCases", "parser.Parser.parsePoryswitchListCases"} {
		fn := c.Fn(name)
		if fn == nil {
			continue
		}
		var maps []*ssa.MakeMap
		instrs(fn, func(in ssa.Instruction) {
			if m, ok := in.(*ssa.MakeMap); ok {
				for _, r := range returnsOf(fn) {
					for _, res := range r.Results {
						if res == ssa.Value(m) {
							maps = append(maps, m)
							return
						}
					}
				}
			}
		})
		if len(maps) == 0 {
			c.Bad(fn.Name()+"/case-maps", c.W.FuncPos(fn), "no case map is built and returned")
			continue
		}
		keyT := ""
		for mi, m := range maps {
			var ups []*ssa.MapUpdate
			instrs(fn, func(in ssa.Instruction) {
				if u, ok := in.(*ssa.MapUpdate); ok && u.Map == ssa.Value(m) {
					ups = append(ups, u)
				}
			})
			key := fmt.Sprintf("%s/map#%d", fn.Name(), mi)
			if len(ups) == 0 {
				c.Bad(key+"/recorded", c.W.Pos(m.Pos()), "a returned case map is never filled")
				continue
			}
			isUp := func(in ssa.Instruction) bool {
				u, ok := in.(*ssa.MapUpdate)
				return ok && u.Map == ssa.Value(m)
			}
			for ui, u := range ups {
				kt := c.term(fn, u.Key)
				if keyT == "" {
					keyT = kt
				}
				c.Check(kt == keyT && strings.HasSuffix(kt, ".Literal"), fmt.Sprintf("%s/update#%d/key", key, ui), c.W.Pos(u.Pos()), "recorded under the case's own name", "a case is recorded under "+pretty(kt)+"; expected the literal of the case token ("+pretty(keyT)+")")
				// the parse whose result is stored
				var parse ssa.Instruction
				v := u.Value
				if ex, ok := v.(*ssa.Extract); ok {
					v = ex.Tuple
				}
				if call, ok := v.(*ssa.Call); ok {
					parse = call
				}
				// a record built from the results of one parse
				if ld, ok := v.(*ssa.UnOp); ok && parse == nil {
					if a, ok := ld.X.(*ssa.Alloc); ok && a.Comment == "complit" {
						var one *ssa.Call
						okAll := true
						n := 0
						for _, ar := range *a.Referrers() {
							fa, ok := ar.(*ssa.FieldAddr)
							if !ok {
								continue
							}
							for _, fr := range *fa.Referrers() {
								st, ok := fr.(*ssa.Store)
								if !ok || st.Addr != ssa.Value(fa) {
									continue
								}
								n++
								fv := st.Val
								if ex, ok := fv.(*ssa.Extract); ok {
									fv = ex.Tuple
								}
								call, isCall := fv.(*ssa.Call)
								if !isCall || (one != nil && one != call) {
									okAll = false
								}
								one = call
							}
						}
						if okAll && n > 0 && one != nil {
							parse = one
						}
					}
				}
				if parse == nil {
					c.Bad(fmt.Sprintf("%s/update#%d/value", key, ui), c.W.Pos(u.Pos()), "the recorded value is not the result of the case content parse")
					continue
				}
				head := loopHeaders(fn)[parse.Block()]
				_, skip := existsPath(pathQuery{from: after(parse), avoid: isUp, edgeOK: notErrorEdge, target: func(in ssa.Instruction) bool {
					if r, ok := in.(*ssa.Return); ok {
						return isSuccessReturn(r)
					}
					return head != nil && in.Block() == head && in == head.Instrs[0]
				}})
				c.Check(!skip, fmt.Sprintf("%s/update#%d/unconditional", key, ui), c.W.Pos(u.Pos()), "every successfully parsed case is recorded before the next case is read", "after the case content was parsed, the next iteration (or the return) can be reached without the case being recorded: an explicitly empty or otherwise special case would look absent and the '_' case would be used instead")
			}
		}
	}
}

// c13e: a constant may stand for several tokens, so the number of *source* tokens of a value
// differs between a program and the same program with its constants written out. Where
// substituted values are accumulated in a list, the only property of the list's length that
// is the same in both programs is emptiness (a constant never expands to nothing:
// parseConstant rejects an empty value). Any other test on the length (`len(parts) > 1`)
// makes the output depend on whether a constant was used.
func c13e(c *Ctx) {
	try := c.Fn("parser.Parser.tryReplaceWithConstant")
	if try == nil {
		return
	}
	// grouping: a gathered value is wrapped in "( ... )" exactly when the substituted text has more
	// than one token (contains a space) — decided on the text, not on what the source looked like
	{
		nGroup := 0
		for _, fn := range c.W.FuncsOf("parser") {
			if isTestFunc(c.W, fn) {
				continue
			}
			instrs(fn, func(in ssa.Instruction) {
				// the wrapping itself, wherever its result goes (stored at once, or kept in a local first)
				bo, ok := in.(*ssa.BinOp)
				if !ok || bo.Op != token.ADD {
					return
				}
				st := bo
				// ("( " + X) + " )"
				inner, ok := bo.X.(*ssa.BinOp)
				closeP, isC := strConst(bo.Y)
				if !ok || !isC || closeP != " )" || inner.Op != token.ADD {
					return
				}
				if openP, isC := strConst(inner.X); !isC || openP != "( " {
					return
				}
				x := inner.Y
				nGroup++
				xt := c.term(fn, x)
				key := fmt.Sprintf("%s/grouping#%d", c.W.FuncKey(fn), nGroup)
				var defBlock *ssa.BasicBlock
				if xi, ok := x.(ssa.Instruction); ok {
					defBlock = xi.Block()
				}
				if ld, ok := x.(*ssa.UnOp); ok {
					// the value re-read from the field it was just stored in
					for _, st2 := range storesToField(fn, "ast", "OperatorExpression", "ComparisonValue") {
						if instrDominates(st2, ld) {
							defBlock = st2.Block()
							xt = c.term(fn, st2.Val)
						}
					}
				}
				if defBlock == nil {
					c.Bad(key, c.W.Pos(st.Pos()), "cannot find where the grouped value "+pretty(xt)+" is computed")
					return
				}
				base := map[string]bool{}
				for _, l := range c.mustLits(fn, defBlock) {
					base[l] = true
				}
				var extra []string
				for _, l := range c.mustLits(fn, st.Block()) {
					if !base[l] {
						extra = append(extra, l)
					}
				}
				okG := len(extra) == 1 && strings.HasPrefix(extra[0], "+strings.Contains(") && strings.HasSuffix(extra[0], `," ")`)
				if okG {
					// ... at the very text that is wrapped
					arg := strings.TrimSuffix(strings.TrimPrefix(extra[0], "+strings.Contains("), `," ")`)
					if arg != xt && arg != c.term(fn, x) {
						okG = false
					}
				}
				c.Check(okG, key, c.W.Pos(st.Pos()), "grouped exactly when the substituted text contains a space", "the value "+pretty(xt)+" is wrapped in parentheses under "+fmt.Sprint(prettyAll(extra))+", expected exactly when the substituted text contains a space: a constant standing for several tokens must be grouped like the same tokens written out")
			})
		}
		c.Check(nGroup >= 1, "grouping/sites", "-", fmt.Sprintf("%d grouping sites", nGroup), "no site that groups a gathered value in parentheses was found")
	}
	nAcc, nTests := 0, 0
	for _, fn := range c.W.FuncsOf("parser") {
		if isTestFunc(c.W, fn) || fn == try {
			continue
		}
		// accumulators: []string values that receive a substituted element
		acc := map[ssa.Value]bool{}
		for _, ci := range callsIn(fn) {
			call, ok := ci.(*ssa.Call)
			if !ok || calleeName(call) != "builtin:append" {
				continue
			}
			sl, ok := call.Type().Underlying().(*types.Slice)
			if !ok || !types.Identical(sl.Elem(), types.Typ[types.String]) {
				continue
			}
			for _, e := range appendElems(call) {
				if ec, ok := e.(*ssa.Call); ok && callee(ec) == try {
					acc[call] = true
					var leaves []ssa.Value
					phiLeaves(call.Call.Args[0], map[ssa.Value]bool{}, &leaves)
					for _, lf := range leaves {
						acc[lf] = true
					}
					acc[call.Call.Args[0]] = true
				}
			}
		}
		if len(acc) == 0 {
			continue
		}
		nAcc++
		derives := func(v ssa.Value) bool {
			var leaves []ssa.Value
			phiLeaves(v, map[ssa.Value]bool{}, &leaves)
			for _, lf := range leaves {
				if acc[lf] {
					return true
				}
				if ap, ok := lf.(*ssa.Call); ok && calleeName(ap) == "builtin:append" && acc[ap.Call.Args[0]] {
					return true
				}
			}
			return acc[v]
		}
		instrs(fn, func(in ssa.Instruction) {
			bo, ok := in.(*ssa.BinOp)
			if !ok {
				return
			}
			var lenCall *ssa.Call
			var k int64
			var kOK, lenLeft bool
			if lc, ok := bo.X.(*ssa.Call); ok && calleeName(lc) == "builtin:len" {
				lenCall, lenLeft = lc, true
				k, kOK = intConst(bo.Y)
			} else if lc, ok := bo.Y.(*ssa.Call); ok && calleeName(lc) == "builtin:len" {
				lenCall = lc
				k, kOK = intConst(bo.X)
			}
			if lenCall == nil || !derives(lenCall.Call.Args[0]) {
				return
			}
			nTests++
			emptiness := false
			if kOK && k == 0 {
				switch bo.Op {
				case token.EQL, token.NEQ:
					emptiness = true
				case token.GTR:
					emptiness = lenLeft // len > 0
				case token.LSS:
					emptiness = !lenLeft // 0 < len
				}
			}
			c.Check(emptiness, fmt.Sprintf("%s/token-count-test[%s]", c.W.FuncKey(fn), pretty(c.term(fn, bo))), c.W.Pos(bo.Pos()), "only emptiness of the accumulated value is tested", "the number of tokens accumulated from constant-substituted values is compared with "+fmt.Sprint(k)+" ("+bo.Op.String()+"): a constant that stands for several tokens is counted as one, so the program with the constant and the program with its value written out are compiled differently")
		})
	}
	c.Check(nAcc >= 2, "accumulators", "-", fmt.Sprintf("%d functions accumulate substituted tokens in a list; %d tests on such a list's length", nAcc, nTests), "no token accumulators found")
}

// c12g: the cases of a poryswitch inside a movement / moves() / mart list are parsed by a
// value parser handed to parsePoryswitchListStatement. A brace-form case body ends at '}' —
// never at the token that closes the *enclosing* list (')' for moves()). The parser handed
// over must therefore scan up to the constant '}': either its own loop tests '}' or every
// token-type argument it passes on is the constant '}' (not a variable captured from the
// enclosing list parser).
func c12g(c *Ctx) {
	pls := c.Fn("parser.Parser.parsePoryswitchListStatement")
	if pls == nil {
		return
	}
	tokType := c.W.Named("token", "Type")
	n := 0
	for _, fn := range c.W.FuncsOf("parser") {
		if isTestFunc(c.W, fn) {
			continue
		}
		for _, call := range callsToIn(fn, pls) {
			n++
			arg := call.Common().Args[1]
			var g *ssa.Function
			switch x := arg.(type) {
			case *ssa.MakeClosure:
				g, _ = x.Fn.(*ssa.Function)
			case *ssa.Function:
				g = x
			case *ssa.ChangeType:
				if f, ok := x.X.(*ssa.Function); ok {
					g = f
				}
				if mc, ok := x.X.(*ssa.MakeClosure); ok {
					g, _ = mc.Fn.(*ssa.Function)
				}
			}
			key := fmt.Sprintf("%s/case-parser#%d", c.W.FuncKey(fn), n)
			pos := c.W.Pos(call.Pos())
			// a method expression ((*Parser).parseMartValue) or method value is a synthetic wrapper
			// around the method: look through it
			for d := 0; g != nil && g.Synthetic != "" && d < 3; d++ {
				var inner *ssa.Function
				for _, ci := range callsIn(g) {
					if f := callee(ci); f != nil && c.W.InRepo(f) {
						inner = f
					}
				}
				if inner == nil {
					break
				}
				g = inner
			}
			if g == nil {
				c.Unk(key, pos, "cannot resolve the value parser handed to parsePoryswitchListStatement")
				continue
			}
			ok := true
			why := ""
			passes := 0
			instrs(g, func(in ssa.Instruction) {
				ci, isCall := in.(ssa.CallInstruction)
				if !isCall || callee(ci) == nil || !c.W.InRepo(callee(ci)) {
					return
				}
				for _, a := range ci.Common().Args {
					if tokType == nil || !types.Identical(a.Type(), tokType) {
						continue
					}
					passes++
					if s, isC := strConst(a); !isC || s != "}" {
						ok = false
						why = "the case body parser is given the closing token " + pretty(c.term(g, a)) + " (taken from the enclosing list) instead of '}'"
					}
				}
			})
			if passes == 0 {
				// the parser scans itself: its loop must stop at '}'
				stops := false
				for _, b := range g.Blocks {
					if !isLoopHeader(b) {
						continue
					}
					for _, cj := range c.PC(g).At(b).cs {
						_ = cj
					}
					if ifi, isIf := b.Instrs[len(b.Instrs)-1].(*ssa.If); isIf {
						t := c.term(g, ifi.Cond)
						if strings.Contains(t, `.Type == "}")`) || strings.Contains(t, `.Type != "}")`) {
							stops = true
						}
					}
				}
				if !stops {
					ok = false
					why = "the value parser neither scans up to '}' itself nor passes '}' on"
				}
			}
			c.Check(ok, key, pos, "case bodies are parsed up to their own '}'", why+": a brace-form case inside the list would be scanned past its closing brace (or rejected)")
		}
	}
	c.Check(n >= 2, "case-parsers", "-", fmt.Sprintf("%d list poryswitch sites", n), "list poryswitch sites not found")
}

// readsLookahead: the value is read from one of the parser's look-ahead tokens (peekToken,
// peek2Token, ...) and used without the parser having advanced in between — it is the literal of
// a token that is still ahead, not of the one being consumed.
func (c *Ctx) readsLookahead(fn *ssa.Function, v ssa.Value, use ssa.Instruction) bool {
	origV := v
	var load, curLoad ssa.Instruction
	peek := false
	for i := 0; i < 6 && !peek; i++ {
		switch x := v.(type) {
		case *ssa.UnOp:
			if load == nil {
				load = x
			}
			v = x.X
		case *ssa.Field:
			v = x.X
		case *ssa.FieldAddr:
			if typeIs(x.X.Type(), "parser", "Parser") {
				if !strings.HasPrefix(fieldName(x.X.Type(), x.Field), "peek") {
					curLoad = load
					v = nil
					break
				}
				peek = true
			}
			if v != nil {
				v = x.X
			}
		default:
			v = nil
		}
		if v == nil {
			break
		}
	}
	advances := func(in ssa.Instruction) bool {
		ci, ok := in.(ssa.CallInstruction)
		if !ok {
			return false
		}
		g := callee(ci)
		if g == nil || !c.W.InRepo(g) {
			return false
		}
		for _, w := range c.Eff().Writes(g) {
			if w == "parser.Parser.curToken" {
				return true
			}
		}
		return false
	}
	// the current token read earlier and used after the parser has moved on
	// (`operandToken := p.curToken` … nextToken() … operandToken.Literal)
	if !peek && curLoad != nil {
		stale := false
		instrs(fn, func(in ssa.Instruction) {
			if stale || !advances(in) {
				return
			}
			if _, ok1 := existsPath(pathQuery{from: after(curLoad), target: func(x ssa.Instruction) bool { return x == in }}); !ok1 {
				return
			}
			if _, ok2 := existsPath(pathQuery{from: after(in), target: func(x ssa.Instruction) bool { return x == use }, stopAt: func(x ssa.Instruction) bool { return x == curLoad }}); ok2 {
				stale = true
			}
		})
		if stale {
			return true
		}
	}
	// a copy of a token taken earlier and kept in a cell: likewise
	if !peek {
		var base ssa.Value = origV
		for i := 0; i < 4; i++ {
			switch x := base.(type) {
			case *ssa.UnOp:
				base = x.X
				continue
			case *ssa.FieldAddr:
				base = x.X
				continue
			}
			break
		}
		if a, isA := base.(*ssa.Alloc); isA && typeIs(a.Type(), "token", "Token") && a.Referrers() != nil {
			for _, r := range *a.Referrers() {
				st, isSt := r.(*ssa.Store)
				if !isSt || st.Addr != ssa.Value(a) {
					continue
				}
				// on some way from the copy to the use the parser has moved on (and the copy was
				// not taken anew): the literal is that of a token already behind
				stale := false
				instrs(fn, func(in ssa.Instruction) {
					if stale || !advances(in) {
						return
					}
					if _, ok1 := existsPath(pathQuery{from: after(st), target: func(x ssa.Instruction) bool { return x == in }}); !ok1 {
						return
					}
					if _, ok2 := existsPath(pathQuery{from: after(in), target: func(x ssa.Instruction) bool { return x == use }, stopAt: func(x ssa.Instruction) bool { return x == ssa.Instruction(st) }}); ok2 {
						stale = true
					}
				})
				if stale {
					return true
				}
			}
		}
		return false
	}
	if load == nil {
		return false
	}
	advances = func(in ssa.Instruction) bool {
		ci, ok := in.(ssa.CallInstruction)
		if !ok {
			return false
		}
		g := callee(ci)
		if g == nil || !c.W.InRepo(g) {
			return false
		}
		for _, w := range c.Eff().Writes(g) {
			if w == "parser.Parser.curToken" {
				return true
			}
		}
		return false
	}
	_, found := existsPath(pathQuery{from: after(load), target: func(in ssa.Instruction) bool { return in == use }, avoid: advances})
	return found
}
