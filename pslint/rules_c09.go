package main

// C09 — text emission; C10 — commands pass through verbatim; C11 — AutoVar.

import (
	"go/constant"
	"fmt"
	"go/types"
	"strings"

	"golang.org/x/tools/go/ssa"
)

func init() {
	property("C09",
		"Static conformance of text handling: (a) the terminator table is {plain: $, ascii: \\0, braille: $} and the terminator is appended exactly when the text does not already end with it, unknown types unchanged; (b) every text value recorded for hoisting or returned for a text statement is the terminator-formatted content with the very string type that is recorded/returned next to it; (c) the string type travels unchanged into ast.Text and selects the directive (default .string), and in the lexer a word directly followed by a quote is a string-type prefix whatever it spells; (d) the parallel text/type maps of a text poryswitch are read with the same key on every path; (e) one directive per line: emitText ranges over all lines of the value split at the same separator the lexer puts between adjacent literals and format() puts after a break. format() hands back the prefix literal iff a prefix was read (C09.c); every return of formatTextTerminator is one of the three documented ones (C09.a); every line gets its directive (C09.e); string literals are spelled by the source (C19.f); every program text is emitted (C10.f).",
		[]string{"contents of string literals (what the lexer accepts inside quotes) are not decided", "go/ssa lowering is faithful to the source"},
		"C09.a", "C09.b", "C09.c", "C09.d", "C09.e", "C06.b", "C06.c", "C07.c", "C19.c", "C19.f", "C10.f", "C12.f", "C19.b", "C08.e", "C18.m", "C17.f", "C17.h", "C10.e", "C18.d", "C18.n")
	property("C10",
		"Static conformance of command pass-through: (a) every iteration of the argument loop either appends the (constant-substituted) literal of the current token, closes the argument, or takes one inline arm, and then advances by exactly one token; the loop ends at the matching ')' with parenthesis depth counted on '(' / ')', and a non-empty last argument is flushed; (b) a command is rendered as TAB name [SPACE args joined by ', '] NEWLINE from constant formats; (c) statements of a chunk are rendered in order, one render per element; (d) the command name is the token literal, never constant-substituted. Hoisted-argument patching is covered by C06.a/b/c. Emit hands every top-level statement to its emitter and writes the result (C10.f); every non-nil top-level statement is kept (C10.e); the depth counter only counts (C10.a); token literals are source text (C19.f); positions never decide parsing (C16.d). The tree is written by its maker (C10.g): node fields are stored by the function that allocates the node (or a helper it hands the fresh node to), node lists only grow by parsed statements, a sub-tree stored into a node is what a token-consuming parser returned; order-bearing lists are never sorted, cut, overwritten in place or picked through (C08.e); every emitter function returns the read-out of its own builder and writes a computed text once (C10.f).",
		[]string{"go/ssa lowering is faithful to the source"},
		"C10.a", "C10.b", "C10.c", "C10.d", "C10.e", "C06.a", "C06.b", "C06.c", "C12.a", "C13.a", "C15.d", "C01.b", "C08.a", "C18.g", "C01.h", "C19.e", "C10.f", "C19.f", "C16.d", "C13.d", "C08.e", "C10.g", "C19.g", "C18.m", "C17.h", "C01.g", "C19.c", "C19.d", "C01.c", "C01.d", "C14.d", "C18.d", "C18.n")
	property("C11",
		"Static conformance of AutoVar handling: (a) an AutoVar operand is recognised as an identifier configured in autovar_commands, parsed with the ordinary command parser, and its result var is the configured name or the argument at the configured position (bounds-checked), taken verbatim; (b) the parsed command is attached as the preamble of exactly the leaf whose operand is that result var (type VAR), and for switch it is placed immediately before the switch statement; (c) the leaf renders its preamble with the ordinary command renderer exactly once, before the comparison, iff present; each leaf owns one chunk and loops re-enter at the condition's entry chunk (C02.e, C01.e). The command is attached exactly when its result var is the operand (C11.b); the shipped command_config.json keys are the JSON names of the decoded structs (C11.d).",
		[]string{"scheme argument of DESIGN §4 C11"},
		"C11.a", "C11.b", "C11.c", "C02.e", "C02.i", "C06.c", "C10.e", "C01.e", "C02.d", "C01.h", "C11.d", "C10.g", "C18.m", "C10.f", "C18.n", "C18.d", "C05.a", "C19.e")

	register(&Rule{ID: "C09.a", Doc: "terminator table and append-iff-missing", Floor: 5, Run: c09a})
	register(&Rule{ID: "C09.b", Doc: "recorded / returned text is terminator-formatted with its own string type", Floor: 6, Run: c09b})
	register(&Rule{ID: "C09.c", Doc: "string type carried to ast.Text and to the directive", Floor: 4, Run: c09c})
	register(&Rule{ID: "C09.d", Doc: "text poryswitch: text and type maps read with the same key sequence", Floor: 1, Run: c09d})
	register(&Rule{ID: "C09.e", Doc: "one directive per line, full range, agreeing line separators", Floor: 4, Run: c09e})
	register(&Rule{ID: "C10.a", Doc: "argument loop: one action and one advance per token; depth-counted exit; final flush", Floor: 8, Run: c10a})
	register(&Rule{ID: "C10.b", Doc: "command rendering from constant formats", Floor: 34, Run: c10b})
	register(&Rule{ID: "C10.c", Doc: "chunk statements rendered in order, once each", Floor: 2, Run: c10c})
	register(&Rule{ID: "C10.d", Doc: "command name is the token literal (no constant substitution)", Floor: 1, Run: c10d})
	register(&Rule{ID: "C10.e", Doc: "block parsers keep every statement: each iteration parses one statement and appends its result", Floor: 6, Run: c10e})
	register(&Rule{ID: "C11.a", Doc: "AutoVar recognition and result var", Floor: 5, Run: c11a})
	register(&Rule{ID: "C11.b", Doc: "preamble attached to the leaf / placed before the switch", Floor: 4, Run: c11b})
	register(&Rule{ID: "C11.c", Doc: "preamble rendered once, first, iff present", Floor: 2, Run: c11c})
}

// globalMapLiteral reads the key/value constants stored into a package-level map by init.
func (c *Ctx) globalMapLiteral(pkg, name string) (map[string]string, bool) {
	g := c.W.Global(pkg, name)
	if g == nil {
		return nil, false
	}
	initFn := c.W.SSA[pkg].Func("init")
	if initFn == nil {
		return nil, false
	}
	// the literal is the table only if nothing (a declared init function included) edits the
	// variable afterwards
	c.Check(c.W.constGlobal(pkg, name), "table-only-read/"+pkg+"."+name, c.W.Pos(g.Pos()), "the table "+pkg+"."+name+" is only looked up, ranged over or measured after its initialiser", "the table "+pkg+"."+name+" is updated, deleted from, re-assigned or handed out somewhere besides its initialiser (an init function counts): its contents are no longer what its literal says")
	out := map[string]string{}
	var mapVal ssa.Value
	instrs(initFn, func(in ssa.Instruction) {
		if st, ok := in.(*ssa.Store); ok && st.Addr == ssa.Value(g) {
			mapVal = st.Val
		}
	})
	if mapVal == nil {
		return nil, false
	}
	instrs(initFn, func(in ssa.Instruction) {
		if mu, ok := in.(*ssa.MapUpdate); ok && mu.Map == mapVal {
			k, ok1 := strConst(mu.Key)
			v, ok2 := strConst(mu.Value)
			if ok1 && ok2 {
				out[k] = v
			} else if ok1 {
				out[k] = c.T(initFn).Term(mu.Value)
			}
		}
	})
	return out, true
}

func c09a(c *Ctx) {
	tsName := c.W.GlobalNamed("parser", "textSuffixes", "map[string]string")
	tbl, ok := c.globalMapLiteral("parser", tsName)
	if !ok {
		c.Unk("anchor:parser.textSuffixes", "-", "terminator table textSuffixes not found")
		return
	}
	want := map[string]string{"": "$", "ascii": `\0`, "braille": "$"}
	for k, w := range want {
		c.Check(tbl[k] == w, "suffix["+q(k)+"]", "parser/parser.go", "terminator of "+q(k)+" is "+q(w), fmt.Sprintf("terminator of string type %q is %q, expected %q", k, tbl[k], w))
	}
	for k, v := range tbl {
		if _, ok := want[k]; !ok {
			c.Bad("suffix["+q(k)+"]", "parser/parser.go", fmt.Sprintf("unexpected string type %q with terminator %q in the table (other types get no terminator)", k, v))
		}
	}
	fn := c.Fn("parser.Parser.formatTextTerminator")
	if fn == nil {
		return
	}
	lk := "@parser." + tsName + "[$2]"
	has := "strings.HasSuffix($1," + lk + "#0)"
	// what comes back, under which conditions — compared as conditions, so that the three cases
	// may be written as three returns, as two (the "unchanged" cases folded), or with the tests
	// in another order
	var unchanged, appended, other dnf
	otherWhat := ""
	for _, fr := range c.flatReturns(fn) {
		if len(fr.terms) != 1 {
			continue
		}
		switch fr.terms[0] {
		case "$1":
			unchanged = orDNF(unchanged, fr.cond)
		case "($1 ++ " + lk + "#0)":
			appended = orDNF(appended, fr.cond)
		default:
			other = orDNF(other, fr.cond)
			otherWhat = fr.terms[0]
		}
	}
	pos := c.W.FuncPos(fn)
	wantUnchanged := mkDNF([]string{"-" + lk + "#1"}, []string{"+" + lk + "#1", "+" + has})
	wantAppended := mkDNF([]string{"+" + lk + "#1", "-" + has})
	c.Check(len(other.cs) == 0, "formatTextTerminator/every-return", pos, "every return is the text itself or the text plus its terminator", "formatTextTerminator can return "+pretty(otherWhat)+", which is neither the text nor the text with its terminator appended")
	okUnknown := dnfImplies(mkDNF([]string{"-" + lk + "#1"}), unchanged)
	okHas := dnfImplies(mkDNF([]string{"+" + lk + "#1", "+" + has}), unchanged)
	c.Check(okUnknown, "formatTextTerminator/unknown-type-unchanged", pos, "string types without a table entry are returned unchanged", "text of an unknown string type is not returned unchanged")
	c.Check(okHas, "formatTextTerminator/not-doubled", pos, "text already ending with the terminator is returned unchanged", "text that already ends with the terminator is not returned unchanged: an existing terminator could be doubled or cut")
	c.Check(dnfEquiv(unchanged, wantUnchanged), "formatTextTerminator/unchanged-only-then", pos, "the text comes back unchanged only for unknown types and already terminated text", "formatTextTerminator returns the text unchanged under ["+unchanged.String()+"], expected exactly [unknown string type] or [already ends with the terminator]: otherwise a text could be left without its terminator")
	c.Check(dnfEquiv(appended, wantAppended), "formatTextTerminator/appended", pos, "otherwise text + terminator", "text + terminator is returned under ["+appended.String()+"], expected exactly when the type is known and the text does not end with the terminator")
}

func c09b(c *Ctx) {
	// (1) inline records in parseCommandStatement
	if fn := c.Fn("parser.Parser.parseCommandStatement"); fn != nil {
		n := 0
		instrs(fn, func(in ssa.Instruction) {
			// record sites: appends of impText values (composite literal or constructor helper)
			ap, ok := in.(*ssa.Call)
			if !ok || calleeName(ap) != "builtin:append" {
				return
			}
			sl, ok := ap.Type().Underlying().(*types.Slice)
			if !ok || !typeIs(sl.Elem(), "parser", "impText") {
				return
			}
			es := appendElems(ap)
			if len(es) != 1 {
				return
			}
			ev := es[0]
			n++
			whole := c.term(fn, ev)
			f := c.valueFields(fn, ev, ap)
			pos := c.W.Pos(ap.Pos())
			key := fmt.Sprintf("parseCommandStatement/inline-text#%d", n)
			if f == nil {
				c.Unk(key, pos, "cannot read record "+whole)
				return
			}
			st := f["stringType"]
			if st == "" || st == "zero" {
				st = `""`
			}
			tb, tf := c.withFields(fn, f["text"])
			lit := ""
			if tf != nil {
				lit = tf["Literal"]
			}
			// the recorded type must be decided within this argument: "" / the prefix token of this
			// very string / the type returned by format(); never a value carried over from an
			// earlier argument (loop-carried)
			if sv := c.fieldSource(fn, ev, "stringType", ap); sv != nil {
				carried := false
				var walk func(v ssa.Value, seen map[ssa.Value]bool)
				walk = func(v ssa.Value, seen map[ssa.Value]bool) {
					if seen[v] {
						return
					}
					seen[v] = true
					if ph, isPhi := v.(*ssa.Phi); isPhi {
						if isLoopHeader(ph.Block()) {
							carried = true
							return
						}
						for _, e := range ph.Edges {
							walk(e, seen)
						}
					}
				}
				walk(sv, map[ssa.Value]bool{})
				c.Check(!carried, key+"/type-not-carried-over", pos, "the string type recorded for an argument is determined by that argument alone", "the string type recorded for this inline text can be a value carried over from an earlier argument of the same command (it is merged at the head of the argument loop): a plain string after a typed one would inherit its type")
			}
			okFmt := strings.HasPrefix(lit, "(*parser.Parser).formatTextTerminator($0,") && strings.HasSuffix(lit, ","+st+")")
			c.Check(okFmt, key+"/terminated-with-own-type", pos, "recorded text = formatTextTerminator(content, recorded string type)", "the recorded text literal is "+pretty(lit)+" while the recorded string type is "+pretty(st)+": the terminator must be applied to the content with exactly that type before the text is recorded (the dedup key is the terminated text)")
			if okFmt && !strings.Contains(lit, "parseFormatStringOperator") {
				// plain / typed literal: the content is the literal of the token that is recorded
				inner := strings.TrimSuffix(strings.TrimPrefix(lit, "(*parser.Parser).formatTextTerminator($0,"), ","+st+")")
				c.Check(inner == tb+".Literal", key+"/content-is-token", pos, "content is the string token's own literal", "terminated content "+pretty(inner)+" is not the literal of the recorded token "+pretty(tb))
			}
		})
		c.Check(n >= 2, "parseCommandStatement/inline-text-sites", c.W.FuncPos(fn), "inline text arms (format, string, typed string)", fmt.Sprintf("found %d inline text records, expected at least 2", n))
	}
	// (2) parseTextValue: returned (value, type)
	if fn := c.Fn("parser.Parser.parseTextValue"); fn != nil {
		n := 0
		for _, r := range returnsOf(fn) {
			if !c.isSuccessRet(fn, r) {
				continue
			}
			n++
			v, t := c.term(fn, r.Results[0]), c.term(fn, r.Results[1])
			ok := strings.HasPrefix(v, "(*parser.Parser).formatTextTerminator($0,") && strings.HasSuffix(v, ","+t+")")
			c.Check(ok, fmt.Sprintf("parseTextValue/return#%d", n), c.W.Pos(r.Pos()), "returns (formatTextTerminator(content, T), T)", "returns value "+pretty(v)+" with string type "+pretty(t)+": the terminator must be applied with the returned type")
		}
		c.Check(n == 3, "parseTextValue/returns", c.W.FuncPos(fn), "three text forms (format, string, typed string)", fmt.Sprintf("found %d successful returns, expected 3", n))
	}
	// (3) what is terminated is what was written: at every call of formatTextTerminator the text
	// is the literal of a string token as the lexer delivered it, or the text format() returned
	// (with its own string type) — never a trimmed, re-cased or otherwise processed copy
	if ftt := c.Fn("parser.Parser.formatTextTerminator"); ftt != nil {
		pfs := c.Fn("parser.Parser.parseFormatStringOperator")
		n := 0
		for _, ci := range c.W.callsTo(ftt) {
			f := ci.Parent()
			if isTestFunc(c.W, f) {
				continue
			}
			n++
			a := ci.Common().Args
			key := fmt.Sprintf("terminated-content/%s@%d", c.W.FuncKey(f), c.T(f).callOrd[ci])
			okArg, why := false, ""
			switch x := a[1].(type) {
			case *ssa.Extract:
				cl, isCall := x.Tuple.(*ssa.Call)
				if isCall && pfs != nil && callee(cl) == pfs && x.Index == 1 {
					// ... terminated with the type the same call returned
					ty, isEx := a[2].(*ssa.Extract)
					okArg = isEx && ty.Tuple == x.Tuple && ty.Index == 2
					why = "the text returned by format() is terminated with " + pretty(c.term(f, a[2])) + ", not with the string type the same format() returned"
				} else {
					why = "the text is " + pretty(c.term(f, a[1]))
				}
			case *ssa.UnOp:
				_, t, fld, isF := fieldAddrOf(x.X)
				okArg = isF && fld == "Literal" && typeIs(t, "token", "Token")
				why = "the text is " + pretty(c.term(f, a[1]))
			case *ssa.Field:
				okArg = fieldName(x.X.Type(), x.Field) == "Literal" && typeIs(x.X.Type(), "token", "Token")
				why = "the text is " + pretty(c.term(f, a[1]))
			default:
				why = "the text is " + pretty(c.term(f, a[1]))
			}
			c.Check(okArg, key, c.W.Pos(ci.Pos()), "the terminated text is a string token's literal or format()'s result", why+": expected the literal of a string token exactly as written, or the text returned by format()")
		}
		c.Check(n >= 6, "terminated-content/sites", c.W.FuncPos(ftt), fmt.Sprintf("%d calls of formatTextTerminator examined", n), fmt.Sprintf("expected at least 6 calls of formatTextTerminator, found %d", n))
	}
}

func c09c(c *Ctx) {
	// the lexer: a word immediately followed by a quote names a string type, whatever it spells
	// (`raw"…"`, `text"…"`: keywords are ordinary prefixes there) — in the identifier arm of
	// NextToken every value of the token's type other than STRINGTYPE is chosen only when the next
	// character is not a quote, and STRINGTYPE only when it is
	if nt := c.Fn("lexer.Lexer.NextToken"); nt != nil {
		n := 0
		quoteRe := regexpMust(`^([+-])\(\$0\.ch![A-Za-z0-9@_]*readIdentifier[A-Za-z0-9@_]* == 34\)$`)
		type retIn struct {
			fn *ssa.Function
			r  *ssa.Return
		}
		var rets []retIn
		for _, m := range c.unitOf(nt) { // the arm may live in a helper of NextToken
			for _, r := range returnsOf(m.fn) {
				if len(r.Results) == 1 {
					rets = append(rets, retIn{m.fn, r})
				}
			}
		}
		for _, ri := range rets {
			fn, r := ri.fn, ri.r
			ld, isLd := r.Results[0].(*ssa.UnOp)
			if !isLd {
				continue
			}
			a, isA := ld.X.(*ssa.Alloc)
			if !isA {
				continue
			}
			tv := fieldValue(a, "Type", r)
			lit := fieldValue(a, "Literal", r)
			if tv == nil || lit == nil || !strings.Contains(c.term(fn, lit), "readIdentifier") {
				continue
			}
			n++
			ok := true
			why := ""
			sawST := false
			// every value the type can have at the return: each assignment that can be the last
			// one, opened into its own alternatives
			var alts []guardedAlt
			if rs := c.reachingFieldStores(fn, a, "Type", ld); len(rs) > 0 {
				for _, sa := range rs {
					for _, ga := range c.resultAlts(fn, sa.val) {
						ga.must = append(append([]string{}, ga.must...), sa.must...)
						alts = append(alts, ga)
					}
				}
			} else {
				alts = c.resultAlts(fn, tv)
			}
			for _, alt := range alts {
				must := append(append([]string{}, alt.must...), c.mustLits(fn, r.Block())...)
				quote, noQuote := false, false
				for _, l := range must {
					if m := quoteRe.FindStringSubmatch(l); m != nil {
						if m[1] == "+" {
							quote = true
						} else {
							noQuote = true
						}
					}
				}
				switch {
				case alt.term == `"STRINGTYPE"`:
					sawST = true
					if !quote {
						ok, why = false, "STRINGTYPE is chosen on a path where the next character is not known to be a quote"
					}
				case !noQuote:
					ok, why = false, "the type "+pretty(alt.term)+" can be chosen although the next character is a quote (guards: "+fmt.Sprint(must)+")"
				}
			}
			c.Check(ok && sawST, "NextToken/identifier-before-quote-is-string-type", c.W.Pos(r.Pos()), "an identifier directly followed by a quote is a STRINGTYPE token whatever it spells", "the identifier arm does not make every word that is directly followed by a quote a STRINGTYPE: "+why)
		}
		c.Check(n >= 1, "NextToken/identifier-arm", c.W.FuncPos(nt), "identifier arm found", "cannot find the identifier arm of NextToken (a returned token whose literal comes from readIdentifier)")
	}
	// format(): the string type handed back is the literal of the STRINGTYPE token when there is
	// one and empty otherwise — whatever the prefix spells (unknown prefixes are passed through
	// to the directive like everywhere else)
	if fn := c.Fn("parser.Parser.parseFormatStringOperator"); fn != nil {
		n := 0
		for _, r := range returnsOf(fn) {
			if !isSuccessReturn(r) || !c.mayBeSuccessRet(fn, r) || len(r.Results) != 4 {
				continue
			}
			n++
			ok := true
			why := ""
			sawLit, sawEmpty := false, false
			for _, alt := range c.resultAlts(fn, r.Results[2]) {
				must := append(append([]string{}, alt.must...), c.mustLits(fn, r.Block())...)
				has, hasNot := false, false
				for _, l := range must {
					if strings.HasSuffix(l, `Token.Type == "STRINGTYPE")`) {
						if l[0] == '+' {
							// the literal taken is that of the very token that was tested
							slot := strings.TrimSuffix(strings.TrimPrefix(l, "+("), `.Type == "STRINGTYPE")`)
							if alt.term == `""` || stripLoopTags(alt.term) == slot+".Literal" {
								has = true
							}
						} else {
							hasNot = true
						}
					}
				}
				switch {
				case alt.term == `""`:
					sawEmpty = true
					if !hasNot {
						ok, why = false, "the string type can be empty although a string-type prefix was read (under "+fmt.Sprint(prettyAll(alt.must))+"): the text would get the default terminator and the .string directive"
					}
				case strings.HasSuffix(stripLoopTags(alt.term), ".Literal") && strings.Contains(alt.term, "Token"):
					sawLit = true
					if !has {
						ok, why = false, "the string type "+pretty(alt.term)+" is used although no string-type prefix was read (under "+fmt.Sprint(must)+")"
					}
				default:
					ok, why = false, "the string type of format() can be "+pretty(alt.term)+", which is neither empty nor the prefix token's literal"
				}
			}
			c.Check(ok && sawLit && sawEmpty, fmt.Sprintf("format/string-type#%d", n), c.W.Pos(r.Pos()), "string type = the prefix token's literal iff a prefix was read", why)
		}
		c.Check(n >= 1, "format/string-type", c.W.FuncPos(fn), "format() returns a string type", "no successful return found in parseFormatStringOperator")
		// ... and the text it hands back is what FormatText laid out, untouched (trimming a final
		// break code, say, drops something the author wrote)
		if ft := c.Fn("parser.FontConfig.FormatText"); ft != nil {
			for i, r := range returnsOf(fn) {
				if !isSuccessReturn(r) || !c.mayBeSuccessRet(fn, r) || len(r.Results) != 4 {
					continue
				}
				okText := false
				var leaves []ssa.Value
				phiLeaves(r.Results[1], map[ssa.Value]bool{}, &leaves)
				okText = len(leaves) > 0
				for _, lf := range leaves {
					ex, isEx := lf.(*ssa.Extract)
					if !isEx || ex.Index != 0 {
						okText = false
						continue
					}
					call, isCall := ex.Tuple.(*ssa.Call)
					if !isCall || callee(call) != ft {
						okText = false
					}
				}
				c.Check(okText, fmt.Sprintf("format/returns-formatted-text#%d", i), c.W.Pos(r.Pos()), "format() returns the text FormatText produced", "the text returned by format() is "+pretty(c.term(fn, r.Results[1]))+", not simply FormatText's result: part of what the author wrote could be changed after the layout")
			}
		}
	}
	if fn := c.Fn("parser.Parser.parseTextStatement"); fn != nil {
		// Value/StringType come from the same call (both phis merge matching results)
		var val, typ ssa.Value
		for _, st := range storesToField(fn, "ast", "TextStatement", "Value") {
			val = st.Val
		}
		for _, st := range storesToField(fn, "ast", "TextStatement", "StringType") {
			typ = st.Val
		}
		ok := false
		if pv, ok1 := val.(*ssa.Phi); ok1 {
			if pt, ok2 := typ.(*ssa.Phi); ok2 && pv.Block() == pt.Block() && len(pv.Edges) == len(pt.Edges) {
				ok = true
				for i := range pv.Edges {
					ev, ok1 := pv.Edges[i].(*ssa.Extract)
					et, ok2 := pt.Edges[i].(*ssa.Extract)
					if !ok1 || !ok2 || ev.Tuple != et.Tuple || ev.Index != 0 || et.Index != 1 {
						ok = false
					}
				}
			}
		}
		c.Check(ok, "parseTextStatement/value-and-type-from-same-parse", c.W.FuncPos(fn), "text statement stores the value and the string type returned by the same parse", "TextStatement.Value and .StringType are not results #0 and #1 of the same call on every path")
	}
	if fn := c.Fn("parser.Parser.ParseProgram"); fn != nil {
		ok := false
		nBuilt := 0
		for _, tv := range c.builtTexts(fn) {
			nBuilt++
			v, t, n := tv.f["Value"], tv.f["StringType"], tv.f["Name"]
			base := strings.TrimSuffix(v, ".Value")
			// ... the element the loop is at (`p.textStatements[i]`), and the scope is that
			// statement's scope too
			g := tv.f["IsGlobal"]
			okScope := g == "" || g == "("+base+`.Scope == "GLOBAL")` || !strings.Contains(g, ".Scope")
			okElem := strings.Contains(base, "textStatements") && strings.Contains(base, "[phi(")
			if strings.HasSuffix(v, ".Value") && t == base+".StringType" && n == base+".Name.Value" && okScope && okElem {
				ok = true
			} else {
				// every text built here, not just one of them
				ok = false
				break
			}
		}
		ok = ok && nBuilt > 0
		c.Check(ok, "ParseProgram/explicit-text-fields", c.W.FuncPos(fn), "explicit text: Value, StringType, Name copied from the same text statement", "ast.Text for explicit texts is not built from (stmt.Value, stmt.StringType, stmt.Name.Value) of one statement")
	}
	if fn := c.Fn("emitter.Emitter.emitText"); fn != nil {
		// the directive is the text's string type, "string" when that is empty: either as a
		// chosen word in one write or as two writes
		var site *writeSite
		var typedD, dfltD dnf
		nTyped, nDflt, nOther := 0, 0, 0
		ws := c.sitesOf(fn)
		for i := range ws {
			switch {
			case ws[i].format == "\t.%s \"%s\"\n" && len(ws[i].argT) == 2:
				site = &ws[i]
				if ws[i].argT[0] == "$1.StringType" {
					nTyped++
					typedD = orDNF(typedD, ws[i].cond)
				} else {
					nOther++
				}
			case ws[i].format == "\t.string \"%s\"\n" && len(ws[i].argT) == 1:
				site = &ws[i]
				nDflt++
				dfltD = orDNF(dfltD, ws[i].cond)
			}
		}
		if site == nil {
			c.Bad("emitText/directive-line", c.W.FuncPos(fn), "no directive line of the form TAB .<type> \"<line>\" NEWLINE")
			return
		}
		nonEmpty := "(0 < builtin:len($1.StringType))"
		// typed form exactly under "non-empty", default form exactly under "empty", and both
		// under the same remaining conditions (the loop over the lines)
		tr, okT := stripLit(typedD, "+"+nonEmpty)
		dr, okD := stripLit(dfltD, "-"+nonEmpty)
		ok := nOther == 0 && nTyped > 0 && nDflt > 0 && okT && okD && dnfEquiv(tr, dr)
		c.Check(ok, "emitText/directive", c.W.Pos(site.call.Pos()), "directive = the text's string type, .string when empty", "the directive is not (StringType if non-empty else \"string\")")
	}
}

func c09d(c *Ctx) {
	// what the case tables hold: under a case's name, the text and the string type that one call
	// of parseTextValue returned — both as they are
	if tc, ptv := c.Fn("parser.Parser.parsePoryswitchTextCases"), c.Fn("parser.Parser.parseTextValue"); tc != nil && ptv != nil {
		nUpd := 0
		seen := map[int]bool{}
		instrs(tc, func(in ssa.Instruction) {
			mu, ok := in.(*ssa.MapUpdate)
			if !ok {
				return
			}
			if _, isStr := mu.Value.Type().Underlying().(*types.Basic); !isStr {
				return
			}
			nUpd++
			ex, isEx := mu.Value.(*ssa.Extract)
			okV := false
			if isEx {
				if call, isCall := ex.Tuple.(*ssa.Call); isCall && callee(call) == ptv && (ex.Index == 0 || ex.Index == 1) {
					okV = true
					seen[ex.Index] = true
				}
			}
			c.Check(okV, fmt.Sprintf("text-poryswitch/table-holds-parsed-value#%d", nUpd), c.W.Pos(mu.Pos()), "a case table entry is a result of parseTextValue, unchanged", "a poryswitch text case stores "+pretty(c.term(tc, mu.Value))+", not the text / string type parseTextValue returned: the selected text would differ from the same text written outside a poryswitch")
		})
		c.Check(nUpd >= 2 && seen[0] && seen[1], "text-poryswitch/tables", c.W.FuncPos(tc), "text and string type of every case are recorded", fmt.Sprintf("expected the text and the string type of a case to be stored (found %d table updates)", nUpd))
	}
	fn := c.Fn("parser.Parser.parsePoryswitchTextStatement")
	if fn == nil {
		return
	}
	for _, r := range returnsOf(fn) {
		if !c.isSuccessRet(fn, r) {
			continue
		}
		pv, ok1 := r.Results[0].(*ssa.Phi)
		pt, ok2 := r.Results[1].(*ssa.Phi)
		if !ok1 && !ok2 {
			// one lookup each, under the same (chosen) key value
			kv, kt := lookupKey(c, fn, r.Results[0]), lookupKey(c, fn, r.Results[1])
			var lv, lt *ssa.Lookup
			if x, ok := unExtract(r.Results[0]).(*ssa.Lookup); ok {
				lv = x
			}
			if x, ok := unExtract(r.Results[1]).(*ssa.Lookup); ok {
				lt = x
			}
			sameIdx := lv != nil && lt != nil && lv.Index == lt.Index
			if lv != nil && lt != nil && !sameIdx {
				// two occurrences of the same constant key
				a, okA := strConst(lv.Index)
				b, okB := strConst(lt.Index)
				sameIdx = okA && okB && a == b
			}
			same := sameIdx && kv != "" && kv == kt
			c.Check(same, "text-poryswitch/parallel-maps", c.W.Pos(r.Pos()), "text and string type are read under the same key on every path", fmt.Sprintf("the text is read under key %s but the string type under key %s", pretty(kv), pretty(kt)))
			continue
		}
		if !ok1 || !ok2 || len(pv.Edges) != len(pt.Edges) || pv.Block() != pt.Block() {
			c.Bad("text-poryswitch/parallel-maps", c.W.Pos(r.Pos()), "returned text and string type are not merged from matching lookups")
			continue
		}
		ok := true
		why := ""
		for i := range pv.Edges {
			kv, kt := lookupKey(c, fn, pv.Edges[i]), lookupKey(c, fn, pt.Edges[i])
			if kv == "" || kv != kt {
				ok = false
				why = fmt.Sprintf("on one path the text is read under key %s but the string type under key %s", pretty(kv), pretty(kt))
			}
		}
		c.Check(ok, "text-poryswitch/parallel-maps", c.W.Pos(r.Pos()), "text and string type are read under the same key on every path", why)
	}
}

// lookupKey: v is (an extract of) a map lookup; return the key term.
func lookupKey(c *Ctx, fn *ssa.Function, v ssa.Value) string {
	if ex, ok := v.(*ssa.Extract); ok {
		v = ex.Tuple
	}
	if lk, ok := v.(*ssa.Lookup); ok {
		return c.term(fn, lk.Index)
	}
	return ""
}

func c09e(c *Ctx) {
	fn := c.Fn("emitter.Emitter.emitText")
	if fn == nil {
		return
	}
	c.checkShape(fn, "emitText/output-shape", gSeq(gName(), gMark(), gStar(gAlt(gLit("\t.string \"%s\"\n"), gLit("\t.%s \"%s\"\n")))),
		"a text is its label, an optional marker, and nothing but directive lines")
	var site *writeSite
	ws := c.sitesOf(fn)
	for i := range ws {
		if ws[i].format == "\t.%s \"%s\"\n" {
			site = &ws[i]
		}
	}
	if site == nil || len(site.argT) != 2 {
		c.Bad("emitText/line", c.W.FuncPos(fn), "directive line not found")
		return
	}
	line := site.argT[1]
	ok := strings.HasPrefix(line, `strings.Split($1.Value,"\n")[phi(`) && strings.HasSuffix(line, "+1]")
	c.Check(ok, "emitText/every-line-in-order", c.W.Pos(site.call.Pos()), "one directive per element of Split(Value, \"\\n\"), in order", "directive lines print "+pretty(line)+", expected every element of strings.Split(text.Value, \"\\n\") in order")
	if h := loopHeaders(fn)[site.call.Block()]; h != nil {
		early := false
		body := loopBody(h)
		for b := range body {
			if _, isRet := b.Instrs[len(b.Instrs)-1].(*ssa.Return); isRet {
				early = true
			}
			// ... or by a break: any way out of the loop that does not start at its head
			for _, sc := range b.Succs {
				if b != h && !body[sc] {
					early = true
				}
			}
		}
		c.Check(!early, "emitText/no-early-exit", c.W.Pos(site.call.Pos()), "all lines are emitted", "the line loop can be left early")
		// ... each of them: no iteration goes round without writing its directive (an empty line
		// is still a line of the text)
		var sinks []ssa.Instruction
		for i := range ws {
			if (ws[i].format == "\t.%s \"%s\"\n" || ws[i].format == "\t.string \"%s\"\n") && loopHeaders(fn)[ws[i].call.Block()] == h {
				sinks = append(sinks, ws[i].call.(ssa.Instruction))
			}
		}
		w, skip := loopSkip(fn, sinks...)
		c.Check(!skip, "emitText/every-line-written", c.W.Pos(site.call.Pos()), "every iteration writes its directive", "a line of the text can be passed over without a directive (an iteration can reach "+c.nearPos(w)+" without the write): the emitted text would differ from the stored one")
	}
	// label first, then marker, then lines
	var first ssa.Instruction
	for _, w := range ws {
		if strings.HasPrefix(w.format, "%s:") {
			if first == nil || instrDominates(w.call.(ssa.Instruction), first) {
				first = w.call.(ssa.Instruction)
			}
		}
	}
	c.Check(first != nil && !canReach(site.call.(ssa.Instruction), first), "emitText/label-before-lines", c.W.FuncPos(fn), "the label precedes the directives", "the label is not written before the directive lines")
	// separators agree: lexer joins adjacent literals with "\n"; FormatText ends a line with '\n'
	if rs := c.Fn("lexer.Lexer.readString"); rs != nil {
		ok := false
		for _, w := range c.sitesOf(rs) {
			if w.konst && w.format == "\n" && strings.HasPrefix(w.method, "Write") {
				ok = true
			}
		}
		// ... between every two pieces: the separator is written exactly when something was
		// written before (any other test — a length above one, a line comparison — glues some
		// pieces together or splits others)
		for _, w := range c.sitesOf(rs) {
			if !(w.konst && w.format == "\n" && strings.HasPrefix(w.method, "Write")) {
				continue
			}
			// (the pieces loop runs while the current character is a quote: that test of the
			// character is the loop's, every other one is a further condition)
			d0 := c.PC(rs).At(w.call.Block())
			d := dnf{unknown: d0.unknown}
			for _, cj := range d0.cs {
				var n conj
				for _, l := range cj {
					if verRe.ReplaceAllString(l, "") == "+($0.ch == 34)" {
						continue
					}
					n = append(n, l)
				}
				d.cs = append(d.cs, n)
			}
			d.cs = simplify(d.cs)
			okG := len(d.cs) == 1 && len(d.cs[0]) == 1 && regexpMust(`^\+\(0 < \(\*strings\.Builder\)\.Len\(.*\)(@\d+)?\)$`).MatchString(d.cs[0][0])
			if !okG && len(d.cs) == 1 && len(d.cs[0]) == 1 {
				// a "not the first piece" flag: a phi that is false on entry and true round the loop
				// (read off the phi itself, not off its name: the entry value and every value that
				// comes round the loop are constants, and they are opposite)
				lit := d.cs[0][0]
				for _, hb := range rs.Blocks {
					if !isLoopHeader(hb) {
						continue
					}
					for _, in := range hb.Instrs {
						ph, isPhi := in.(*ssa.Phi)
						if !isPhi || c.term(rs, ph) != lit[1:] {
							continue
						}
						wantEntry := lit[0] == '-' // `if !first`: first is true on entry, false afterwards
						good := true
						for i, e := range ph.Edges {
							k, isC := e.(*ssa.Const)
							if !isC || k.Value == nil || k.Value.Kind() != constant.Bool {
								good = false
								continue
							}
							entryEdge := !hb.Dominates(hb.Preds[i])
							if constant.BoolVal(k.Value) != (entryEdge == wantEntry) {
								good = false
							}
						}
						okG = good
					}
				}
			}
			c.Check(okG, "separator/lexer/between-every-two-pieces", c.W.Pos(w.call.Pos()), "the separator is written exactly when a piece was written before", "readString writes the piece separator under ["+pretty(d.String())+"], expected exactly when the builder is not empty (sb.Len() > 0): adjacent pieces would be glued together or split differently, and emitText makes one directive per separator")
		}
		c.Check(ok, "separator/lexer", c.W.FuncPos(rs), "adjacent string literals are joined with the line separator \\n", "lexer.readString no longer joins adjacent literals with \"\\n\" (emitText splits lines at \"\\n\")")
	}
	if ft := c.Fn("parser.FontConfig.FormatText"); ft != nil {
		n := 0
		for _, w := range c.sitesOf(ft) {
			if w.method == "WriteByte" && w.konst && w.format == "\n" {
				n++
			}
		}
		c.Check(n >= 2, "separator/format", c.W.FuncPos(ft), "format() ends every broken line with the line separator", "FormatText does not write '\\n' after its line breaks (emitText splits lines at \"\\n\")")
	}
}

// ---- C10 -----------------------------------------------------------------------------------

// c10aSiblingCounters: the argument loop is not the only place where the parser counts nested
// brackets (the comparison value of var() is another). Every such counter agrees with it: the
// count goes up where the token at hand — the current token of the loop, not a token further on —
// is an opening bracket, down where it is the matching closing one, and is otherwise kept.
func c10aSiblingCounters(c *Ctx) {
	mate := map[string]string{"(": ")", "{": "}", "[": "]"}
	n := 0
	for _, fn := range c.W.FuncsOf("parser") {
		if isTestFunc(c.W, fn) || len(fn.Blocks) == 0 || fn.Name() == "parseCommandStatement" || fn.Name() == "getNextWord" {
			continue
		}
		for _, head := range fn.Blocks {
			if !isLoopHeader(head) {
				continue
			}
			for _, in := range head.Instrs {
				ph, isPhi := in.(*ssa.Phi)
				if !isPhi {
					continue
				}
				if bt, isB := ph.Type().Underlying().(*types.Basic); !isB || bt.Kind() != types.Int || strings.Contains(ph.Comment, "rangeindex") {
					continue
				}
				pt := c.term(fn, ph)
				var ups, downs []*ssa.BinOp
				for i, e := range ph.Edges {
					if !head.Dominates(head.Preds[i]) {
						continue
					}
					var leaves []ssa.Value
					phiLeaves(e, map[ssa.Value]bool{ph: true}, &leaves)
					for _, lf := range leaves {
						if bo, ok := lf.(*ssa.BinOp); ok {
							switch c.term(fn, bo) {
							case pt + "+1":
								ups = append(ups, bo)
							case pt + "-1":
								downs = append(downs, bo)
							}
						}
					}
				}
				if len(ups) == 0 || len(downs) == 0 {
					continue // not a nesting counter
				}
				n++
				cur := "$0.curToken!L" + fmt.Sprint(head.Index)
				kindAt := func(bo *ssa.BinOp) (string, string) {
					// the bracket kind the update stands under, and of which token
					for _, l := range c.mustLits(fn, bo.Block()) {
						for open, close := range mate {
							for _, k := range []string{open, close} {
								if strings.HasPrefix(l, "+(") && strings.HasSuffix(l, `.Type == "`+k+`")`) {
									return k, strings.TrimSuffix(strings.TrimPrefix(l, "+("), `.Type == "`+k+`")`)
								}
							}
						}
					}
					return "", ""
				}
				okAll, why := true, ""
				opener := ""
				for _, bo := range ups {
					k, tok := kindAt(bo)
					if _, isOpen := mate[k]; !isOpen || tok != cur {
						okAll, why = false, fmt.Sprintf("the count goes up under %s.Type == %q, expected the loop's current token to be an opening bracket", pretty(tok), k)
					}
					opener = k
				}
				for _, bo := range downs {
					k, tok := kindAt(bo)
					if okAll && (k != mate[opener] || tok != cur) {
						okAll, why = false, fmt.Sprintf("the count goes down under %s.Type == %q, expected the loop's current token to be %q", pretty(tok), k, mate[opener])
					}
				}
				c.Check(okAll, fmt.Sprintf("%s/nesting-counter[%s]", c.W.FuncKey(fn), flagName(pt)), c.W.Pos(ph.Pos()), "the nesting count goes up at an opening bracket and down at its mate, both read from the current token", fn.Name()+": "+why+" — nested brackets end the value early or late")
			}
		}
	}
	c.Check(n >= 1, "nesting-counters/siblings", "-", fmt.Sprintf("%d nesting counters besides the argument loop's", n), "no nesting counter found besides the argument loop's")
}

func c10a(c *Ctx) {
	c10aParenArms(c)
	c10aSiblingCounters(c)
	fn := c.Fn("parser.Parser.parseCommandStatement")
	nt := c.Fn("parser.Parser.nextToken")
	if fn == nil || nt == nil {
		return
	}
	// the loop: header = block holding the argParts phi
	var argPhi, depthPhi *ssa.Phi
	instrs(fn, func(in ssa.Instruction) {
		p, ok := in.(*ssa.Phi)
		if !ok || !isLoopHeader(p.Block()) {
			return
		}
		if sl, ok := p.Type().Underlying().(*types.Slice); ok && types.Identical(sl.Elem(), types.Typ[types.String]) {
			argPhi = p
		}
		if b, ok := p.Type().Underlying().(*types.Basic); ok && b.Kind() == types.Int {
			depthPhi = p
		}
	})
	if argPhi == nil || depthPhi == nil {
		c.Bad("arg-loop/shape", c.W.FuncPos(fn), "cannot find the argument loop (a []string accumulator and an int depth counter)")
		return
	}
	head := argPhi.Block()
	body := loopBody(head)
	cur := "$0.curToken!L" + fmt.Sprint(head.Index)
	// exit condition
	var exitBlk *ssa.BasicBlock
	for b := range body {
		for _, s := range b.Succs {
			if !body[s] {
				if _, isRet := s.Instrs[len(s.Instrs)-1].(*ssa.Return); isRet && len(s.Preds) == 1 && !c.isSuccessRet(fn, s.Instrs[len(s.Instrs)-1].(*ssa.Return)) {
					continue // error exit
				}
				if exitBlk == nil || s.Index < exitBlk.Index {
					exitBlk = s
				}
			}
		}
	}
	// find exits that are not error returns
	okExit := false
	for b := range body {
		for _, s := range b.Succs {
			if body[s] {
				continue
			}
			must := c.mustLits(fn, s)
			if hasLit(must, "+("+cur+`.Type == ")")`) && hasLit(must, "+("+c.term(fn, depthPhi)+" == 0)") {
				okExit = true
			}
		}
	}
	c.Check(okExit, "arg-loop/exit", c.W.Pos(argPhi.Pos()), "the loop ends at ')' with depth 0", "the argument loop's normal exit is not (current token is ')' and parenthesis depth is 0)")
	// depth counting
	var up, down bool
	otherDepth := ""
	for i, e := range depthPhi.Edges {
		var leaves []ssa.Value
		phiLeaves(e, map[ssa.Value]bool{depthPhi: true}, &leaves)
		if !head.Dominates(head.Preds[i]) {
			continue // the initial value
		}
		for _, lf := range leaves {
			bo, ok := lf.(*ssa.BinOp)
			if !ok {
				// anything carried round the loop other than depth, depth+1, depth-1 (a reset, say)
				otherDepth = pretty(c.term(fn, lf))
				continue
			}
			must := c.mustLits(fn, bo.Block())
			t := c.term(fn, bo)
			switch {
			case t == c.term(fn, depthPhi)+"+1" && hasLit(must, "+("+cur+`.Type == "(")`):
				up = true
			case t == c.term(fn, depthPhi)+"-1" && hasLit(must, "+("+cur+`.Type == ")")`):
				down = true
			default:
				otherDepth = pretty(t)
			}
		}
	}
	c.Check(otherDepth == "", "arg-loop/depth-only-counts", c.W.Pos(depthPhi.Pos()), "the depth is only ever kept, incremented on '(' or decremented on ')'", "the parenthesis depth can become "+otherDepth+" inside the loop: nested parentheses would end the argument list early or late")
	c.Check(up && down, "arg-loop/depth", c.W.Pos(depthPhi.Pos()), "depth +1 on '(' and -1 on ')'", "parenthesis depth is not incremented exactly on '(' and decremented exactly on ')'")
	// every iteration: exactly one nextToken on every path from header back to header (besides the typed-string arm's extra advance)
	isNext := func(in ssa.Instruction) bool { ci, ok := in.(ssa.CallInstruction); return ok && callee(ci) == nt }
	first := head.Instrs[0]
	_, noAdvance := existsPath(pathQuery{from: point{head, len(head.Instrs) - 1}, avoid: isNext, target: func(in ssa.Instruction) bool { return in == first }})
	c.Check(!noAdvance, "arg-loop/advances", c.W.Pos(argPhi.Pos()), "every iteration consumes a token", "an iteration of the argument loop can return to the loop head without advancing the token window")
	// every token does something: the accumulator never comes round unchanged (an arm that
	// matches a token and does nothing drops that token from the argument)
	{
		unchanged := false
		for i, e := range argPhi.Edges {
			if !head.Dominates(head.Preds[i]) {
				continue
			}
			seenP := map[ssa.Value]bool{}
			var walk func(v ssa.Value)
			walk = func(v ssa.Value) {
				if v == ssa.Value(argPhi) {
					unchanged = true
					return
				}
				if seenP[v] {
					return
				}
				seenP[v] = true
				if q, ok := v.(*ssa.Phi); ok {
					for _, qe := range q.Edges {
						walk(qe)
					}
				}
			}
			walk(e)
		}
		c.Check(!unchanged, "arg-loop/no-token-dropped", c.W.Pos(argPhi.Pos()), "every iteration changes the argument under construction (appends to it, records a placeholder, or closes it)", "an iteration of the argument loop can leave the argument under construction untouched: the token it consumed is missing from the rendered command")
	}
	// which tokens are rejected inside an argument list: end of input, and a string type that is
	// not followed by a string; every other error is handed up from a sub-parser. (Anything
	// else written between the parentheses is passed on literally.)
	{
		bodyBlocks := loopBody(head)
		nOwn := 0
		for _, r := range returnsOf(fn) {
			if !bodyBlocks[r.Block()] && !head.Dominates(r.Block()) {
				continue
			}
			if isSuccessReturn(r) {
				continue
			}
			// inside the loop (blocks ending in a return are never in the natural loop body: use dominance by a body block)
			inLoop := false
			for _, pb := range r.Block().Preds {
				if bodyBlocks[pb] {
					inLoop = true
				}
			}
			if !inLoop {
				continue
			}
			ev := r.Results[len(r.Results)-1]
			call, isCtor := ev.(*ssa.Call)
			if !isCtor || !isErrorCtorCall(call) {
				continue // handed up
			}
			nOwn++
			must := c.mustLits(fn, r.Block())
			okWhy := false
			for _, l := range must {
				if strings.HasPrefix(l, "+($0.curToken") && strings.HasSuffix(l, `.Type == "EOF")`) {
					okWhy = true
				}
				if strings.HasPrefix(l, "-($0.curToken") && strings.HasSuffix(l, `.Type == "STRING")`) {
					okWhy = true
				}
			}
			c.Check(okWhy, fmt.Sprintf("arg-loop/own-error#%d", nOwn), c.W.Pos(r.Pos()), "the argument loop itself only rejects end of input and a string type without its string", "the argument loop rejects a token on its own (under "+fmt.Sprint(prettyAll(must))+"): arguments are passed through literally, only end of input and a string type without a string are errors here")
		}
	}
	// actions: classify the leaves merged into the accumulator on the back edge
	type action struct {
		guard string
		what  string
	}
	want := map[string]string{",": "close", "(": "literal-raw", ")": "literal-raw", "FORMAT": "placeholder", "STRING": "placeholder", "STRINGTYPE": "placeholder", "MOVES": "placeholder", "": "literal-subst"}
	got := map[string]string{}
	var leaves []ssa.Value
	for i, e := range argPhi.Edges {
		if head.Dominates(head.Preds[i]) {
			phiLeaves(e, map[ssa.Value]bool{argPhi: true}, &leaves)
		}
	}
	for _, lf := range leaves {
		blk := lf.(ssa.Instruction).Block()
		must := c.mustLits(fn, blk)
		guard := ""
		for _, l := range must {
			if strings.HasPrefix(l, "+("+cur+`.Type == "`) {
				guard = strings.TrimSuffix(strings.TrimPrefix(l, "+("+cur+`.Type == "`), `")`)
			}
		}
		what := "?"
		switch x := lf.(type) {
		case *ssa.Slice:
			// argParts = []string{}: must come with closing the argument
			what = "reset"
			for _, in := range blk.Instrs {
				if st, ok := in.(*ssa.Store); ok {
					if _, _, f, ok := fieldAddrOf(st.Addr); ok && f == "Args" {
						v := c.term(fn, st.Val)
						if strings.HasPrefix(v, "builtin:append(") && strings.Contains(v, ".Args") {
							es := appendElems(st.Val)
							if len(es) == 1 && strings.HasPrefix(c.term(fn, es[0]), "strings.Join("+c.term(fn, argPhi)+`," ")`) {
								what = "close"
							}
						}
					}
				}
			}
			_ = x
		case *ssa.Call:
			es := varargElems(x.Call.Args[1])
			if calleeName(x) == "builtin:append" && c.term(fn, x.Call.Args[0]) == c.term(fn, argPhi) && len(es) == 1 {
				et := c.term(fn, es[0])
				switch {
				case et == `""`:
					what = "placeholder"
				case et == cur+".Literal":
					what = "literal-raw"
				case strings.HasPrefix(et, "(*parser.Parser).tryReplaceWithConstant($0,"+cur+".Literal)"):
					what = "literal-subst"
				default:
					what = "appends " + et
				}
			}
		}
		if prev, dup := got[guard]; dup && prev != what {
			what = prev + "+" + what
		}
		got[guard] = what
	}
	for g, w := range want {
		label := g
		if g == "" {
			label = "other"
		}
		c.Check(got[g] == w, "arg-loop/arm["+label+"]", c.W.Pos(argPhi.Pos()), "token "+label+": "+w, fmt.Sprintf("for token %s the argument loop does %q, expected %q", label, got[g], w))
	}
	for g, w := range got {
		if _, ok := want[g]; !ok {
			c.Bad("arg-loop/arm["+g+"]", c.W.Pos(argPhi.Pos()), "unexpected arm for token "+g+": "+w)
		}
	}
	// final flush
	flushed := false
	for _, st := range storesToField(fn, "ast", "CommandStatement", "Args") {
		if body[st.Block()] {
			continue
		}
		must := c.mustLits(fn, st.Block())
		es := appendElems(st.Val)
		if len(es) == 1 && strings.HasPrefix(c.term(fn, es[0]), "strings.Join("+c.term(fn, argPhi)+`," ")`) && hasLit(must, "+(0 < builtin:len("+c.term(fn, argPhi)+"))") {
			flushed = true
		}
	}
	c.Check(flushed, "arg-loop/final-flush", c.W.FuncPos(fn), "a non-empty last argument is closed after the loop", "the last argument is not appended to Args after the loop when argument parts remain")
}

func c10b(c *Ctx) {
	fn := c.Fn("emitter.renderCommandStatement")
	if fn == nil {
		return
	}
	ws := c.sitesOf(fn)
	var name, args, nl *writeSite
	for i := range ws {
		switch {
		case ws[i].isFmt && ws[i].format == "\t%s":
			name = &ws[i]
		case ws[i].isFmt && ws[i].format == " %s":
			args = &ws[i]
		case ws[i].konst && ws[i].format == "\n":
			nl = &ws[i]
		}
	}
	pos := c.W.FuncPos(fn)
	// second accepted shape: the whole line is built as one string and returned, once with and
	// once without arguments
	whole := len(ws) > 0
	for _, w := range ws {
		if w.method != "Return" {
			whole = false
		}
	}
	if whole {
		var bare, full dnf
		nBare, nFull, nOther := 0, 0, 0
		for _, w := range ws {
			switch {
			case w.format == "\t%s\n" && len(w.argT) == 1 && w.argT[0] == "$0.Name.Value":
				nBare++
				bare = orDNF(bare, w.cond)
			case w.format == "\t%s %s\n" && len(w.argT) == 2 && w.argT[0] == "$0.Name.Value" && w.argT[1] == `strings.Join($0.Args,", ")`:
				nFull++
				full = orDNF(full, w.cond)
			default:
				nOther++
			}
		}
		has := "(0 < builtin:len($0.Args))"
		c.Check(nBare > 0 && nOther == 0, "render/name", pos, "TAB + command name", "the command line does not start with TAB + Name.Value from a constant format")
		c.Check(nFull > 0 && nOther == 0 && dnfEquiv(full, mkDNF([]string{"+" + has})) && dnfEquiv(bare, mkDNF([]string{"-" + has})), "render/args", pos, "SPACE + arguments joined by ', ' exactly when there are arguments", "arguments are not rendered as \" \" + strings.Join(Args, \", \") through a constant format exactly when len(Args) > 0")
		c.Check(nOther == 0, "render/newline", pos, "line ends with NEWLINE", "a returned line does not have the form TAB name [SPACE args] NEWLINE")
		c.OK("render/order", pos, "name, arguments, newline in that order (one template)")
		c.Check(nOther == 0, "render/nothing-else", pos, "nothing else is rendered", fmt.Sprintf("%d other line forms returned by renderCommandStatement", nOther))
		c10bFormats(c)
		return
	}
	c.Check(name != nil && len(name.argT) == 1 && name.argT[0] == "$0.Name.Value", "render/name", pos, "TAB + command name", "the command line does not start with TAB + Name.Value from a constant format")
	okArgs := args != nil && len(args.argT) == 1 && args.argT[0] == `strings.Join($0.Args,", ")`
	if okArgs {
		d := args.cond
		okArgs = dnfEquiv(d, mkDNF([]string{"+(0 < builtin:len($0.Args))"}))
	}
	c.Check(okArgs, "render/args", pos, "SPACE + arguments joined by ', ' exactly when there are arguments", "arguments are not rendered as \" \" + strings.Join(Args, \", \") through a constant format exactly when len(Args) > 0")
	c.Check(nl != nil, "render/newline", pos, "line ends with NEWLINE", "no terminating newline")
	if name != nil && args != nil && nl != nil {
		c.Check(instrDominates(name.call.(ssa.Instruction), args.call.(ssa.Instruction)) && !canReach(nl.call.(ssa.Instruction), name.call.(ssa.Instruction)) && canReach(args.call.(ssa.Instruction), nl.call.(ssa.Instruction)), "render/order", pos, "name, arguments, newline in that order", "name / arguments / newline are not written in that order")
	}
	c.Check(len(ws) == 3, "render/nothing-else", pos, "exactly three writes", fmt.Sprintf("%d writes in renderCommandStatement, expected 3", len(ws)))
	c10bFormats(c)
}

// no data-dependent format strings anywhere in the emitter
func c10bFormats(c *Ctx) {
	n := 0
	for _, f := range c.W.FuncsOf("emitter") {
		if isTestFunc(c.W, f) {
			continue
		}
		for _, ci := range callsIn(f) {
			nm := calleeName(ci)
			if nm != "fmt.Sprintf" && nm != "fmt.Fprintf" && nm != "fmt.Errorf" && nm != "fmt.Sprint" && nm != "fmt.Fprint" {
				continue
			}
			n++
			fi := 0
			if nm == "fmt.Fprintf" {
				fi = 1
			}
			if nm == "fmt.Sprint" || nm == "fmt.Fprint" {
				continue
			}
			_, isConst := strConst(ci.Common().Args[fi])
			c.Check(isConst, c.W.FuncKey(f)+"/constant-format", c.W.Pos(ci.Pos()), "format string is a constant", "a format string is built from data ("+pretty(c.term(f, ci.Common().Args[fi]))+"): '%' in a command argument would be interpreted as a verb")
			if nm == "fmt.Fprintf" {
				c.Bad(c.W.FuncKey(f)+"/fprintf", c.W.Pos(ci.Pos()), "output written through fmt.Fprintf is not tracked by the write-site rules")
			}
		}
	}
}

func c10c(c *Ctx) {
	fn := c.Fn("emitter.chunk.renderStatements")
	rcs := c.Fn("emitter.renderCommandStatement")
	if fn == nil || rcs == nil {
		return
	}
	calls := callsToIn(fn, rcs)
	ok := len(calls) == 1
	why := fmt.Sprintf("expected one renderCommandStatement call, found %d", len(calls))
	if ok {
		a := c.term(fn, calls[0].Common().Args[0])
		ok = strings.HasPrefix(a, "assert<*ast.CommandStatement>($0.statements[phi(") && strings.Contains(a, "+1])#0")
		why = "renders " + pretty(a) + ", expected every element of c.statements in order"
		written := false
		for _, ws := range c.sitesOf(fn) {
			if ws.arg == calls[0].(ssa.Value) && c.term(fn, ws.sb) == "$1" {
				written = true
			}
		}
		if ok && !written {
			ok = false
			why = "the rendered command is not written to the chunk's builder"
		}
	}
	c.Check(ok, "renderStatements/commands-in-order", c.W.FuncPos(fn), "each command of the chunk is rendered once, in order, into the chunk body", why)
	// the loop has no exit besides the error returns
	early := false
	for _, r := range returnsOf(fn) {
		if isSuccessReturn(r) && isInLoopRegion(r.Block()) {
			early = true
		}
	}
	c.Check(!early, "renderStatements/no-early-success", c.W.FuncPos(fn), "the loop only ends early with an error", "renderStatements can return success before all statements are rendered")
}

// isInLoopRegion: block is dominated by a loop header and can reach it back (inside the loop).
func isInLoopRegion(b *ssa.BasicBlock) bool { return loopHeaders(b.Parent())[b] != nil }

func c10d(c *Ctx) {
	fn := c.Fn("parser.Parser.parseCommandStatement")
	if fn == nil {
		return
	}
	ok := false
	got := ""
	for _, a := range allocsOf(fn, "ast", "Identifier") {
		got = c.fieldAtUse(fn, a, "Value", lastUse(a))
		if got == "$0.curToken.Literal" {
			ok = true
		}
	}
	c.Check(ok, "command-name/verbatim", c.W.FuncPos(fn), "command name = literal of the command token", "command name is "+pretty(got)+", expected the token literal without constant substitution")
}

// ---- C11 -----------------------------------------------------------------------------------

func c11a(c *Ctx) {
	if fn := c.Fn("parser.Parser.peekTokenIsAutoVar"); fn != nil {
		okF, okT := false, false
		for _, r := range returnsOf(fn) {
			v := c.term(fn, r.Results[0])
			must := c.mustLits(fn, r.Block())
			if v == "false" && hasLit(must, `-($0.peekToken.Type == "IDENT")`) {
				okF = true
			}
			if v == "$0.commandConfig.AutoVarCommands[$0.peekToken.Literal]#1" && hasLit(must, `+($0.peekToken.Type == "IDENT")`) {
				okT = true
			}
		}
		c.Check(okF && okT, "peekTokenIsAutoVar/definition", c.W.FuncPos(fn), "AutoVar = identifier configured in autovar_commands", "peekTokenIsAutoVar is not (next token is IDENT and its literal is a configured auto-var command)")
	}
	fn := c.Fn("parser.Parser.expectPeekVarOrAutoVar")
	pcs := c.Fn("parser.Parser.parseCommandStatement")
	if fn == nil || pcs == nil {
		return
	}
	calls := callsToIn(fn, pcs)
	c.Check(len(calls) == 1 && hasLit(c.mustLits(fn, calls[0].Block()), "+$0.commandConfig.AutoVarCommands[$0.peekToken.Literal]#1"), "autovar/parsed-as-command", c.W.FuncPos(fn), "the AutoVar command is parsed by the ordinary command parser, after the config lookup of its name succeeded", "the AutoVar command is not parsed with parseCommandStatement under the successful config lookup")
	cfg := "$0.commandConfig.AutoVarCommands[$0.peekToken.Literal]#0"
	n := 0
	for _, r := range returnsOf(fn) {
		if !c.isSuccessRet(fn, r) || c.term(fn, r.Results[0]) == "nil" {
			continue
		}
		n++
		pos := c.W.Pos(r.Pos())
		// content of *varName at the return
		a, isAlloc := r.Results[0].(*ssa.Alloc)
		if !isAlloc {
			c.Bad("autovar/result-var", pos, "result var is not a fresh string")
			continue
		}
		t := c.T(fn)
		m := t.MemBefore(r)
		content := t.lookup("*("+t.Term(a)+")", m)
		// expected: merge of cfg.VarName (no position) and Args[*pos] (position configured, in bounds)
		var stores []*ssa.Store
		for _, ref := range *a.Referrers() {
			if st, ok := ref.(*ssa.Store); ok && st.Addr == ssa.Value(a) {
				stores = append(stores, st)
			}
		}
		okName, okArg := false, false
		extra := ""
		for _, st := range stores {
			v := c.term(fn, st.Val)
			must := c.mustLits(fn, st.Block())
			switch {
			case v == cfg+".VarName":
				okName = true
			case regexpMust(`![A-Za-z0-9@_]+`).ReplaceAllString(v, "") == "(*parser.Parser).parseCommandStatement@0#0.Args[*("+cfg+".VarNameArgPosition)]":
				inBounds := containsPrefix(must, "-(builtin:len((*parser.Parser).parseCommandStatement@0#0.Args)-1 < *(") && hasLit(must, "-("+cfg+".VarNameArgPosition == nil)")
				okArg = inBounds
				if !inBounds {
					extra = "argument position used without the bounds / nil test"
				}
			default:
				extra = "result var is also set to " + pretty(v)
			}
		}
		c.Check(okName && okArg && extra == "", "autovar/result-var", pos, "result var = configured var name, or the argument at the configured position (bounds-checked), verbatim", "result var is "+pretty(content)+"; "+extra+" (expected cfg.VarName or Args[*cfg.VarNameArgPosition] unchanged)")
		c.Check(c.term(fn, r.Results[1]) == "(*parser.Parser).parseCommandStatement@0#0" && c.term(fn, r.Results[2]) == "(*parser.Parser).parseCommandStatement@0#1", "autovar/returns-command-and-data", pos, "returns the parsed command and its inline data", "does not return the parsed command and its inline data")
	}
	c.Check(n == 1, "autovar/success-return", c.W.FuncPos(fn), "one AutoVar success return", fmt.Sprintf("found %d", n))
}

func c11b(c *Ctx) {
	res := "(*parser.Parser).expectPeekVarOrAutoVar@0"
	if fn := c.Fn("parser.Parser.parseLeafBooleanExpression"); fn != nil {
		oes := allocsOf(fn, "ast", "OperatorExpression")
		if len(oes) == 1 {
			var pre, operand *ssa.Store
			for _, st := range storesToField(fn, "ast", "OperatorExpression", "PreambleStatement") {
				pre = st
			}
			for _, st := range storesToField(fn, "ast", "OperatorExpression", "Operand") {
				if hasLit(c.mustLits(fn, st.Block()), "+(*parser.Parser).peekTokenIsAutoVar($0)@0") {
					operand = st
				}
			}
			okPre := pre != nil && c.term(fn, pre.Val) == res+"#1" && hasLit(c.mustLits(fn, pre.Block()), "+(*parser.Parser).peekTokenIsAutoVar($0)@0")
			// exactly when the leaf compares the command's result: the command is attached on every
			// path on which its result var becomes the operand (under a '!' as well)
			if okPre && operand != nil {
				pc := c.PC(fn)
				dp, do := pc.canonOf(pc.At(pre.Block())), pc.canonOf(pc.At(operand.Block()))
				if !dnfEquiv(dp, do) {
					okPre = false
					c.Bad("leaf/preamble-iff-operand", c.W.Pos(pre.Pos()), "the AutoVar command is attached under ["+dp.String()+"] but its result var becomes the operand under ["+do.String()+"]: on the difference the leaf compares a result that was never produced")
				} else {
					c.OK("leaf/preamble-iff-operand", c.W.Pos(pre.Pos()), "the command is attached exactly when its result var is the operand")
				}
			}
			c.Check(okPre, "leaf/preamble", c.W.FuncPos(fn), "AutoVar leaf carries the parsed command as preamble", "the AutoVar command is not stored as the leaf's PreambleStatement")
			okOp := false
			got := ""
			if operand != nil {
				got = c.term(fn, operand.Val)
				_, f := c.valueWith(fn, operand.Val)
				okOp = f != nil && f["Literal"] == "*("+res+"#0)" && f["Type"] == `"IDENT"`
			}
			c.Check(okOp, "leaf/operand-is-result-var", c.W.FuncPos(fn), "the leaf compares the command's result var", "AutoVar leaf operand is "+pretty(got)+", expected a token whose literal is the returned result var")
		} else {
			c.Bad("leaf/node", c.W.FuncPos(fn), "expected one OperatorExpression allocation")
		}
	}
	if fn := c.Fn("parser.Parser.parseSwitchStatement"); fn != nil {
		ok := false
		got := ""
		for _, st := range storesToField(fn, "ast", "SwitchStatement", "Operand") {
			v := c.term(fn, st.Val)
			base, f := c.valueWith(fn, st.Val)
			if f != nil && (strings.Contains(base, res+"#1.Token") || strings.Contains(v, res+"#1.Token")) {
				got = v
				ok = f["Literal"] == "*("+res+"#0)"
			}
		}
		c.Check(ok, "switch/operand-is-result-var", c.W.FuncPos(fn), "an AutoVar switch compares the command's result var", "AutoVar switch operand is "+pretty(got))
		okRet := false
		for i, r := range returnsOf(fn) {
			if c.isSuccessRet(fn, r) && c.term(fn, r.Results[1]) == res+"#1" {
				okRet = true
			}
			// ... on every successful way out (a second return that hands back no preamble drops
			// the command, and with it its side effect on the game)
			if c.isSuccessRet(fn, r) {
				c.Check(c.term(fn, r.Results[1]) == res+"#1", fmt.Sprintf("switch/returns-preamble#%d", i), c.W.Pos(r.Pos()), "this successful return hands the command back as preamble", "parseSwitchStatement can return successfully with "+pretty(c.term(fn, r.Results[1]))+" as preamble instead of the AutoVar command it parsed: the command would not be emitted")
			}
		}
		c.Check(okRet, "switch/returns-preamble", c.W.FuncPos(fn), "the switch parser hands the command back as preamble", "parseSwitchStatement does not return the AutoVar command as preamble")
	}
	if fn := c.Fn("parser.Parser.parseStatement"); fn != nil {
		// statements = append(statements, preamble) then append(.., switch statement), nothing between
		var preApp, stmtApp *ssa.Call
		instrs(fn, func(in ssa.Instruction) {
			call, ok := in.(*ssa.Call)
			if !ok || calleeName(call) != "builtin:append" {
				return
			}
			es := varargElems(call.Call.Args[1])
			if len(es) != 1 {
				return
			}
			// the element may be a merge of the statements of several arms (one shared append)
			var els []ssa.Value
			phiLeaves(es[0], map[ssa.Value]bool{}, &els)
			for _, el := range els {
				et := c.term(fn, unwrapIface(el))
				if et == "(*parser.Parser).parseSwitchStatement@0#1" {
					preApp = call
				}
				if et == "(*parser.Parser).parseSwitchStatement@0#0" {
					stmtApp = call
				}
			}
		})
		ok := preApp != nil && stmtApp != nil
		if ok {
			// the switch append extends the list that may already hold the preamble
			var leaves []ssa.Value
			phiLeaves(stmtApp.Call.Args[0], map[ssa.Value]bool{}, &leaves)
			has := false
			for _, lf := range leaves {
				if lf == ssa.Value(preApp) {
					has = true
				}
			}
			ok = has && hasLit(c.mustLits(fn, preApp.Block()), "-((*parser.Parser).parseSwitchStatement@0#1 == nil)")
		}
		c.Check(ok, "switch/preamble-immediately-before", c.W.FuncPos(fn), "the preamble command is appended right before the switch statement", "the AutoVar preamble is not appended to the block immediately before its switch statement")
	}
}

func c11c(c *Ctx) {
	fn := c.Fn("emitter.leafExpressionBranch.renderBranchConditions")
	rcs := c.Fn("emitter.renderCommandStatement")
	rbc := c.Fn("emitter.renderBranchComparison")
	if fn == nil || rcs == nil || rbc == nil {
		return
	}
	pre := callsToIn(fn, rcs)
	cmp := callsToIn(fn, rbc)
	ok := len(pre) == 1 && len(cmp) == 1
	why := fmt.Sprintf("expected one preamble render and one comparison render, found %d and %d", len(pre), len(cmp))
	if ok {
		d := c.PC(fn).At(pre[0].Block())
		written := false
		for _, ws := range c.sitesOf(fn) {
			if ws.arg == pre[0].(ssa.Value) && c.term(fn, ws.sb) == "$1" {
				written = true
			}
		}
		ok = c.term(fn, pre[0].Common().Args[0]) == "$0.preambleStatement" && dnfEquiv(d, mkDNF([]string{"-($0.preambleStatement == nil)"})) && written &&
			!canReach(cmp[0].(ssa.Instruction), pre[0].(ssa.Instruction)) && canReach(pre[0].(ssa.Instruction), cmp[0].(ssa.Instruction)) && !isInLoopRegion(pre[0].Block())
		why = "the preamble is not rendered with renderCommandStatement exactly once, exactly when present, before the comparison"
		// the comparison is unconditional
		dc := c.PC(fn).At(cmp[0].Block())
		if ok && !dnfEquiv(dc, mkDNF([]string{})) {
			ok = false
			why = "the comparison is rendered conditionally"
		}
	}
	c.Check(ok, "leaf/preamble-then-comparison", c.W.FuncPos(fn), "preamble (iff present) rendered once with the ordinary command renderer, then the comparison", why)
	c.Check(len(cmp) == 1 && c.term(fn, cmp[0].Common().Args[1]) == "$0.truthyDest", "leaf/comparison-uses-own-dest", c.W.FuncPos(fn), "the comparison is rendered for this leaf's destination", "the comparison is not rendered for l.truthyDest")
}

// c10e: in the three block parsers every iteration of the statement loop goes through the
// statement parser and appends what it returned to the block's statement list; there is no
// path on which tokens are consumed but no statement is recorded.
func c10e(c *Ctx) {
	ps := c.Fn("parser.Parser.parseStatement")
	pps := c.Fn("parser.Parser.parsePoryswitchStatement")
	if ps == nil || pps == nil {
		return
	}
	// the file level: every statement the top-level parser returns is kept — exactly the non-nil
	// ones (const and text statements are kept elsewhere and come back as nil); every explicit
	// text statement becomes a program text
	if pp, top := c.Fn("parser.Parser.ParseProgram"), c.Fn("parser.Parser.parseTopLevelStatement"); pp != nil && top != nil {
		for _, call := range callsToIn(pp, top) {
			var kept []feed
			for _, st := range fieldFeeds(pp, "ast", "Program", "TopLevelStatements") {
				for _, e := range appendElems(st.val) {
					if derivedFrom(e, call.(ssa.Value), 0) {
						kept = append(kept, st)
					}
				}
			}
			ok := len(kept) == 1
			why := fmt.Sprintf("expected one append of the parsed statement to TopLevelStatements, found %d", len(kept))
			if ok {
				rel := c.guardsBeyondErrors(pp, kept[0].Block())
				base := c.guardsBeyondErrors(pp, call.Block())
				res := c.term(pp, appendElems(kept[0].val)[0])
				want := dnfAndLit(base, "-("+res+" == nil)")
				ok = dnfEquiv(rel, want)
				why = "a parsed top-level statement is kept under [" + rel.String() + "], expected exactly when it is not nil [" + want.String() + "]: statements would be dropped depending on what they contain"
			}
			c.Check(ok, "ParseProgram/top-level-kept", c.W.Pos(call.Pos()), "every non-nil top-level statement is appended to the program", why)
		}
		nText := 0
		for _, st := range fieldFeeds(pp, "ast", "Program", "Texts") {
			if loopHeaders(pp)[st.Block()] == nil {
				continue
			}
			nText++
			w, skip := loopSkip(pp, st.at)
			c.Check(!skip, "ParseProgram/every-text-statement-kept", c.W.Pos(st.Pos()), "every explicit text statement becomes a program text", "some text statements do not become program texts (an iteration can reach "+c.nearPos(w)+" without the append): a label that commands refer to would not be defined")
		}
		c.Check(nText == 1, "ParseProgram/text-statements-loop", c.W.FuncPos(pp), "one loop turns the explicit text statements into program texts", fmt.Sprintf("found %d appends of explicit text statements to program.Texts, expected 1", nText))
	}
	// every text statement that is parsed is registered: no successful return of the text
	// statement parser is reached without the statement having been put on the parser's list (an
	// empty text, a text parsed in lint mode … is a text: its label is referred to, and its name
	// takes part in the clash checks)
	if pts := c.Fn("parser.Parser.parseTextStatement"); pts != nil {
		var regs []ssa.Instruction
		for _, st := range storesToField(pts, "parser", "Parser", "textStatements") {
			regs = append(regs, st)
		}
		isReg := func(in ssa.Instruction) bool {
			for _, r := range regs {
				if r == in {
					return true
				}
			}
			return false
		}
		w, skip := existsPath(pathQuery{from: entry(pts), avoid: isReg, edgeOK: notErrorEdge, target: func(in ssa.Instruction) bool {
			r, ok := in.(*ssa.Return)
			return ok && isSuccessReturn(r)
		}})
		why := ""
		if skip {
			why = "parseTextStatement can return successfully (" + c.nearPos(w) + ") without having registered the text statement: the text is never emitted (its label stays undefined) and its name is not checked for clashes"
		}
		c.Check(len(regs) > 0 && !skip, "parseTextStatement/every-text-registered", c.W.FuncPos(pts), "every parsed text statement is put on the parser's list", why)
	}
	// what parseStatement parsed goes into its result once, and whenever it was parsed: an append of
	// a parse result stands under token-kind tests, error tests and "the result is not nil" only,
	// and no way leads from one append of a result to a second append of the same result
	{
		type app struct {
			call *ssa.Call
			src  ssa.Value
		}
		var apps []app
		for _, ci := range callsIn(ps) {
			call, ok := ci.(*ssa.Call)
			if !ok || calleeName(call) != "builtin:append" || len(call.Call.Args) != 2 {
				continue
			}
			var srcs []ssa.Value
			if es := varargElems(call.Call.Args[1]); len(es) > 0 {
				srcs = es
			} else {
				srcs = []ssa.Value{call.Call.Args[1]}
			}
			for _, e := range srcs {
				var leaves []ssa.Value
				phiLeaves(e, map[ssa.Value]bool{}, &leaves)
				for _, lf := range leaves {
					v := unwrapIface(lf)
					if ex, isEx := v.(*ssa.Extract); isEx {
						v = ex
					}
					if _, isCall := unExtract(v).(*ssa.Call); isCall {
						apps = append(apps, app{call, v})
					}
				}
			}
		}
		base := map[string]bool{}
		for _, l := range c.mustLits(ps, ps.Blocks[0]) {
			base[l] = true
		}
		for i, a := range apps {
			var extra []string
			vt := c.term(ps, a.src)
			for _, l := range c.mustLits(ps, a.call.Block()) {
				l2 := verRe.ReplaceAllString(l, "")
				if base[l] || tokenTypeLitRe.MatchString(l2) || errLitRe.MatchString(l2) || l2 == "-("+vt+" == nil)" || strings.HasSuffix(l2, " == nil)") || strings.HasSuffix(l2, " != nil)") {
					continue
				}
				extra = append(extra, l)
			}
			c.Check(len(extra) == 0, fmt.Sprintf("parseStatement/result-kept-whenever-parsed#%d", i), c.W.Pos(a.call.Pos()), "the parse result is appended under token-kind, error and nil tests only", fmt.Sprintf("the result %s is put into the statement list only under the further condition(s) %v: in the other cases the statement (an AutoVar command in front of its switch, say) is parsed and dropped", pretty(vt), prettyAll(extra)))
			for j, b := range apps {
				if i == j || a.src != b.src || a.call == b.call {
					continue
				}
				if _, again := existsPath(pathQuery{from: after(a.call), target: func(x ssa.Instruction) bool { return x == ssa.Instruction(b.call) }}); again {
					c.Bad(fmt.Sprintf("parseStatement/result-appended-once#%d", i), c.W.Pos(b.call.Pos()), "the result "+pretty(vt)+" is appended to the statement list a second time: the statement would be emitted (and run) twice")
				}
			}
		}
		c.Check(len(apps) >= 8, "parseStatement/results", c.W.FuncPos(ps), fmt.Sprintf("%d appends of parse results", len(apps)), fmt.Sprintf("only %d appends of parse results found in parseStatement", len(apps)))
	}
	// each statement keyword has its parser: whatever follows the keyword, a token of that kind is
	// handed to the parser of that statement and to no other (a `break(` treated as a command is
	// not rejected outside a loop)
	{
		own := map[string]string{"BREAK": "parseBreakStatement", "CONTINUE": "parseContinueStatement", "IF": "parseIfStatement", "WHILE": "parseWhileStatement", "DO": "parseDoWhileStatement", "SWITCH": "parseSwitchStatement", "PORYSWITCH": "parsePoryswitchStatement"}
		n := 0
		for _, ci := range callsIn(ps) {
			g := callee(ci)
			if g == nil || !c.W.InRepo(g) || c.W.PkgShort(g) != "parser" || g.Signature.Recv() == nil || (c.T(ps).purity(g) >= purReadOnly && !strings.HasPrefix(g.Name(), "parse")) {
				continue
			}
			for _, l := range c.mustLits(ps, ci.Block()) {
				l = verRe.ReplaceAllString(l, "")
				for k, want := range own {
					if l == `+($0.curToken.Type == "`+k+`")` {
						n++
						c.Check(g.Name() == want, fmt.Sprintf("parseStatement/keyword-has-its-parser/%s@%d", k, c.T(ps).callOrd[ci]), c.W.Pos(ci.Pos()), k+" is parsed by "+want, "a "+k+" token is handed to "+g.Name()+" instead of "+want+": the checks that statement parser makes (scope, position in the block) are skipped")
					}
				}
			}
		}
		c.Check(n >= 7, "parseStatement/keyword-has-its-parser", c.W.FuncPos(ps), fmt.Sprintf("%d keyword arms", n), fmt.Sprintf("only %d keyword arms found in parseStatement", n))
	}
	ctorCallOK := map[ssa.CallInstruction]bool{}
	for _, name := range []string{"parser.Parser.parseBlockStatement", "parser.Parser.parseSwitchBlockStatement", "parser.Parser.parsePoryswitchStatements"} {
		fn := c.Fn(name)
		if fn == nil {
			continue
		}
		var head *ssa.BasicBlock
		for _, b := range fn.Blocks {
			if isLoopHeader(b) {
				head = b
			}
		}
		if head == nil {
			c.Bad(fn.Name()+"/loop", c.W.FuncPos(fn), "no statement loop found")
			continue
		}
		// appends of a parse result to the statement list
		isAppend := func(in ssa.Instruction) bool {
			call, ok := in.(*ssa.Call)
			if !ok || calleeName(call) != "builtin:append" || len(call.Call.Args) < 2 {
				return false
			}
			// the appended list is a parse result, or a merge of parse results (one shared append
			// after `if poryswitch { stmts, … = parsePoryswitchStatement() } else { … = parseStatement() }`)
			var leaves []ssa.Value
			phiLeaves(call.Call.Args[1], map[ssa.Value]bool{}, &leaves)
			if len(leaves) == 0 {
				return false
			}
			for _, lf := range leaves {
				t := c.term(fn, lf)
				if !((strings.HasPrefix(t, "(*parser.Parser).parseStatement@") || strings.HasPrefix(t, "(*parser.Parser).parsePoryswitchStatement@")) && strings.HasSuffix(t, "#0")) {
					return false
				}
			}
			return true
		}
		first := head.Instrs[0]
		_, skip := existsPath(pathQuery{from: point{head, len(head.Instrs) - 1}, avoid: isAppend, edgeOK: notErrorEdge, target: func(in ssa.Instruction) bool { return in == first }})
		// ... once: no way from one append of the parsed statement(s) to another in the same turn
		{
			twice := false
			for _, b := range fn.Blocks {
				for _, in := range b.Instrs {
					if !isAppend(in) {
						continue
					}
					if _, again := existsPath(pathQuery{from: after(in), target: isAppend, stopAt: func(x ssa.Instruction) bool { return x == first }}); again {
						twice = true
					}
				}
			}
			c.Check(!twice, fn.Name()+"/statement-recorded-once", c.W.Pos(firstPos(head)), "a parsed statement is appended once", "a turn of the statement loop can append what it parsed twice: the statement would be emitted (and run) twice")
		}
		c.Check(!skip, fn.Name()+"/every-iteration-records-a-statement", c.W.Pos(firstPos(head)), "every iteration appends the parsed statement(s) to the block", "an iteration of the statement loop can complete without appending a parsed statement to the block (a statement would be silently dropped)")
		// the appended list is what the block holds / the function returns
		stored := false
		for _, st := range storesToField(fn, "ast", "BlockStatement", "Statements") {
			if call, ok := st.Val.(*ssa.Call); ok && isAppend(call) {
				stored = true
			}
		}
		for _, r := range returnsOf(fn) {
			var leaves []ssa.Value
			if len(r.Results) > 0 {
				phiLeaves(r.Results[0], map[ssa.Value]bool{}, &leaves)
			}
			for _, lf := range leaves {
				if call, ok := lf.(*ssa.Call); ok && isAppend(call) {
					stored = true
				}
			}
		}
		// (a list gathered in a local: every value it can hold is the empty list or such an append)
		accOK := func(v ssa.Value) bool {
			var leaves []ssa.Value
			phiLeaves(v, map[ssa.Value]bool{}, &leaves)
			nApp := 0
			for _, lf := range leaves {
				if call, ok := lf.(*ssa.Call); ok && isAppend(call) {
					nApp++
					continue
				}
				if !emptyListValue(lf) {
					return false
				}
			}
			return nApp > 0
		}
		// ... or handed to a constructor that puts its parameter into the block it makes
		for _, ci := range callsIn(fn) {
			g := callee(ci)
			k := blockCtorParam(c, g)
			if k < 0 || k >= len(ci.Common().Args) {
				continue
			}
			okArg := accOK(ci.Common().Args[k])
			ctorCallOK[ci] = okArg
			if okArg {
				stored = true
			}
		}
		c.Check(stored, fn.Name()+"/appended-list-is-kept", c.W.FuncPos(fn), "the extended list is stored in the block / returned", "the list extended with the parsed statements is not the one kept")
		// ... and nothing else ever is: every store to the block's list is the empty list it
		// starts with or such an append (no pass that rewrites the list afterwards)
		for i, st := range storesToField(fn, "ast", "BlockStatement", "Statements") {
			okSt := false
			if call, ok := st.Val.(*ssa.Call); ok && isAppend(call) {
				okSt = true
			} else if emptyListValue(st.Val) || accOK(st.Val) {
				okSt = true
			}
			c.Check(okSt, fmt.Sprintf("%s/block-list-only-grows-by-parsed-statements#%d", fn.Name(), i), c.W.Pos(st.Pos()), "the block's list is set to the empty list or extended by parsed statements", "the block's statement list is set to "+pretty(c.term(fn, st.Val))+": it must be exactly the statements parsed, in order (a pass that rewrites the list can drop labels and statements that are reachable through a goto)")
		}
	}
	// no other function of the parser stores a block's list
	blockFns := map[string]bool{"parseBlockStatement": true, "parseSwitchBlockStatement": true, "parsePoryswitchStatements": true}
	for _, g := range c.W.FuncsOf("parser") {
		if isTestFunc(c.W, g) || blockFns[g.Name()] {
			continue
		}
		for i, st := range storesToField(g, "ast", "BlockStatement", "Statements") {
			if emptyListValue(st.Val) {
				continue
			}
			// a constructor: what it stores is what each block parser hands it, judged there
			if k := blockCtorParam(c, g); k >= 0 {
				calls := c.W.callsTo(g)
				okAll := len(calls) > 0
				for _, ci := range calls {
					if isTestFunc(c.W, ci.Parent()) {
						continue
					}
					if v, seen := ctorCallOK[ci]; !seen || !v {
						okAll = false
					}
				}
				if okAll {
					c.OK(fmt.Sprintf("%s/block-list-stored-elsewhere#%d", g.Name(), i), c.W.Pos(st.Pos()), g.Name()+" stores the list every block parser hands it (judged at the calls)")
					continue
				}
			}
			c.Bad(fmt.Sprintf("%s/block-list-stored-elsewhere#%d", g.Name(), i), c.W.Pos(st.Pos()), g.Name()+" sets a block's statement list to "+pretty(c.term(g, st.Val))+": the list is built by the block parsers from the statements parsed and by nobody else")
		}
	}
}

// emptyListValue: nil, make(T, 0…) or an empty slice literal.
func emptyListValue(v ssa.Value) bool {
	switch x := v.(type) {
	case *ssa.Const:
		return x.IsNil()
	case *ssa.MakeSlice:
		k, ok := x.Len.(*ssa.Const)
		return ok && k.Int64() == 0
	case *ssa.Slice:
		a, ok := x.X.(*ssa.Alloc)
		if !ok {
			return false
		}
		arr, isArr := a.Type().Underlying().(*types.Pointer).Elem().Underlying().(*types.Array)
		return isArr && arr.Len() == 0
	}
	return false
}

// stripLit removes literal l from every conjunction of d; false when some conjunction lacks it.
func stripLit(d dnf, l string) (dnf, bool) {
	if d.unknown {
		return d, false
	}
	out := dnf{}
	for _, cj := range d.cs {
		var n conj
		found := false
		for _, x := range cj {
			if x == l {
				found = true
			} else {
				n = append(n, x)
			}
		}
		if !found {
			return d, false
		}
		out.cs = append(out.cs, n)
	}
	out.cs = simplify(out.cs)
	return out, true
}

func unExtract(v ssa.Value) ssa.Value {
	if ex, ok := v.(*ssa.Extract); ok {
		return ex.Tuple
	}
	return v
}

// builtText: an ast.Text value appended to a list in fn, with its fields in fn's terms (the
// value may be a composite literal or the result of a constructor helper).
type builtText struct {
	f   map[string]string
	pos string
}

func (c *Ctx) builtTexts(fn *ssa.Function) []builtText {
	var out []builtText
	for _, ci := range callsIn(fn) {
		call, ok := ci.(*ssa.Call)
		if !ok || calleeName(call) != "builtin:append" || len(call.Call.Args) < 2 {
			continue
		}
		for _, e := range varargElems(call.Call.Args[1]) {
			if !typeIs(e.Type(), "ast", "Text") {
				continue
			}
			var f map[string]string
			pos := c.W.Pos(call.Pos())
			if ld, isLd := e.(*ssa.UnOp); isLd {
				if a, isA := ld.X.(*ssa.Alloc); isA {
					f = c.valueFields(fn, a, ld)
					pos = c.W.Pos(a.Pos())
				}
			}
			if f == nil {
				f = c.valueFields(fn, e, call)
			}
			if f != nil {
				out = append(out, builtText{f, pos})
			}
		}
	}
	return out
}

// blockCtorParam: g is a constructor of block statements — the only thing it ever stores into a
// block's statement list is one of its own parameters; the index of that parameter, else -1.
func blockCtorParam(c *Ctx, g *ssa.Function) int {
	if g == nil || !c.W.InRepo(g) || len(g.Blocks) == 0 {
		return -1
	}
	idx := -1
	for _, st := range storesToField(g, "ast", "BlockStatement", "Statements") {
		if emptyListValue(st.Val) {
			continue
		}
		par, ok := st.Val.(*ssa.Parameter)
		if !ok {
			return -1
		}
		if _, own := rootValue(st.Addr).(*ssa.Alloc); !own {
			return -1
		}
		k := -1
		for i, p := range g.Params {
			if p == par {
				k = i
			}
		}
		if k < 0 || (idx >= 0 && idx != k) {
			return -1
		}
		idx = k
	}
	return idx
}

// c10aParenArms: the nesting depth of the argument loop goes up at every '(' and down at every
// ')' — the arm that moves it is chosen by the kind of the current token (and, for ')', by the
// depth itself) and by nothing else. A '(' that is handled as ordinary text under some further
// condition leaves the depth one short, and the argument list ends at an inner ')'.
func c10aParenArms(c *Ctx) {
	fn := c.Fn("parser.Parser.parseCommandStatement")
	if fn == nil {
		return
	}
	// the same for the comma: every comma closes the argument that is being collected — inside
	// nested parentheses too (the pieces between two commas are joined with one blank, the
	// arguments with ", ": a comma that is kept as a piece comes out as " , "). The join of the
	// pieces inside the loop stands under the kind of the current token and nothing else.
	{
		nJoin := 0
		for _, ci := range callsIn(fn) {
			if calleeName(ci) != "strings.Join" || loopHeaders(fn)[ci.Block()] == nil {
				continue
			}
			nJoin++
			var extra []string
			for _, l := range c.mustLits(fn, ci.Block()) {
				if strings.Contains(l, `.Type == "`) {
					continue
				}
				extra = append(extra, l)
			}
			c.Check(len(extra) == 0, fmt.Sprintf("arg-loop/every-comma-closes-the-argument#%d", nJoin), c.W.Pos(ci.Pos()), "the argument is closed under the kind of the current token alone", fmt.Sprintf("the argument is closed at a comma only under the further condition(s) %v: a comma for which they fail is kept as a piece of the argument and comes out with blanks around it", prettyAll(extra)))
		}
		c.Check(nJoin >= 1, "arg-loop/every-comma-closes-the-argument", c.W.FuncPos(fn), fmt.Sprintf("%d joins of argument pieces inside the loop", nJoin), "cannot find where the argument loop closes an argument at a comma")
	}
	n := 0
	instrs(fn, func(in ssa.Instruction) {
		bo, ok := in.(*ssa.BinOp)
		if !ok || (bo.Op.String() != "+" && bo.Op.String() != "-") {
			return
		}
		if k, isC := intConst(bo.Y); !isC || k != 1 {
			return
		}
		ph, isPhi := bo.X.(*ssa.Phi)
		if !isPhi || !isLoopHeader(ph.Block()) {
			return
		}
		if b, isB := ph.Type().Underlying().(*types.Basic); !isB || b.Kind() != types.Int {
			return
		}
		// a counter that is compared with zero in the loop: the depth
		pt := c.term(fn, ph)
		h := ph.Block()
		if !loopBody(h)[bo.Block()] {
			return
		}
		n++
		base := map[string]bool{}
		for _, sc := range h.Succs {
			if loopBody(h)[sc] {
				for _, l := range c.mustLits(fn, sc) {
					base[verRe.ReplaceAllString(l, "")] = true
				}
			}
		}
		var extra []string
		for _, l := range c.mustLits(fn, bo.Block()) {
			l2 := verRe.ReplaceAllString(l, "")
			if base[l2] || tokenTypeLitRe.MatchString(l2) || errLitRe.MatchString(l2) || strings.Contains(l2, verRe.ReplaceAllString(pt, "")) {
				continue
			}
			extra = append(extra, l)
		}
		// ... not even as one of several alternatives: with the token-kind tests (and, for the
		// way down, the depth tests) set aside, the condition of the update is simply true
		if len(extra) == 0 {
			d := c.PC(fn).At(bo.Block())
			isUp := bo.Op.String() == "+"
			ptn := verRe.ReplaceAllString(pt, "")
			d = dropAtoms(d, func(a string) bool {
				a2 := verRe.ReplaceAllString(a, "")
				if base["+"+a2] || base["-"+a2] {
					return true
				}
				if regexpMust(`^\(\$0\.curToken\.Type == "[^"]*"\)$`).MatchString(a2) || strings.HasSuffix(a2, " == nil)") {
					return true
				}
				if !isUp && strings.Contains(a2, ptn) {
					return true
				}
				return false
			})
			isTrue := false
			for _, cj := range d.cs {
				if len(cj) == 0 {
					isTrue = true
				}
			}
			if !isTrue && !d.unknown {
				extra = append(extra, d.String())
			}
		}
		c.Check(len(extra) == 0, fmt.Sprintf("arg-loop/depth-moves-for-every-paren#%d", n), c.W.Pos(bo.Pos()), "the depth moves under the kind of the current token (and the depth) alone", fmt.Sprintf("the nesting depth is changed only under the further condition(s) %v: a parenthesis for which they fail is not counted, and the argument list ends (or fails to end) at the wrong ')'", prettyAll(extra)))
	})
	c.Check(n >= 2, "arg-loop/depth-moves-for-every-paren", c.W.FuncPos(fn), fmt.Sprintf("%d depth updates", n), fmt.Sprintf("only %d depth updates found in the argument loop", n))
}
