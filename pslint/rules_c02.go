package main

// C02 — conditions branch on the value of the written boolean expression.

import (
	"os"
	"regexp"
	"fmt"
	"sort"
	"strings"

	"golang.org/x/tools/go/ssa"
)

func init() {
	property("C02",
		"Static conformance of the condition mechanism: (a) the operator negation table is the De Morgan / comparison-complement table and an involution; (b) var comparisons render goto_if_<cc> for exactly the accepted operator set, closed under negation, with compare vs compare_var_to_value chosen by the value() marker; (c) flag / defeated comparisons branch on 'set' exactly for (==,TRUE) or (!=,FALSE); (d) the leaf defaults stored by the parser for bare, negated and explicit forms; (e) the short-circuit wiring of leaf / && / || chunks (value-origin templates); (f) binary operators stored in the AST are && or || (or their negation) of the token that was tested; (g) the precedence shape: the right operand of && is a single operand, continuation goes through the right-side parser, and the right-side parser is only entered when more than one operand is allowed; (h) negation is distributed to every sub-expression, leaf and operator exactly under the negated flag. Guards of the negation clauses are compared by equivalence, not membership (C02.h, C02.f); chunk fields are written only under construction (C02.i).",
		[]string{"oracle: README operator semantics and the goto_if_* mnemonics of the decomp script macros", "scheme argument of DESIGN §4 C02; the recursive descent as a whole accepting exactly the documented grammar is not decided"},
		"C02.a", "C02.b", "C02.c", "C02.d", "C02.e", "C02.f", "C02.g", "C02.h", "C02.i", "C01.f", "C01.e", "C01.h", "C10.g", "C18.m", "C19.d", "C18.d", "C18.n", "C10.a", "C19.b", "C19.e", "C05.a")

	register(&Rule{ID: "C02.a", Doc: "negation table of boolean/comparison operators", Floor: 9, Run: c02a})
	register(&Rule{ID: "C02.b", Doc: "var comparison rendering table and compare mnemonic; operator domain closure", Floor: 9, Run: c02b})
	register(&Rule{ID: "C02.c", Doc: "flag/defeated truth tables and comparison dispatch", Floor: 8, Run: c02c})
	register(&Rule{ID: "C02.d", Doc: "leaf defaults (bare, negated, explicit operator, value())", Floor: 12, Run: c02d})
	register(&Rule{ID: "C02.e", Doc: "short-circuit wiring of leaf / && / || chunks", Floor: 14, Run: c02e})
	register(&Rule{ID: "C02.f", Doc: "binary operator stored is the tested &&/|| token (negated under the flag)", Floor: 3, Run: c02f})
	register(&Rule{ID: "C02.g", Doc: "precedence shape of the recursive descent", Floor: 5, Run: c02g})
	register(&Rule{ID: "C02.h", Doc: "De Morgan distribution of the negated flag", Floor: 6, Run: c02h})
	register(&Rule{ID: "C02.i", Doc: "branch objects are immutable after construction", Floor: 6, Run: c02i})
}

// constReturnTable: for a function whose returns are constants (or its parameter) guarded
// by `param == const` tests, build map tested-constant -> returned value ("$0" = identity).
func (c *Ctx) constReturnTable(fn *ssa.Function) (map[string]string, string) {
	table := map[string]string{}
	deflt := ""
	for _, r := range returnsOf(fn) {
		v := c.term(fn, r.Results[0])
		if s, ok := strConst(r.Results[0]); ok {
			v = s
		}
		var pos []string
		for _, l := range c.mustLits(fn, r.Block()) {
			if strings.HasPrefix(l, `+($0 == "`) {
				pos = append(pos, strings.TrimSuffix(strings.TrimPrefix(l, `+($0 == "`), `")`))
			}
		}
		if len(pos) == 1 {
			table[pos[0]] = v
		} else if len(pos) == 0 {
			deflt = v
		}
	}
	return table, deflt
}

func c02a(c *Ctx) {
	fn := c.Fn("parser.getNegatedBooleanOperator")
	if fn == nil {
		return
	}
	table, deflt := c.constReturnTable(fn)
	want := map[string]string{"==": "!=", "!=": "==", "<": ">=", ">": "<=", "<=": ">", ">=": "<", "&&": "||", "||": "&&"}
	pos := c.W.FuncPos(fn)
	for k, w := range want {
		got, ok := table[k]
		c.Check(ok && got == w, "negate["+k+"]", pos, "not("+k+") = "+w, fmt.Sprintf("negation of %q is %q, expected %q", k, got, w))
	}
	for k, v := range table {
		if _, ok := want[k]; !ok {
			c.Bad("negate["+k+"]", pos, fmt.Sprintf("unexpected row %q -> %q in the negation table", k, v))
		}
	}
	c.Check(deflt == "$0", "negate[other]", pos, "other operators are returned unchanged", "default arm returns "+deflt+", expected the operator itself")
	inv := true
	for k, v := range table {
		if table[v] != k {
			inv = false
		}
	}
	c.Check(inv, "negate/involution", pos, "negating twice gives the original operator", "the negation table is not an involution")
}

func c02b(c *Ctx) {
	fn := c.Fn("emitter.renderVarComparison")
	pv := c.Fn("parser.Parser.parseConditionVarOperator")
	if fn == nil || pv == nil {
		return
	}
	want := map[string]string{"==": "eq", "!=": "ne", "<": "lt", "<=": "le", ">": "gt", ">=": "ge"}
	E := exprRoot(fn)
	arms := map[string]bool{}
	for _, ws := range c.sitesOf(fn) {
		if !ws.isFmt || !strings.HasPrefix(ws.format, "\tgoto_if_") {
			continue
		}
		cc := strings.SplitN(strings.TrimPrefix(ws.format, "\tgoto_if_"), " ", 2)[0]
		var ops []string
		for _, l := range siteMust(ws) {
			if strings.HasPrefix(l, `+(`+E+`.Operator == "`) {
				ops = append(ops, strings.TrimSuffix(strings.TrimPrefix(l, `+(`+E+`.Operator == "`), `")`))
			}
		}
		pos := c.W.Pos(ws.call.Pos())
		if len(ops) != 1 {
			c.Bad("var-goto["+cc+"]", pos, fmt.Sprintf("goto_if_%s is written under operator tests %v, expected exactly one", cc, ops))
			continue
		}
		arms[ops[0]] = true
		c.Check(want[ops[0]] == cc, "var-goto["+ops[0]+"]", pos, "operator "+ops[0]+" -> goto_if_"+cc, fmt.Sprintf("operator %q renders goto_if_%s, expected goto_if_%s", ops[0], cc, want[ops[0]]))
	}
	// the same table written as data: `if cmd, ok := gotoCommands[expr.Operator]; ok { write("\t%s %s_%d\n", cmd, …) }`
	// with a package-level map that is only ever read
	for _, ws := range c.sitesOf(fn) {
		if !ws.isFmt || ws.format != "\t%s %s_%d\n" || len(ws.argT) != 3 {
			continue
		}
		m := regexpMust(`^@emitter\.([A-Za-z_][A-Za-z_0-9]*)\[` + regexp.QuoteMeta(E) + `\.Operator\]#0$`).FindStringSubmatch(ws.argT[0])
		if m == nil || !c.W.constGlobal("emitter", m[1]) {
			continue
		}
		presence := "+@emitter." + m[1] + "[" + E + ".Operator]#1"
		if !hasLit(siteMust(ws), presence) {
			c.Bad("var-goto/table-presence", c.W.Pos(ws.call.Pos()), "the conditional goto is written from the table "+m[1]+" without testing that the operator is listed")
			continue
		}
		tbl, ok := c.globalMapLiteral("emitter", m[1])
		if !ok {
			continue
		}
		for op, cmd := range tbl {
			arms[op] = true
			c.Check("goto_if_"+want[op] == cmd, "var-goto["+op+"]", c.W.Pos(ws.call.Pos()), "operator "+op+" -> "+cmd+" (table "+m[1]+")", fmt.Sprintf("operator %q renders %s, expected goto_if_%s", op, cmd, want[op]))
		}
	}
	for op := range want {
		if !arms[op] {
			c.Bad("var-goto["+op+"]", c.W.FuncPos(fn), "no goto_if arm for operator "+op+": such a condition would render a compare without a branch")
		}
	}
	// compare line: "compare_var_to_value a, b" exactly for value(...) comparisons, "compare a, b"
	// otherwise (whether spelled as two writes or as one write of a chosen mnemonic)
	found := false
	var plainD, strictD dnf
	nPlain, nStrict := 0, 0
	strictLit := "(" + E + ".ComparisonValueType == 1)"
	for _, ws := range c.sitesOf(fn) {
		if !ws.isFmt || len(ws.argT) != 2 || (ws.format != "\tcompare %s, %s\n" && ws.format != "\tcompare_var_to_value %s, %s\n") {
			if ws.isFmt && ws.format == "\t%s %s, %s\n" {
				c.Bad("var-compare/mnemonic", c.W.Pos(ws.call.Pos()), "the compare mnemonic is not one of two constants chosen by ComparisonValueType == StrictValueComparison")
				found = true
			}
			continue
		}
		found = true
		pos := c.W.Pos(ws.call.Pos())
		if strings.HasPrefix(ws.format, "\tcompare_var_to_value") {
			nStrict++
			strictD = orDNF(strictD, ws.cond)
		} else {
			nPlain++
			plainD = orDNF(plainD, ws.cond)
		}
		c.Check(ws.argT[0] == E+".Operand.Literal" && ws.argT[1] == E+".ComparisonValue", fmt.Sprintf("var-compare/operands#%d", nPlain+nStrict), pos, "compare <operand>, <comparison value>", "compare line prints ("+ws.argT[0]+", "+ws.argT[1]+")")
	}
	if found {
		okCmp := nPlain > 0 && nStrict > 0 && dnfEquiv(strictD, mkDNF([]string{"+" + strictLit})) && dnfEquiv(plainD, mkDNF([]string{"-" + strictLit}))
		c.Check(okCmp, "var-compare/mnemonic", c.W.FuncPos(fn), "compare_var_to_value exactly for value(...) comparisons, compare otherwise", fmt.Sprintf("compare_var_to_value is written under [%s] and compare under [%s]; expected exactly ComparisonValueType == StrictValueComparison and its negation", strictD, plainD))
		// a goto_if must be preceded by a compare line on every path
		for _, w2 := range c.sitesOf(fn) {
			if !strings.HasPrefix(w2.format, "\tgoto_if_") {
				continue
			}
			isCmp := func(in ssa.Instruction) bool {
				for _, ws := range c.sitesOf(fn) {
					if strings.HasPrefix(ws.format, "\tcompare") && ssa.Instruction(ws.call.(ssa.Instruction)) == in {
						return true
					}
				}
				return false
			}
			_, skip := existsPath(pathQuery{from: point{fn.Blocks[0], 0}, target: func(in ssa.Instruction) bool { return in == w2.call.(ssa.Instruction) }, avoid: isCmp})
			if skip {
				c.Bad("var-compare/first", c.W.Pos(w2.call.Pos()), "a conditional goto can be written without a preceding compare line")
			}
		}
	}
	c.Check(found, "var-compare/site", c.W.FuncPos(fn), "compare line present", "no compare line is written")
	if v, ok := c.W.Pkgs["ast"].Types.Scope().Lookup("StrictValueComparison").(interface {
		Val() interface{ String() string }
	}); ok {
		_ = v
	}
	// domain: operators accepted by the parser = arms
	var opStore *ssa.Store
	for _, st := range storesToField(pv, "ast", "OperatorExpression", "Operator") {
		if strings.HasSuffix(c.term(pv, st.Val), ".Type") {
			opStore = st
		}
	}
	if opStore == nil {
		c.Bad("var-domain/explicit-operator", c.W.FuncPos(pv), "cannot find the store of the written operator")
		return
	}
	var conjs [][]string
	var ops []string
	for op := range want {
		ops = append(ops, op)
	}
	sort.Strings(ops)
	for _, op := range ops {
		conjs = append(conjs, []string{`+($0.curToken.Type == "` + op + `")`})
	}
	got := c.PC(pv).At(opStore.Block())
	c.Check(c.term(pv, opStore.Val) == "$0.curToken.Type" && dnfEquiv(got, mkDNF(conjs...)), "var-domain/explicit-operator", c.W.Pos(opStore.Pos()), "the written operator is stored exactly when it is one of == != < <= > >=", "the operator token is accepted under ["+got.String()+"], expected exactly the six comparison operators (every accepted operator needs a goto_if arm)")
}

func c02c(c *Ctx) {
	for _, s := range []struct{ fn, set, unset string }{
		{"emitter.renderFlagComparison", "\tgoto_if_set %s, ", "\tgoto_if_unset %s, "},
		{"emitter.renderDefeatedComparison", "\tgoto_if 1, ", "\tgoto_if 0, "},
	} {
		fn := c.Fn(s.fn)
		if fn == nil {
			continue
		}
		// the expression is the destination's, or is handed in itself; the label is formatted
		// here ("%s_%d") or handed in ready ("%s")
		E := exprRoot(fn)
		setD := mkDNF([]string{`+(` + E + `.Operator == "==")`, `+(` + E + `.ComparisonValue == "TRUE")`}, []string{`+(` + E + `.Operator == "!=")`, `+(` + E + `.ComparisonValue == "FALSE")`})
		var setW, unsetW *writeSite
		ws := c.sitesOf(fn)
		for i := range ws {
			for _, tail := range []string{"%s_%d\n", "%s\n"} {
				switch ws[i].format {
				case s.set + tail:
					setW = &ws[i]
				case s.unset + tail:
					unsetW = &ws[i]
				}
			}
		}
		if setW == nil || unsetW == nil {
			c.Bad(s.fn+"/forms", c.W.FuncPos(fn), "cannot find both the 'set' and the 'unset' branch lines")
			continue
		}
		gotSet := setW.cond
		gotUnset := unsetW.cond
		dom := map[string][]string{E + ".Operator": {"==", "!="}, E + ".ComparisonValue": {"TRUE", "FALSE"}}
		c.Check(dnfEquivDomain(gotSet, setD, dom), s.fn+"/set-iff", c.W.Pos(setW.call.Pos()), "branch-if-set exactly for (== TRUE) or (!= FALSE)", "the 'set' branch is rendered under ["+gotSet.String()+"], expected (Operator == EQ && Value == TRUE) || (Operator == NEQ && Value == FALSE)")
		// complement
		all := orDNF(gotSet, gotUnset)
		c.Check(dnfEquivDomain(all, mkDNF([]string{}), dom) && dnfEquivDomain(andDNF(gotSet, gotUnset), dnf{}, dom), s.fn+"/unset-otherwise", c.W.Pos(unsetW.call.Pos()), "branch-if-unset in every other case", "the 'unset' branch is rendered under ["+gotUnset.String()+"], which is not the complement of the 'set' condition")
		if strings.Contains(s.set, "%s,") {
			c.Check(setW.argT[0] == E+".Operand.Literal" && unsetW.argT[0] == E+".Operand.Literal", s.fn+"/operand", c.W.Pos(setW.call.Pos()), "the flag operand is printed", "flag comparison prints a different operand")
		} else {
			var chk *writeSite
			for i := range ws {
				if ws[i].format == "\tchecktrainerflag %s\n" {
					chk = &ws[i]
				}
			}
			ok := chk != nil && len(chk.argT) == 1 && chk.argT[0] == E+".Operand.Literal" && instrDominates(chk.call.(ssa.Instruction), setW.call.(ssa.Instruction)) && instrDominates(chk.call.(ssa.Instruction), unsetW.call.(ssa.Instruction))
			c.Check(ok, s.fn+"/checktrainerflag-first", c.W.FuncPos(fn), "checktrainerflag <operand> precedes the branch", "checktrainerflag <operand> is not written before the goto_if")
		}
	}
	// dispatch
	if fn := c.Fn("emitter.renderBranchComparison"); fn != nil {
		for typ, callee := range map[string]string{"FLAG": "renderFlagComparison", "VAR": "renderVarComparison", "DEFEATED": "renderDefeatedComparison"} {
			f := c.W.Func("emitter", callee)
			ok := false
			if f != nil {
				for _, call := range callsToIn(fn, f) {
					if hasLit(c.mustLits(fn, call.Block()), `+($1.operatorExpression.Type == "`+typ+`")`) {
						ok = true
					}
				}
			}
			c.Check(ok, "renderBranchComparison/dispatch["+typ+"]", c.W.FuncPos(fn), typ+" leaves are rendered by "+callee, typ+" leaves are not dispatched to "+callee)
		}
	}
}

func overlap(a, b dnf) bool {
	x := andDNF(a, b)
	return len(x.cs) > 0
}

type opStore struct {
	field, value string
	st           *ssa.Store
}

func (c *Ctx) opExprStores(fn *ssa.Function) []opStore {
	var out []opStore
	instrs(fn, func(in ssa.Instruction) {
		st, ok := in.(*ssa.Store)
		if !ok {
			return
		}
		_, t, f, ok := fieldAddrOf(st.Addr)
		if ok && typeIs(t, "ast", "OperatorExpression") {
			out = append(out, opStore{f, c.term(fn, st.Val), st})
		}
	})
	return out
}

var c02dErrNil = regexp.MustCompile(`^\+\(\(\*parser\.Parser\)\.\w+@\d+(#\d+)? == nil\)$`)

// c02dAlso: literals that stand beside a row's own conditions in the reviewed code (row|literal).
var c02dAlso = map[string]bool{
	`leaf/not-flag/defeated:value=FALSE|-(mu(new<ast.OperatorExpression>.Type) == "VAR")`: true,
	`var-operator/value():strict|-($0.peekToken.Type == ")")`:                                   true,
	`flag-operator/explicit:value|-($0.peekToken.Type == ")")`:                                  true,
}

func c02d(c *Ctx) {
	leaf := c.Fn("parser.Parser.parseLeafBooleanExpression")
	pv := c.Fn("parser.Parser.parseConditionVarOperator")
	pf := c.Fn("parser.Parser.parseConditionFlagLikeOperator")
	if leaf == nil || pv == nil || pf == nil {
		return
	}
	// closed world: a condition node (leaf or binary) gets its fields from the functions whose
	// stores are judged row by row below and in C02.f / C02.h, and from nobody else — a
	// "normalising" method on the node, in whatever package, would rewrite what these rules proved
	{
		judged := map[string]bool{"parseLeafBooleanExpression": true, "parseConditionVarOperator": true, "parseConditionFlagLikeOperator": true, "parseBooleanExpression": true, "parseRightSideExpression": true}
		for _, u := range c.unitOf(leaf) {
			judged[u.fn.Name()] = true
		}
		n := 0
		for _, fn := range c.W.Funcs {
			if isTestFunc(c.W, fn) || len(fn.Blocks) == 0 {
				continue
			}
			k := 0
			instrs(fn, func(in ssa.Instruction) {
				st, ok := in.(*ssa.Store)
				if !ok {
					return
				}
				_, t, f, ok := fieldAddrOf(st.Addr)
				if !ok || !(typeIs(t, "ast", "OperatorExpression") || typeIs(t, "ast", "BinaryExpression")) {
					return
				}
				n++
				if judged[fn.Name()] && c.W.PkgShort(fn) == "parser" {
					return
				}
				k++
				c.Bad(fmt.Sprintf("condition-nodes-closed/%s/%s#%d", c.W.FuncKey(fn), f, k), c.W.Pos(st.Pos()), c.W.FuncKey(fn)+" stores "+pretty(c.term(fn, st.Val))+" into "+f+" of a condition node: the meaning of a condition (operand, operator, comparison value) is set by the condition parsers, whose stores are judged one by one, and by nobody else")
			})
		}
		c.Check(n >= 15, "condition-nodes-closed/census", "-", fmt.Sprintf("%d stores into condition nodes", n), fmt.Sprintf("only %d stores into condition nodes found", n))
	}
	type row struct {
		label, field, value string
		lits                []string // literals (substring match) that must hold
	}
	check := func(fn *ssa.Function, name string, rows []row, ignore map[string]bool) {
		stores := c.opExprStores(fn)
		used := map[*ssa.Store]bool{}
		for _, r := range rows {
			found := false
			for _, s := range stores {
				if s.field != r.field || s.value != r.value || used[s.st] {
					continue
				}
				must := c.mustLits(fn, s.st.Block())
				ok := true
				for _, l := range r.lits {
					if !containsSub(must, l) {
						ok = false
					}
				}
				if ok {
					found = true
					used[s.st] = true
					c.OK(name+"/"+r.label, c.W.Pos(s.st.Pos()), r.field+" = "+r.value+" under "+strings.Join(r.lits, " "))
					// ... and under nothing more: besides the row's own conditions the store stands
					// only under tests of token kinds, of the operator kind and of errors (a further
					// conjunct — "unless it is an AutoVar command", "unless the value starts with a
					// parenthesis" — leaves the field unset in cases the row is meant for)
					var extra []string
					for _, l := range must {
						l2 := verRe.ReplaceAllString(l, "")
						isRow := false
						for _, rl := range r.lits {
							if strings.Contains(l, rl) {
								isRow = true
							}
						}
						l2 = regexpMust(`mu\([bL]\d+,`).ReplaceAllString(l2, "mu(")
						l2 = regexpMust(`new#\d+<`).ReplaceAllString(l2, "new<")
						if isRow || c02dAlso[name+"/"+r.label+"|"+l2] || c02dErrNil.MatchString(l2) {
							continue
						}
						// the comparison operators that the bare form excludes, whichever are listed
						if strings.HasPrefix(name+"/"+r.label, "var-operator/bare") || strings.HasPrefix(name+"/"+r.label, "flag-operator/bare") {
							if regexpMust(`^-\(\$0\.curToken\.Type == "(==|!=|<|<=|>|>=)"\)$`).MatchString(l2) {
								continue
							}
						}
						extra = append(extra, l)
					}
					if os.Getenv("PSLINT_C02D_DUMP") != "" {
						fmt.Fprintf(os.Stderr, "C02D\t%s/%s\t%v\n", name, r.label, must)
					}
					c.Check(len(extra) == 0, name+"/"+r.label+"/no-further-condition", c.W.Pos(s.st.Pos()), "no condition beyond the row's", fmt.Sprintf("%s = %s is stored only under the further condition(s) %v", r.field, r.value, prettyAll(extra)))
					break
				}
			}
			if !found {
				c.Bad(name+"/"+r.label, c.W.FuncPos(fn), "expected "+r.field+" = "+r.value+" under "+strings.Join(r.lits, " ")+"; no such store found")
			}
		}
		for _, s := range stores {
			if !used[s.st] && !ignore[s.field] {
				c.Bad(name+"/unexpected["+s.field+"="+pretty(s.value)+"]", c.W.Pos(s.st.Pos()), "unexpected store "+s.field+" = "+pretty(s.value)+" under "+fmt.Sprint(c.mustLits(fn, s.st.Block())))
			}
		}
	}
	check(leaf, "leaf", []row{
		{"normal-comparison-by-default", "ComparisonValueType", "0", nil},
		{"not:operator=EQ", "Operator", `"=="`, []string{`+($0.peekToken.Type == "!")`}},
		{"not-var:value=0", "ComparisonValue", `"0"`, []string{"+phi(", `.Type) == "VAR")`}},
		{"not-flag/defeated:value=FALSE", "ComparisonValue", `"FALSE"`, []string{"+phi("}},
		{"autovar:type=VAR", "Type", `"VAR"`, []string{"+(*parser.Parser).peekTokenIsAutoVar($0)@0"}},
	}, map[string]bool{"Type": true, "Operand": true, "PreambleStatement": true})
	// the FALSE store is reached for FLAG or DEFEATED only
	for _, s := range c.opExprStores(leaf) {
		if s.field == "ComparisonValue" && s.value == `"FALSE"` {
			d := c.PC(leaf).At(s.st.Block())
			ok := !d.unknown
			for _, cj := range d.cs {
				has := false
				for _, l := range cj {
					if strings.HasPrefix(l, "+") && (strings.HasSuffix(l, `.Type) == "FLAG")`) || strings.HasSuffix(l, `.Type) == "DEFEATED")`)) {
						has = true
					}
				}
				if !has {
					ok = false
				}
			}
			c.Check(ok, "leaf/not-flag/defeated:types", c.W.Pos(s.st.Pos()), "'!flag(..)' / '!defeated(..)' compare with FALSE", "the FALSE default is stored for operator types other than FLAG / DEFEATED")
		}
	}
	// dispatch to the operator parsers only without '!'
	for _, x := range []struct{ callee, typ string }{{"parseConditionVarOperator", "VAR"}, {"parseConditionFlagLikeOperator", "FLAG"}, {"parseConditionFlagLikeOperator", "DEFEATED"}} {
		f := c.W.Method("parser", "Parser", x.callee)
		ok := false
		for _, call := range callsToIn(leaf, f) {
			must := c.mustLits(leaf, call.Block())
			if containsSub(must, `.Type) == "`+x.typ+`")`) && containsPrefix(must, "-phi(") && c.term(leaf, call.Common().Args[1]) == "new#0<ast.OperatorExpression>" {
				ok = true
			}
		}
		c.Check(ok, "leaf/dispatch["+x.typ+"]", c.W.FuncPos(leaf), x.typ+" leaf without '!' parses its operator with "+x.callee, "no call of "+x.callee+" for "+x.typ+" leaves on the non-negated path")
	}
	check(pv, "var-operator", []row{
		{"bare:operator=NEQ", "Operator", `"!="`, []string{`-($0.curToken.Type == "==")`, `-($0.curToken.Type == "<")`}},
		{"bare:value=0", "ComparisonValue", `"0"`, []string{`-($0.curToken.Type == "==")`}},
		{"explicit:operator", "Operator", "$0.curToken.Type", nil},
		{"value():strict", "ComparisonValueType", "1", []string{`+($0.peekToken.Type == "VALUE")`}},
	}, map[string]bool{"ComparisonValue": true})
	check(pf, "flag-operator", []row{
		{"bare:operator=EQ", "Operator", `"=="`, []string{`-($0.curToken.Type == "==")`, `-($0.curToken.Type == "!=")`}},
		{"bare:value=TRUE", "ComparisonValue", `"TRUE"`, []string{`-($0.curToken.Type == "==")`, `-($0.curToken.Type == "!=")`}},
		{"explicit:operator", "Operator", "$0.curToken.Type", nil},
		{"explicit:value", "ComparisonValue", "$0.peekToken.Type", nil},
	}, nil)
	// explicit flag operator/value domains
	for _, s := range c.opExprStores(pf) {
		d := c.PC(pf).At(s.st.Block())
		switch {
		case s.field == "Operator" && s.value == "$0.curToken.Type":
			c.Check(dnfEquiv(d, mkDNF([]string{`+($0.curToken.Type == "==")`}, []string{`+($0.curToken.Type == "!=")`})), "flag-operator/explicit:operator-domain", c.W.Pos(s.st.Pos()), "flag operator is == or !=", "explicit flag operator stored under ["+d.String()+"], expected exactly == or !=")
		case s.field == "ComparisonValue" && s.value == "$0.peekToken.Type":
			ok := !d.unknown
			for _, cj := range d.cs {
				has := false
				for _, l := range cj {
					if l == `+($0.peekToken.Type == "TRUE")` || l == `+($0.peekToken.Type == "FALSE")` {
						has = true
					}
				}
				if !has {
					ok = false
				}
			}
			c.Check(ok, "flag-operator/explicit:value-domain", c.W.Pos(s.st.Pos()), "flag comparison value is TRUE or FALSE", "flag comparison value stored without being tested to be TRUE or FALSE")
		}
	}
	if v, ok := c.W.Pkgs["ast"].Types.Scope().Lookup("StrictValueComparison").(interface{ Name() string }); ok {
		_ = v
	}
}

func containsSub(ls []string, sub string) bool {
	for _, l := range ls {
		if strings.Contains(l, sub) {
			return true
		}
	}
	return false
}

func c02e(c *Ctx) {
	name := "emitter.splitBooleanExpressionChunks"
	fn := c.Fn(name)
	if fn == nil {
		return
	}
	leafA := "assert<*ast.OperatorExpression>($0)#0"
	binA := "assert<*ast.BinaryExpression>($0)#0"
	// leaf arm
	lbs := allocsOf(fn, "emitter", "leafExpressionBranch")
	if len(lbs) != 1 {
		c.Bad(name+"/leaf", c.W.FuncPos(fn), fmt.Sprintf("expected one leafExpressionBranch allocation, found %d", len(lbs)))
	} else {
		lb := lbs[0]
		use := lastUse(lb)
		pos := c.W.Pos(lb.Pos())
		c.Check(hasLit(c.mustLits(fn, lb.Block()), "+assert<*ast.OperatorExpression>($0)#1"), name+"/leaf/guard", pos, "leaf branch built for operator expressions", "leaf branch built without the operator-expression type test")
		// truthyDest: a conditionDestination{id: success, operatorExpression: leaf}, built in place or by a constructor helper
		var tdVal ssa.Value
		for _, ref := range *lb.Referrers() {
			if fa, ok := ref.(*ssa.FieldAddr); ok && fieldName(fa.X.Type(), fa.Field) == "truthyDest" {
				for _, r2 := range *fa.Referrers() {
					if st, ok := r2.(*ssa.Store); ok && st.Addr == ssa.Value(fa) {
						tdVal = st.Val
					}
				}
			}
		}
		tdf := map[string]string{}
		if tdVal != nil {
			tdf = c.valueFields(fn, tdVal, use)
		}
		c.Check(tdf["id"] == "$2" && tdf["operatorExpression"] == leafA, name+"/leaf/truthy->success", pos, "leaf true -> success chunk, comparing this leaf", fmt.Sprintf("leaf truthy destination is %v, expected {id: successChunkID, operatorExpression: the leaf}", tdf))
		c.Check(c.fieldAtUse(fn, lb, "falseyReturnID", use) == "$3", name+"/leaf/falsey->failure", pos, "leaf false -> failure chunk", "leaf falsey destination is "+c.fieldAtUse(fn, lb, "falseyReturnID", use)+", expected failureChunkID")
		c.Check(c.fieldAtUse(fn, lb, "preambleStatement", use) == leafA+".PreambleStatement", name+"/leaf/preamble", pos, "leaf carries its own preamble statement", "leaf preamble is "+c.fieldAtUse(fn, lb, "preambleStatement", use))
		// the leaf chunk is returned as entry, first id threaded
		for _, r := range returnsOf(fn) {
			if !hasLit(c.mustLits(fn, r.Block()), "+assert<*ast.OperatorExpression>($0)#1") {
				continue
			}
			ca, isAlloc := r.Results[1].(*ssa.Alloc)
			okEntry := isAlloc && typeIs(ca.Type(), "emitter", "chunk") && strings.HasPrefix(c.fieldAtUse(fn, ca, "branchBehavior", r), "new#0<emitter.leafExpressionBranch>")
			c.Check(okEntry, name+"/leaf/entry", c.W.Pos(r.Pos()), "the leaf's own chunk is the entry of the expression", "the leaf arm does not return the chunk holding the leaf branch as entry chunk")
			ph, isPhi := r.Results[2].(*ssa.Phi)
			okFirst := false
			if isPhi && isAlloc {
				var keep, fresh bool
				for i, e := range ph.Edges {
					must := c.edgeMust(fn, ph.Block().Preds[i], ph.Block())
					et := c.term(fn, e)
					if et == "$5" && !hasLit(must, "+($5 == -1)") {
						keep = true
					}
					if et == c.fieldAtUse(fn, ca, "id", r) && hasLit(must, "+($5 == -1)") {
						fresh = true
					}
				}
				okFirst = keep && fresh
			}
			c.Check(okFirst, name+"/leaf/first-id", c.W.Pos(r.Pos()), "first id = this chunk when none was set, else unchanged", "first id is not threaded (own id when -1, else unchanged)")
		}
	}
	// && and || arms
	for _, arm := range []struct{ op, label string }{{"&&", "and"}, {"||", "or"}} {
		lit := `+(` + binA + `.Operator == "` + arm.op + `")`
		var left, right *ssa.Call
		for _, ci := range callsToIn(fn, fn) {
			call := ci.(*ssa.Call)
			if !hasLit(c.mustLits(fn, call.Block()), lit) {
				continue
			}
			switch c.term(fn, call.Call.Args[0]) {
			case binA + ".Left":
				left = call
			case binA + ".Right":
				right = call
			}
		}
		key := name + "/" + arm.label
		if left == nil || right == nil {
			c.Bad(key+"/calls", c.W.FuncPos(fn), "cannot find the recursive calls on Left and Right under Operator == "+arm.op)
			continue
		}
		// the helper chunk of this arm
		var helper *chunkInfo
		infos := c.chunkAllocs(fn)
		for i := range infos {
			if hasLit(c.mustLits(fn, infos[i].a.Block()), lit) {
				helper = &infos[i]
			}
		}
		if helper == nil {
			c.Bad(key+"/link-chunk", c.W.FuncPos(fn), "no link chunk is created for "+arm.op)
			continue
		}
		la, ra := left.Call.Args, right.Call.Args
		lt := func(v ssa.Value) string { return c.term(fn, v) }
		if arm.op == "&&" {
			c.Check(lt(la[2]) == helper.id && lt(la[3]) == "$3", key+"/left", c.W.Pos(left.Pos()), "a && b: a true -> link to b, a false -> failure", fmt.Sprintf("left operand of && wired (success=%s, failure=%s); expected (link chunk %s, failureChunkID)", pretty(lt(la[2])), pretty(lt(la[3])), pretty(helper.id)))
		} else {
			c.Check(lt(la[2]) == "$2" && lt(la[3]) == helper.id, key+"/left", c.W.Pos(left.Pos()), "a || b: a true -> success, a false -> link to b", fmt.Sprintf("left operand of || wired (success=%s, failure=%s); expected (successChunkID, link chunk %s)", pretty(lt(la[2])), pretty(lt(la[3])), pretty(helper.id)))
		}
		c.Check(lt(ra[2]) == "$2" && lt(ra[3]) == "$3", key+"/right", c.W.Pos(right.Pos()), "right operand decides: true -> success, false -> failure", fmt.Sprintf("right operand wired (success=%s, failure=%s); expected (successChunkID, failureChunkID)", lt(ra[2]), lt(ra[3])))
		lres, rres := lt(left), lt(right)
		c.Check(lt(la[4]) == "$4" && lt(la[5]) == "$5" && lt(ra[4]) == lres+"#0" && lt(ra[5]) == lres+"#2" && lt(la[1]) == "$1" && lt(ra[1]) == "$1" && instrDominates(left, right), key+"/threading", c.W.Pos(right.Pos()), "work list, counter and first id are threaded left to right", "work list / first id / counter are not threaded from the left call into the right call")
		// helper chunk jumps to the entry of the right operand and is enqueued; returns (.., left entry, right firstID)
		for _, r := range returnsOf(fn) {
			if !hasLit(c.mustLits(fn, r.Block()), lit) {
				continue
			}
			bb := ""
			for _, ref := range *helper.a.Referrers() {
				if fa, ok := ref.(*ssa.FieldAddr); ok && fieldName(fa.X.Type(), fa.Field) == "branchBehavior" {
					for _, r2 := range *fa.Referrers() {
						if st, ok := r2.(*ssa.Store); ok && st.Addr == ssa.Value(fa) {
							bb, _ = c.structFieldOf(fn, st.Val, "emitter", "jump", "destChunkID", st)
						}
					}
				}
			}
			c.Check(bb == rres+"#1.id", key+"/link-jumps-to-right-entry", c.W.Pos(helper.a.Pos()), "the link chunk jumps to the entry chunk of the right operand", "the link chunk jumps to "+pretty(bb)+", expected the entry chunk of the right operand ("+rres+"#1.id)")
			c.Check(lt(r.Results[1]) == lres+"#1" && lt(r.Results[2]) == rres+"#2", key+"/returns", c.W.Pos(r.Pos()), "entry of the expression = entry of its left operand", fmt.Sprintf("returns (entry=%s, firstID=%s); expected (left entry, first id after the right operand)", lt(r.Results[1]), lt(r.Results[2])))
			c.Check(strings.HasPrefix(lt(r.Results[0]), "builtin:append("+rres+"#0,"), key+"/worklist", c.W.Pos(r.Pos()), "returned work list = right call's list + link chunk", "returned work list is "+pretty(lt(r.Results[0])))
		}
	}
	// exhaustiveness: the nil return is reached only for unknown expression types / operators
	for _, r := range returnsOf(fn) {
		if c.term(fn, r.Results[1]) == "nil" {
			must := c.mustLits(fn, r.Block())
			c.Check(hasLit(must, "-assert<*ast.OperatorExpression>($0)#1"), name+"/nil-return-unreachable-for-leaves", c.W.Pos(r.Pos()), "nil entry only when the expression is not a leaf (dead given C02.f: operators are && or ||)", "a nil entry chunk can be returned for a leaf expression")
		}
	}
	// implementers of ast.BooleanExpression are exactly the two handled types
	if bi := c.W.Pkgs["ast"].Types.Scope().Lookup("BooleanExpression"); bi != nil {
		n := 0
		for _, tn := range []string{"OperatorExpression", "BinaryExpression"} {
			if c.W.Named("ast", tn) != nil {
				n++
			}
		}
		scope := c.W.Pkgs["ast"].Types.Scope()
		var impl []string
		for _, nm := range scope.Names() {
			obj := scope.Lookup(nm)
			if tn, ok := obj.(interface{ IsAlias() bool }); ok {
				_ = tn
			}
			named := c.W.Named("ast", nm)
			if named == nil {
				continue
			}
			if _, isIface := named.Underlying().(interface{ NumExplicitMethods() int }); isIface {
				continue
			}
			if implementsPtr(named, bi.Type()) {
				impl = append(impl, nm)
			}
		}
		sort.Strings(impl)
		c.Check(fmt.Sprint(impl) == "[BinaryExpression OperatorExpression]", name+"/expression-types-exhaustive", c.W.FuncPos(fn), "ast.BooleanExpression is implemented by exactly the two handled node types", fmt.Sprintf("ast.BooleanExpression is implemented by %v; splitBooleanExpressionChunks handles OperatorExpression and BinaryExpression only", impl))
	}
}

func c02f(c *Ctx) {
	fn := c.Fn("parser.Parser.parseRightSideExpression")
	if fn == nil {
		return
	}
	as := allocsOf(fn, "ast", "BinaryExpression")
	c.Check(len(as) == 2, "binary/sites", c.W.FuncPos(fn), "two binary-expression sites (&& and ||)", fmt.Sprintf("found %d BinaryExpression allocations, expected 2", len(as)))
	for _, a := range as {
		must := c.mustLits(fn, a.Block())
		op := ""
		switch {
		case hasLit(must, `+($0.curToken.Type == "&&")`):
			op = "&&"
		case hasLit(must, `+($0.curToken.Type == "||")`):
			op = "||"
		}
		pos := c.W.Pos(a.Pos())
		if op == "" {
			c.Bad("binary/untested-operator", pos, "a BinaryExpression is built on a path where the operator token was not tested to be && or ||: "+fmt.Sprint(must))
			continue
		}
		// Operator = phi(curToken.Type, negated(curToken.Type)) read before any advance
		var opVal ssa.Value
		for _, ref := range *a.Referrers() {
			if fa, ok := ref.(*ssa.FieldAddr); ok && fieldName(fa.X.Type(), fa.Field) == "Operator" {
				for _, r2 := range *fa.Referrers() {
					if st, ok := r2.(*ssa.Store); ok && st.Addr == ssa.Value(fa) {
						opVal = st.Val
					}
				}
			}
		}
		ok := false
		if ph, isPhi := opVal.(*ssa.Phi); isPhi {
			var plain, neg bool
			other := false
			for i, e := range ph.Edges {
				et := c.term(fn, e)
				must := c.edgeMust(fn, ph.Block().Preds[i], ph.Block())
				switch {
				case et == "$0.curToken.Type" && hasLit(must, "-$3"):
					plain = true
				case et == "parser.getNegatedBooleanOperator($0.curToken.Type)" && hasLit(must, "+$3"):
					neg = true
				default:
					// e.g. the plain token type although the flag is set
					other = true
				}
			}
			ok = plain && neg && !other
		}
		c.Check(ok, "binary["+op+"]/operator", pos, "Operator = the tested token's type, negated exactly under the negated flag", "the operator stored for "+op+" is not (negated ? not(tokenType) : tokenType) of the token that was tested")
		c.Check(c.fieldAtUse(fn, a, "Left", lastUse(a)) == "$1", "binary["+op+"]/left", pos, "Left = the expression parsed so far", "Left operand is "+c.fieldAtUse(fn, a, "Left", lastUse(a)))
	}
}

func c02g(c *Ctx) {
	rs := c.Fn("parser.Parser.parseRightSideExpression")
	be := c.Fn("parser.Parser.parseBooleanExpression")
	if rs == nil || be == nil {
		return
	}
	// (i) right operand of && is single; of || is a full expression
	for _, call := range callsToIn(rs, be) {
		must := c.mustLits(rs, call.Block())
		single := c.term(rs, call.Common().Args[1])
		switch {
		case hasLit(must, `+($0.curToken.Type == "&&")`):
			c.Check(single == "true", "and/right-operand-single", c.W.Pos(call.Pos()), "the right operand of && is a single operand (so && binds tighter than ||)", "the right operand of && is parsed with single="+single+": it would swallow a following || chain")
		case hasLit(must, `+($0.curToken.Type == "||")`):
			c.Check(single == "false", "or/right-operand-full", c.W.Pos(call.Pos()), "the right operand of || is a whole expression", "the right operand of || is parsed with single="+single)
		default:
			c.Bad("right-operand/untested", c.W.Pos(call.Pos()), "an operand is parsed without the operator having been tested")
		}
	}
	// continuation after a && b: recursion on the grouped expression, result returned
	okCont := false
	for _, ci := range callsToIn(rs, rs) {
		call := ci.(*ssa.Call)
		a, isAlloc := unwrapIface(call.Call.Args[1]).(*ssa.Alloc)
		if !isAlloc || !typeIs(a.Type(), "ast", "BinaryExpression") || !hasLit(c.mustLits(rs, call.Block()), `+($0.curToken.Type == "&&")`) {
			continue
		}
		right := c.fieldAtUse(rs, a, "Right", call)
		ret := false
		for _, r := range returnsOf(rs) {
			if isSuccessReturn(r) && c.term(rs, r.Results[0]) == c.term(rs, call)+"#0" {
				ret = true
			}
		}
		if strings.HasPrefix(right, "(*parser.Parser).parseBooleanExpression@") && strings.HasSuffix(right, "#0") && ret && c.term(rs, call.Call.Args[2]) == "$2" {
			okCont = true
		}
	}
	c.Check(okCont, "and/continuation", c.W.FuncPos(rs), "after 'a && b' the grouped expression becomes the left side of whatever follows", "after 'a && b' the parser does not continue with the grouped expression as left operand of the normal right-side parsing")
	// the && group's right operand is the result of the single-operand call
	// (ii) in parseBooleanExpression every right-side call requires !single
	n := 0
	for _, m := range c.unitOf(be) {
		// the helper's own `single` parameter: the parameter that receives be's $1 at every call site
		singleLit, singleArg := "-$1", "$1"
		if m.fn != be {
			singleLit, singleArg = "", ""
			for k := range m.fn.Params {
				all := true
				sites := callsToIn(be, m.fn)
				for _, cs := range sites {
					if k >= len(cs.Common().Args) || c.term(be, cs.Common().Args[k]) != "$1" {
						all = false
					}
				}
				if all && len(sites) > 0 {
					singleLit, singleArg = fmt.Sprintf("-$%d", k), fmt.Sprintf("$%d", k)
				}
			}
		}
		for _, call := range callsToIn(m.fn, rs) {
			n++
			d := c.PC(m.fn).At(call.Block())
			everyConj := func(d dnf, lit string) bool {
				if d.unknown || len(d.cs) == 0 || lit == "" {
					return false
				}
				for _, cj := range d.cs {
					if !hasLit(cj, lit) {
						return false
					}
				}
				return true
			}
			ok := everyConj(d, singleLit)
			if !ok && m.fn != be {
				// the helper is entered only where the caller already excluded a single operand
				ok = true
				sites := callsToIn(be, m.fn)
				for _, cs := range sites {
					if !everyConj(c.PC(be).At(cs.Block()), "-$1") {
						ok = false
					}
				}
				ok = ok && len(sites) > 0
			}
			c.Check(ok, fmt.Sprintf("right-side-call#%d/requires-not-single", n), c.W.Pos(call.Pos()), "the right-side parser is entered only when more than one operand is allowed", "parseRightSideExpression can be entered although a single operand was requested ["+d.String()+"]: the operand of && would absorb a following operator")
			c.Check(singleArg != "" && c.term(m.fn, call.Common().Args[2]) == singleArg, fmt.Sprintf("right-side-call#%d/passes-single", n), c.W.Pos(call.Pos()), "single is passed on", "single flag not passed on")
		}
	}
	// two continuation sites (after a parenthesised group, after a leaf), possibly through one shared helper
	nSites := 0
	for _, m := range c.unitOf(be) {
		for range callsToIn(m.fn, rs) {
			if m.fn == be {
				nSites++
			} else {
				nSites += len(callsToIn(be, m.fn))
			}
		}
	}
	c.Check(nSites >= 2, "right-side-call/sites", c.W.FuncPos(be), "continuation sites after a parenthesised group and after a leaf", fmt.Sprintf("found %d continuation sites of parseRightSideExpression in parseBooleanExpression, expected at least 2 (after a group, after a leaf)", nSites))
	// single leaf returns the leaf itself
	okSingle := false
	for _, r := range returnsOf(be) {
		if isSuccessReturn(r) && hasLit(c.mustLits(be, r.Block()), "+$1") && strings.HasPrefix(c.term(be, r.Results[0]), "(*parser.Parser).parseLeafBooleanExpression@0#0") {
			okSingle = true
		}
	}
	c.Check(okSingle, "single/returns-leaf", c.W.FuncPos(be), "a single operand request returns just the leaf", "single-operand parse does not return the bare leaf")
}

func unwrapIface(v ssa.Value) ssa.Value {
	if mi, ok := v.(*ssa.MakeInterface); ok {
		return mi.X
	}
	return v
}

func c02h(c *Ctx) {
	// a condition starts un-negated and with the whole expression ahead: whoever calls the
	// expression parser from outside the expression parsers passes (single = false, negated = false)
	if be := c.Fn("parser.Parser.parseBooleanExpression"); be != nil {
		inside := map[string]bool{"parseBooleanExpression": true, "parseRightSideExpression": true}
		for _, root := range []string{"parser.Parser.parseBooleanExpression", "parser.Parser.parseRightSideExpression"} {
			if rf := c.Fn(root); rf != nil {
				for _, m := range c.unitOf(rf) {
					inside[m.fn.Name()] = true // a private helper of the expression parsers (the nested group under its own name)
				}
			}
		}
		n := 0
		for _, ci := range c.W.callsTo(be) {
			caller := ci.Parent()
			if isTestFunc(c.W, caller) || inside[caller.Name()] {
				continue
			}
			n++
			a := ci.Common().Args
			okArgs := true
			for _, idx := range []int{1, 2} {
				k, isC := a[idx].(*ssa.Const)
				if !isC || k.Value == nil || k.Value.String() != "false" {
					okArgs = false
				}
			}
			c.Check(okArgs, fmt.Sprintf("condition-starts-plain/%s@%d", caller.Name(), c.T(caller).callOrd[ci]), c.W.Pos(ci.Pos()), "a condition is parsed from (single = false, negated = false)", caller.Name()+" starts parsing a condition with (single, negated) = ("+pretty(c.term(caller, a[1]))+", "+pretty(c.term(caller, a[2]))+"): negation is decided by the '!' the expression parser itself reads, and distributed by it (a caller that swallows a '!' and passes negated = true negates the operators but not the grouping)")
		}
		c.Check(n >= 2, "condition-starts-plain/sites", c.W.FuncPos(be), fmt.Sprintf("%d outside callers of the expression parser", n), fmt.Sprintf("only %d outside callers of the expression parser found", n))
	}
	rs := c.Fn("parser.Parser.parseRightSideExpression")
	be := c.Fn("parser.Parser.parseBooleanExpression")
	if rs == nil || be == nil {
		return
	}
	n := 0
	for _, root := range []*ssa.Function{rs, be} {
		for _, m := range c.unitOf(root) {
			f := m.fn
			for _, g := range []*ssa.Function{rs, be} {
				for _, call := range callsToIn(f, g) {
					n++
					neg := call.Common().Args[3]
					if g == be {
						neg = call.Common().Args[2]
					}
					key := fmt.Sprintf("%s->%s#%d/negated", f.Name(), g.Name(), n)
					pos := c.W.Pos(call.Pos())
					wantParam := "$3"
					if root == be {
						wantParam = "$2"
					}
					// the alternatives of the flag that is passed, in root's terms (a private
					// helper is evaluated once per call site in root)
					edges, ok := c.ctxEdges(root, m, neg, call.Block())
					if !ok {
						c.Unk(key, pos, "the helper "+f.Name()+" is not called directly from "+root.Name())
						continue
					}
					same := len(edges) > 0
					for _, e := range edges {
						if e.term != wantParam {
							same = false
						}
					}
					// (the parenthesised sub-expression is the one call that must NOT always pass the flag on)
					if same && !(root == be && g == be) {
						c.OK(key, pos, "negated flag passed on unchanged")
						continue
					}
					if root != be || g != be {
						// (only the parenthesised sub-expression — the expression parser calling itself —
						// may be given another flag than the caller's; the continuation behind a group
						// goes on with the caller's own)
						c.Bad(key, pos, "the call passes negated="+pretty(c.term(f, neg))+", expected the caller's flag: only a parenthesised sub-expression is parsed under a flag of its own ('(' keeps it, '!(' flips it)")
						continue
					}
					// the nested call of parseBooleanExpression: negated for '(' , !negated for '!('
					okPlain, okFlip, okOther := false, false, true
					// what is known about the next token on the ways to the call that agree with an
					// edge's own condition (the flag may be chosen by testing '(' or by testing '!(')
					pcf := c.PC(f)
					dCall := pcf.canonOf(pcf.At(call.Block()))
					// a bare boolean merge among an edge's literals is opened into the ways it can be true
					expand := func(must []string) [][]string {
						alts := [][]string{{}}
						for _, l := range must {
							var opts [][]string
							if strings.HasPrefix(l, "+phi(") && !strings.Contains(l, " == ") {
								if v := c.valueOfTerm(f, l[1:]); v != nil {
									if ph, ok := v.(*ssa.Phi); ok {
										if ways, known := pcf.valueWays(ph, ph.Block(), true, 0); known {
											for _, w := range ways {
												cw := pcf.canonOf(dnf{cs: []conj{w}})
												opts = append(opts, append([]string{l}, cw.cs[0]...))
											}
										}
									}
								}
							}
							if opts == nil {
								opts = [][]string{{l}}
							}
							var next [][]string
							for _, a := range alts {
								for _, o := range opts {
									next = append(next, append(append([]string{}, a...), o...))
								}
							}
							alts = next
						}
						return alts
					}
					// the same term cannot equal two different constants
					clash := func(cj conj) bool {
						eq := map[string]string{}
						for _, l := range cj {
							if !strings.HasPrefix(l, "+(") || !strings.HasSuffix(l, `")`) {
								continue
							}
							i := strings.Index(l, ` == "`)
							if i < 0 {
								continue
							}
							t, k := l[2:i], l[i+5:len(l)-2]
							if prev, ok := eq[t]; ok && prev != k {
								return true
							}
							eq[t] = k
						}
						return false
					}
					parenOn := func(must0 []string) (all, none bool) {
						all, none = true, true
						n := 0
						for _, must := range expand(must0) {
						for _, cj := range dCall.cs {
							cur := cj
							okC := true
							for _, l := range must {
								var ok2 bool
								cur, ok2 = conjAdd(cur, l)
								if !ok2 {
									okC = false
									break
								}
							}
							if !okC || clash(cur) {
								continue
							}
							n++
							if !hasLit(cur, `+($0.peekToken.Type == "(")`) {
								all = false
							}
							if !hasLit(cur, `-($0.peekToken.Type == "(")`) && !hasLit(cur, `+($0.peekToken.Type == "!")`) {
								none = false
							}
						}
						}
						if n == 0 {
							return false, false
						}
						return all, none
					}
					for _, e := range edges {
						all, none := parenOn(e.must)
						switch {
						case e.term == "$2" && (hasLit(e.must, `+($0.peekToken.Type == "(")`) || all):
							okPlain = true
						case e.term == "!$2" && (hasLit(e.must, `-($0.peekToken.Type == "(")`) || none):
							okFlip = true
						default:
							okOther = false
						}
					}
					dbg := ""
					for _, e := range edges {
						dbg += fmt.Sprintf(" [%s under %v]", e.term, e.must)
					}
					c.Check(okPlain && okFlip && okOther, key, pos, "'(' keeps the flag, '!(' flips it", "the parenthesised sub-expression is not parsed with (negated for '(' / !negated for '!('):"+dbg)
				}
			}
		}
	}
	// leaf operator negated exactly under the flag
	sts := storesToField(be, "ast", "OperatorExpression", "Operator")
	ok := len(sts) == 1
	why := fmt.Sprintf("expected one store to the leaf's Operator in parseBooleanExpression, found %d", len(sts))
	if ok {
		st := sts[0]
		v := c.term(be, st.Val)
		d := c.PC(be).At(st.Block())
		hasNeg := true
		for _, cj := range d.cs {
			has := false
			for _, l := range cj {
				if l == "+$2" {
					has = true
				}
			}
			if !has {
				hasNeg = false
			}
		}
		rel := c.guardsBeyondErrors(be, st.Block())
		// relative to where the leaf is parsed
		base := mkDNF([]string{})
		if lf := c.Fn("parser.Parser.parseLeafBooleanExpression"); lf != nil {
			for _, call := range callsToIn(be, lf) {
				base = c.guardsBeyondErrors(be, call.Block())
			}
		}
		exact := dnfEquiv(rel, dnfAndLit(base, "+$2"))
		ok = strings.HasPrefix(v, "parser.getNegatedBooleanOperator((*parser.Parser).parseLeafBooleanExpression@0#0.Operator") && hasNeg && exact
		why = "leaf operator set to " + pretty(v) + " under [" + rel.String() + "], expected getNegatedBooleanOperator(leaf.Operator) exactly under negated (no further condition: every leaf under a negation is negated)"
	}
	c.Check(ok, "leaf/negated-operator", c.W.FuncPos(be), "a leaf's operator is negated exactly when the flag is set", why)
}

// edgeInfeasible: the branch literal of edge pred->succ contradicts what must hold at pred.
func edgeInfeasible(c *Ctx, fn *ssa.Function, pred, succ *ssa.BasicBlock) bool {
	pc := c.PC(fn)
	lit := pc.edgeLit(pred, succ)
	if lit == "" {
		return false
	}
	return hasLit(pc.Must(pred), negLit(lit))
}

// c02i: the branch descriptors built by the constructors are never modified afterwards:
// no function writes a field of jump / breakContext / leafExpressionBranch /
// conditionDestination / switchBranch / switchCaseBranch through anything but the fresh
// allocation it is initialising. (What a chunk does is fixed when it is created; a later
// "optimisation" pass over the descriptors would escape the constructor templates.)
func c02i(c *Ctx) {
	eff := c.Eff()
	for _, typ := range []string{"jump", "breakContext", "leafExpressionBranch", "conditionDestination", "switchBranch", "switchCaseBranch", "chunk"} {
		bad := ""
		for _, fn := range c.W.FuncsOf("emitter") {
			if isTestFunc(c.W, fn) {
				continue
			}
			for k, site := range eff.sites[fn] {
				if strings.HasPrefix(k, "emitter."+typ+".") {
					// the one reviewed write: the chunk being cut now returns to the chunk made for its rest
					if typ == "chunk" && k == "emitter.chunk.returnID" && c.W.FuncKey(fn) == "(*emitter.chunk).splitChunkForBranch" {
						continue
					}
					// a chunk that a constructor helper has just made and handed back is still under
					// construction in the function that asked for it
					if typ == "chunk" && chunkWritesOnlyNew(c, fn, strings.TrimPrefix(k, "emitter.chunk.")) {
						continue
					}
					bad = c.W.FuncKey(fn) + " writes " + k + " at " + c.W.Pos(site.Pos())
				}
			}
		}
		c.Check(bad == "", "immutable/"+typ, "emitter/branch.go", typ+" values are only written while they are being constructed", "a "+typ+" is modified after construction: "+bad+" (the wiring established by the constructors could be altered)")
	}
	// "while they are being constructed" ends where the object is handed out: once a chunk or a
	// brancher made in a function has been put into a table or a list, stored somewhere or given
	// to a call, the function does not write its fields any more (the table holds the same
	// object, so a later write changes what was finalised)
	nObj := 0
	for _, fn := range c.W.FuncsOf("emitter") {
		if isTestFunc(c.W, fn) || len(fn.Blocks) == 0 {
			continue
		}
		k := 0
		instrs(fn, func(in ssa.Instruction) {
			a, ok := in.(*ssa.Alloc)
			if !ok || a.Referrers() == nil {
				return
			}
			typ := ""
			for _, t := range []string{"jump", "breakContext", "leafExpressionBranch", "conditionDestination", "switchBranch", "switchCaseBranch", "chunk"} {
				if typeIs(a.Type(), "emitter", t) {
					typ = t
				}
			}
			if typ == "" {
				return
			}
			nObj++
			var published []ssa.Instruction
			var writes []*ssa.Store
			fields := map[int][]*ssa.FieldAddr{}
			for _, r := range *a.Referrers() {
				switch y := r.(type) {
				case *ssa.Store:
					if y.Val == ssa.Value(a) {
						// (being put into the argument list of an append — the work list the
						// function is still filling — is not yet a hand-over; see single assignment)
						if ia, isIA := y.Addr.(*ssa.IndexAddr); isIA {
							if arr, isArr := ia.X.(*ssa.Alloc); isArr && arr.Comment == "varargs" {
								continue
							}
						}
						published = append(published, y)
					}
				case *ssa.MapUpdate:
					if y.Value == ssa.Value(a) || y.Key == ssa.Value(a) {
						published = append(published, y)
					}
				case *ssa.MakeInterface:
					published = append(published, y)
				case ssa.CallInstruction:
					published = append(published, y)
				case *ssa.FieldAddr:
					fields[y.Field] = append(fields[y.Field], y)
					if y.Referrers() == nil {
						continue
					}
					for _, r2 := range *y.Referrers() {
						if st, isSt := r2.(*ssa.Store); isSt && st.Addr == ssa.Value(y) {
							writes = append(writes, st)
						}
					}
				}
			}
			// single assignment: a field is given its value once
			for fi, fas := range fields {
				if typ != "chunk" {
					break // (a switch branch's default is settled case by case: C03.b)
				}
				var sts []*ssa.Store
				for _, fa := range fas {
					if fa.Referrers() == nil {
						continue
					}
					for _, r2 := range *fa.Referrers() {
						if st, isSt := r2.(*ssa.Store); isSt && st.Addr == ssa.Value(fa) {
							sts = append(sts, st)
						}
					}
				}
				for _, w1 := range sts {
					for _, w2 := range sts {
						if w1 == w2 {
							continue
						}
						if _, found := existsPath(pathQuery{from: after(w1), target: func(in ssa.Instruction) bool { return in == ssa.Instruction(w2) }, stopAt: func(in ssa.Instruction) bool { return in == ssa.Instruction(a) }}); found {
							k++
							c.Bad(fmt.Sprintf("%s/field-assigned-twice#%d", c.W.FuncKey(fn), k), c.W.Pos(w2.Pos()), "field "+fieldName(a.Type(), fi)+" of the "+typ+" made at "+c.W.Pos(a.Pos())+" is assigned at "+c.W.Pos(w1.Pos())+" and again at "+c.W.Pos(w2.Pos())+": the wiring a chunk or brancher is built with is not revised afterwards")
						}
					}
				}
			}
			for _, w := range writes {
				for _, pub := range published {
					if pub.Block() == nil {
						continue
					}
					_, found := existsPath(pathQuery{from: after(pub), target: func(in ssa.Instruction) bool { return in == ssa.Instruction(w) }, stopAt: func(in ssa.Instruction) bool { return in == ssa.Instruction(a) }})
					if found {
						k++
						c.Bad(fmt.Sprintf("%s/written-after-handed-out#%d", c.W.FuncKey(fn), k), c.W.Pos(w.Pos()), "the "+typ+" made at "+c.W.Pos(a.Pos())+" is written ("+pretty(c.term(fn, w.Addr))+") after it was handed out at "+c.W.Pos(pub.Pos())+": whoever holds it sees the change, the state that was finalised is altered")
						break
					}
				}
			}
		})
	}
	c.Check(nObj >= 20, "immutable/objects-followed", "-", fmt.Sprintf("%d chunk / brancher objects followed from their making to their hand-over", nObj), fmt.Sprintf("only %d chunk / brancher allocations found", nObj))
}

// exprRoot: the term of the operator expression a comparison renderer works on — a field of
// the destination it is given, or a parameter of its own.
func exprRoot(fn *ssa.Function) string {
	for i, p := range fn.Params {
		if typeIs(p.Type(), "ast", "OperatorExpression") {
			return fmt.Sprintf("$%d", i)
		}
	}
	for i, p := range fn.Params {
		if typeIs(p.Type(), "emitter", "conditionDestination") {
			return fmt.Sprintf("$%d.operatorExpression", i)
		}
	}
	return "$1.operatorExpression"
}

// chunkWritesOnlyNew: every store in fn to field f of a chunk goes to a chunk that fn allocated, or
// that a repo function called by fn allocated and returned (all of whose chunk results are its
// own allocations).
func chunkWritesOnlyNew(c *Ctx, fn *ssa.Function, f string) bool {
	isCtor := func(g *ssa.Function) bool {
		if g == nil || !c.W.InRepo(g) || len(g.Blocks) == 0 {
			return false
		}
		n := 0
		for _, r := range returnsOf(g) {
			for _, res := range r.Results {
				if !typeIs(res.Type(), "emitter", "chunk") {
					continue
				}
				n++
				if _, own := res.(*ssa.Alloc); !own {
					return false
				}
			}
		}
		return n > 0
	}
	ok := true
	for _, st := range storesToField(fn, "emitter", "chunk", f) {
		switch r := rootValue(st.Addr).(type) {
		case *ssa.Alloc:
		case *ssa.Call:
			ok = ok && isCtor(callee(r))
		case *ssa.Extract:
			cl, isCall := r.Tuple.(*ssa.Call)
			ok = ok && isCall && isCtor(callee(cl))
		default:
			if !isFreshLocal(st.Addr) {
				ok = false
			}
		}
	}
	return ok
}
