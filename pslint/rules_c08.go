package main

// C08 — mapscripts emit complete, ordered, terminated tables whose entries resolve.

import (
	"fmt"
	"go/types"
	"strings"

	"golang.org/x/tools/go/ssa"
)

func init() {
	property("C08",
		"Static conformance of mapscripts handling: (a) emission skeleton — header label; one 'map_script <type>, <name>' line per plain entry then per table, each over the full range; '.byte 0' once after both and before any inline script; the inline scripts of plain entries (each entry's own Script); per table: its label, one 'map_script_2 <condition>, <comparison>, <name>' line per entry of that table over the full range, '.2byte 0' once after them inside the table loop, then the inline scripts of that table's own entries; (b) name binding — the name stored in an inline entry is the name of the script node built for it, table names are what header and table label print, entry names are numbered by a counter incremented once per entry; (c) inline bodies are parsed by the block parser and emitted by the script emitter; (d) entries are only ever appended, in the loop that reads them. Every map script type read is recorded, empty tables included (C08.d); inline scripts are emitted with the text-label set built in Emit (C20.e); Emit is total (C10.f); gathered condition / comparison values are the tokens joined by single spaces (C13.f).",
		[]string{"scheme argument of DESIGN §4 C08; inline script behaviour relies on C01"},
		"C08.a", "C08.b", "C08.c", "C08.d", "C06.c", "C13.a", "C01.h", "C20.e", "C10.f", "C13.f", "C08.e", "C10.g", "C18.m", "C18.d", "C18.n", "C19.b", "C19.c", "C19.d", "C19.e")

	register(&Rule{ID: "C08.a", Doc: "emission skeleton: order, full ranges, terminators, own scripts", Floor: 12, Run: c08a})
	register(&Rule{ID: "C08.b", Doc: "name binding between entries, script nodes, tables and the numbering counter", Floor: 6, Run: c08b})
	register(&Rule{ID: "C08.c", Doc: "inline bodies parsed by the block parser and emitted by the script emitter", Floor: 3, Run: c08c})
	register(&Rule{ID: "C08.d", Doc: "entries appended in source order only", Floor: 4, Run: c08d})
}

// noEarlyExit: the loop containing b has no successful exit other than its header test and
// no return except error returns.
func noEarlyExit(c *Ctx, fn *ssa.Function, b *ssa.BasicBlock) bool {
	h := loopHeaders(fn)[b]
	if h == nil {
		return false
	}
	body := loopBody(h)
	for x := range body {
		for _, s := range x.Succs {
			if !body[s] && x != h {
				// leaving from inside: only allowed into an error return
				r, ok := s.Instrs[len(s.Instrs)-1].(*ssa.Return)
				if !ok || c.isSuccessRet(fn, r) {
					return false
				}
			}
		}
	}
	return true
}

func c08a(c *Ctx) {
	fn := c.Fn("emitter.Emitter.emitMapScriptStatement")
	es := c.Fn("emitter.Emitter.emitScriptStatement")
	if fn == nil || es == nil {
		return
	}
	ws := c.sitesOf(fn)
	find := func(format string, pred func(ws writeSite) bool) []writeSite {
		var out []writeSite
		for _, w := range ws {
			if w.format == format && (pred == nil || pred(w)) {
				out = append(out, w)
			}
		}
		return out
	}
	argT := func(w writeSite, i int) string {
		if i < len(w.argT) {
			return w.argT[i]
		}
		return ""
	}
	ranged := func(t, base string) (string, bool) { // t = base[phi+1]<rest>
		if !strings.HasPrefix(t, base+"[phi(") {
			return "", false
		}
		i := strings.Index(t[len(base):], "+1]")
		if i < 0 {
			return "", false
		}
		return t[:len(base)+i+3], true
	}
	pos := c.W.FuncPos(fn)
	// header lines
	ms := find("\tmap_script %s, %s\n", nil)
	var plain, table *writeSite
	for i := range ms {
		if e, ok := ranged(argT(ms[i], 0), "$1.MapScripts"); ok && argT(ms[i], 0) == e+".Type.Literal" && argT(ms[i], 1) == e+".Name" {
			plain = &ms[i]
		}
		if e, ok := ranged(argT(ms[i], 0), "$1.TableMapScripts"); ok && argT(ms[i], 0) == e+".Type.Literal" && argT(ms[i], 1) == e+".Name" {
			table = &ms[i]
		}
	}
	c.Check(plain != nil && len(ms) == 2, "header/plain-entries", pos, "one 'map_script type, name' per plain entry (type and name of the same entry)", "no 'map_script <entry.Type>, <entry.Name>' line over the full range of MapScripts")
	c.Check(table != nil && len(ms) == 2, "header/table-entries", pos, "one 'map_script type, name' per table", "no 'map_script <table.Type>, <table.Name>' line over the full range of TableMapScripts")
	if plain == nil || table == nil {
		return
	}
	// lines are written unconditionally inside their loops (nothing but the range test guards them)
	uncond := func(w *writeSite) bool {
		d := dropAtoms(w.cond, func(a string) bool {
			return isRangeTest(a) || strings.Contains(a, ".Scope == ")
		})
		return dnfEquiv(d, mkDNF([]string{}))
	}
	c.Check(uncond(plain) && uncond(table), "header/lines-unconditional", pos, "every entry gets its header line, whatever the options", "a header line is written only under an extra condition (entries could be skipped)")
	c.Check(noEarlyExit(c, fn, plain.call.Block()) && noEarlyExit(c, fn, table.call.Block()), "header/full-ranges", pos, "both header loops run over all entries", "a header loop can be left early")
	c.Check(!canReach(table.call.(ssa.Instruction), plain.call.(ssa.Instruction)), "header/plain-before-tables", pos, "plain entries are listed before table entries", "table entries can be listed before plain entries")
	// .byte 0
	bz := find("\t.byte 0\n\n", nil)
	okB := len(bz) == 1 && !isInLoopRegion(bz[0].call.Block()) && canReach(plain.call.(ssa.Instruction), bz[0].call.(ssa.Instruction)) && canReach(table.call.(ssa.Instruction), bz[0].call.(ssa.Instruction)) &&
		!canReach(bz[0].call.(ssa.Instruction), plain.call.(ssa.Instruction)) && !canReach(bz[0].call.(ssa.Instruction), table.call.(ssa.Instruction))
	if okB {
		d := dropAtoms(bz[0].cond, func(a string) bool { return strings.Contains(a, "Scope") })
		okB = dnfEquiv(d, mkDNF([]string{}))
	}
	c.Check(okB, "header/terminator", pos, "'.byte 0' exactly once, unconditionally, after all header lines", "the header terminator '.byte 0' is not written exactly once after both header loops")
	// script emissions: performed here or through helpers (the calls are read as fn sees them)
	var plainScript, tableScript *vCall
	vcs := c.virtualCalls(fn, es, 2)
	for i := range vcs {
		if len(vcs[i].argT) < 2 {
			continue
		}
		a := vcs[i].argT[1]
		if e, ok := ranged(a, "$1.MapScripts"); ok && a == e+".Script" {
			plainScript = &vcs[i]
		}
		if e, ok := ranged(a, "$1.TableMapScripts"); ok {
			if e2, ok2 := ranged(a, e+".Entries"); ok2 && a == e2+".Script" {
				tableScript = &vcs[i]
			}
		}
	}
	nScripts := len(vcs)
	c.Check(plainScript != nil && nScripts == 2, "scripts/plain-own-script", pos, "each plain entry's own inline script is emitted", "inline scripts of plain entries are not emitted as emitScriptStatement(entry.Script) over the range of MapScripts")
	c.Check(tableScript != nil && nScripts == 2, "scripts/table-own-scripts", pos, "each table entry's own inline script is emitted inside its table's iteration", "inline scripts of table entries are not emitted as emitScriptStatement(entry.Script) over the entries of the table being emitted (scripts would be missing, duplicated or attached to the wrong table)")
	for _, vc := range []*vCall{plainScript, tableScript} {
		if vc == nil {
			continue
		}
		a := vc.argT[1]
		// the text of this very call is appended to a builder of the function that makes it
		written := false
		for _, w := range writeSites(vc.origin) {
			if ex, ok := w.arg.(*ssa.Extract); ok && ex.Tuple == vc.inner.(ssa.Value) && ex.Index == 0 {
				_, isParam := w.sb.(*ssa.Parameter)
				written = isParam || vc.origin == fn
			}
		}
		guarded := !vc.cond.unknown && len(vc.cond.cs) > 0
		for _, cj := range vc.cond.cs {
			guarded = guarded && hasLit(cj, "-("+a+" == nil)")
		}
		// ... and iff: apart from walking the entries and from earlier scripts having been emitted
		// without error, presence is the only condition
		if guarded {
			d := dropAtoms(vc.cond, func(at string) bool {
				return isRangeTest(at) || (strings.Contains(at, "emitScriptStatement") && strings.HasSuffix(at, " == nil)")) || (strings.Contains(at, "emitInlineMapScript") || strings.Contains(at, "emitTableMapScript")) && strings.HasSuffix(at, " == nil)")
			})
			if !dnfEquiv(d, mkDNF([]string{"-(" + a + " == nil)"})) {
				guarded = false
			}
		}
		full := true
		fnOf := map[*ssa.BasicBlock]*ssa.Function{}
		for _, b := range vc.blocks {
			fnOf[b] = b.Parent()
		}
		for _, b := range vc.blocks {
			if loopHeaders(b.Parent())[b] != nil && !noEarlyExit(c, b.Parent(), b) {
				full = false
			}
		}
		c.Check(guarded && written && full,
			"scripts/guard-written-after-header["+pretty(a)+"]", c.W.Pos(vc.site.Pos()), "emitted iff present, appended to the output, for every entry", "an inline script is not (emitted iff non-nil, its text appended, for every entry)")
	}
	// shape of the whole output, wherever its pieces are written
	if sbv := returnedBuilder(fn); sbv != nil {
		nfa := c.outputNFA(fn, sbv)
		mark := gOpt(gLit("# %d \"%s\"\n"))
		want := gSeq(
			gAlt(gLit("%s::\n"), gLit("%s:\n")),
			gStar(gSeq(mark, gLit("\tmap_script %s, %s\n"))),
			gLit("\t.byte 0\n\n"),
			gStar(gAtom("emitScriptStatement")),
			gStar(gSeq(gLit("%s:\n"), gStar(gSeq(mark, gLit("\tmap_script_2 %s, %s, %s\n"))), gLit("\t.2byte 0\n\n"), gStar(gAtom("emitScriptStatement")))),
		)
		okG, word := nfa.includedIn(want)
		c.Check(okG, "output-shape", pos, "every output is: label, header lines, '.byte 0', plain inline scripts, then per table: label, entry lines, '.2byte 0', the table's inline scripts", "the map script statement can write "+fmt.Sprintf("%q", word)+", which is not of the shape "+want.String())
	} else {
		c.Bad("output-shape", pos, "cannot find the builder whose text is returned")
	}
	// tables
	lbl := find("%s:\n", func(w writeSite) bool { _, ok := ranged(argT(w, 0), "$1.TableMapScripts"); return ok })
	ent := find("\tmap_script_2 %s, %s, %s\n", nil)
	tz := find("\t.2byte 0\n\n", nil)
	if len(lbl) != 1 || len(ent) != 1 || len(tz) != 1 || tableScript == nil {
		c.Bad("tables/skeleton", pos, fmt.Sprintf("expected one table label, one entry line and one '.2byte 0' (found %d, %d, %d)", len(lbl), len(ent), len(tz)))
		return
	}
	tbl, _ := ranged(argT(lbl[0], 0), "$1.TableMapScripts")
	c.Check(argT(lbl[0], 0) == tbl+".Name", "tables/label", c.W.Pos(lbl[0].call.Pos()), "table label = the name the header refers to", "table label prints "+pretty(argT(lbl[0], 0))+", expected table.Name")
	e, okE := ranged(argT(ent[0], 0), tbl+".Entries")
	c.Check(okE && argT(ent[0], 0) == e+".Condition.Literal" && argT(ent[0], 1) == e+".Comparison" && argT(ent[0], 2) == e+".Name" && noEarlyExit(c, fn, ent[0].call.Block()), "tables/entry-line", c.W.Pos(ent[0].call.Pos()), "one 'map_script_2 cond, value, name' per entry of this table (all three from the same entry)", "entry lines are not (entry.Condition.Literal, entry.Comparison, entry.Name) over the full range of the table's own entries")
	c.Check(uncond(&ent[0]) && uncond(&lbl[0]) && uncond(&tz[0]), "tables/lines-unconditional", c.W.Pos(ent[0].call.Pos()), "table label, every entry line and the terminator are written unconditionally", "a table line is written only under an extra condition (rows could be skipped, e.g. depending on line markers)")
	c.Check(noEarlyExit(c, fn, lbl[0].call.Block()), "tables/all-tables", c.W.Pos(lbl[0].call.Pos()), "every table is emitted", "the table loop can be left early")
	c.Check(!canReach(lbl[0].call.(ssa.Instruction), bz[0].call.(ssa.Instruction)) && (plainScript == nil || !canReach(lbl[0].call.(ssa.Instruction), plainScript.site.(ssa.Instruction))), "tables/after-plain-scripts", c.W.Pos(lbl[0].call.Pos()), "tables follow the header and the plain inline scripts", "tables are emitted before the header terminator / plain inline scripts")
}

func c08b(c *Ctx) {
	fn := c.Fn("parser.Parser.parseMapscriptsStatement")
	if fn == nil {
		return
	}
	// composite literals MapScript / TableMapScriptEntry / TableMapScript (local struct values)
	nInline := 0
	var counter string
	instrs(fn, func(in ssa.Instruction) {
		a, ok := in.(*ssa.Alloc)
		if !ok || a.Comment != "complit" {
			return
		}
		var whole string
		var usePt ssa.Instruction = a
		for _, ref := range *a.Referrers() {
			if u, ok := ref.(*ssa.UnOp); ok && u.X == ssa.Value(a) {
				whole = c.term(fn, u)
				usePt = u
			}
		}
		_, f := c.withFields(fn, whole)
		if f == nil {
			return
		}
		pos := c.W.Pos(a.Pos())
		switch {
		case typeIs(a.Type(), "ast", "MapScript") || typeIs(a.Type(), "ast", "TableMapScriptEntry"):
			kind := "plain"
			if typeIs(a.Type(), "ast", "TableMapScriptEntry") {
				kind = "table-entry"
			}
			if f["Script"] == "" || f["Script"] == "nil" {
				// label form: name = the identifier token's literal
				okLit := strings.HasSuffix(f["Name"], ".Literal")
				if nv := fieldValue(a, "Name", usePt); !okLit && nv != nil {
					// the label read by a helper: every alternative it returns is a token's literal
					okLit = true
					for _, dl := range c.deepLeaves(fn, nv, 2) {
						okLit = okLit && strings.HasSuffix(dl.term, ".Literal")
					}
				}
				c.Check(okLit, "binding/"+kind+"/label-form", pos, "':' form refers to the written label", kind+" label-form entry name is "+pretty(f["Name"]))
				return
			}
			nInline++
			// inline: Script is a ScriptStatement (built in place or by a constructor helper) whose
			// Name.Value == entry Name; Body from parseBlockStatement
			okName, okBody := false, false
			if sv := fieldValue(a, "Script", usePt); sv != nil {
				okName = c.nodePath(fn, sv, usePt, "Name", "Value") == f["Name"]
				body := c.nodePath(fn, sv, usePt, "Body")
				okBody = strings.HasPrefix(body, "(*parser.Parser).parseBlockStatement@") && strings.HasSuffix(body, "#0")
				// the block was parsed with the same script name (labels of hoisted data)
				if bs := c.W.Method("parser", "Parser", "parseBlockStatement"); bs != nil {
					for _, call := range callsToIn(fn, bs) {
						if c.term(fn, call.(ssa.Value))+"#0" == body && c.term(fn, call.Common().Args[1]) != f["Name"] {
							okBody = false
						}
					}
				}
			}
			c.Check(okName, "binding/"+kind+"/inline-name", pos, "the entry refers to the label of the script node built for it", "the name stored in the "+kind+" entry ("+pretty(f["Name"])+") is not the name of its inline script node: the table would reference an undefined label")
			c.Check(okBody, "binding/"+kind+"/inline-body", pos, "the inline body is the block parsed under that script name", "the inline script's body is not the block parsed with the entry's script name")
			want := "%s_%s"
			if kind == "table-entry" {
				want = "%s_%s_%d"
			}
			got := ""
			if nv := fieldValue(a, "Name", usePt); nv != nil {
				got, _, _ = flatTemplate(nv, 0)
			}
			c.Check(got == want, "binding/"+kind+"/name-format", pos, "generated name format", "generated "+kind+" script name is "+pretty(f["Name"])+" (template "+q(got)+", expected "+q(want)+")")
		case typeIs(a.Type(), "ast", "TableMapScript"):
			got := ""
			if nv := fieldValue(a, "Name", usePt); nv != nil {
				got, _, _ = flatTemplate(nv, 0)
			}
			c.Check(got == "%s_%s" && strings.HasPrefix(f["Entries"], "phi("), "binding/table/name-and-entries", pos, "table name = <mapscripts>_<type>; entries = the list built for it", "TableMapScript built with Name="+pretty(f["Name"])+" Entries="+pretty(f["Entries"]))
		}
	})
	c.Check(nInline == 2, "binding/inline-sites", c.W.FuncPos(fn), "two inline-script sites (plain, table entry)", fmt.Sprintf("found %d inline entry sites, expected 2", nInline))
	// the %d of entry names: a counter phi incremented once per iteration of the entry loop
	okCounter := false
	for _, ci := range callsNamed(fn, "fmt.Sprintf") {
		f, ops, ok := flatTemplate(ci.(ssa.Value), 0)
		if !ok || f != "%s_%s_%d" || len(ops) != 3 {
			continue
		}
		// alternative: the number of entries collected so far, when every iteration of the
		// entry loop appends exactly one entry to a list that starts empty
		if lc, ok := ops[2].(*ssa.Call); ok && calleeName(lc) == "builtin:len" {
			if lp, ok := lc.Call.Args[0].(*ssa.Phi); ok && isLoopHeader(lp.Block()) {
				empty, grows := false, true
				for i, e := range lp.Edges {
					if !lp.Block().Dominates(lp.Block().Preds[i]) {
						if strings.HasPrefix(c.term(fn, e), "new") || strings.Contains(c.term(fn, e), "[:0]") || strings.HasPrefix(c.term(fn, e), "slicelit") {
							empty = true
						}
						if sl, ok := e.(*ssa.Slice); ok {
							if al, ok := sl.X.(*ssa.Alloc); ok {
								if arr, ok := deref(al.Type()).Underlying().(*types.Array); ok && arr.Len() == 0 {
									empty = true
								}
							}
						}
						continue
					}
					if !c.edgeFeasible(fn, lp.Block().Preds[i], lp.Block()) {
						continue // e.g. "neither ':' nor '{'" after a loop that only stops at one of them
					}
					var leaves []ssa.Value
					phiLeaves(e, map[ssa.Value]bool{}, &leaves)
					for _, lf := range leaves {
						ap, isCall := lf.(*ssa.Call)
						if !isCall || calleeName(ap) != "builtin:append" || len(appendElems(ap)) != 1 {
							grows = false
							continue
						}
						if ap.Call.Args[0] != ssa.Value(lp) {
							grows = false // appended to something other than the list as it entered this iteration
						}
					}
				}
				if empty && grows {
					okCounter = true
					counter = c.term(fn, lc)
				}
			}
			continue
		}
		ph, isPhi := ops[2].(*ssa.Phi)
		if !isPhi || !isLoopHeader(ph.Block()) {
			continue
		}
		counter = c.term(fn, ph)
		zero, inc := false, false
		for i, e := range ph.Edges {
			et := c.term(fn, e)
			if et == "0" && !ph.Block().Dominates(ph.Block().Preds[i]) {
				zero = true
			}
			if et == counter+"+1" && ph.Block().Dominates(ph.Block().Preds[i]) {
				inc = true
			}
		}
		okCounter = zero && inc
	}
	c.Check(okCounter, "binding/entry-counter", c.W.FuncPos(fn), "entry names are numbered by a counter that starts at 0 for each table and grows by one per entry", "the number in table entry script names is not a per-table counter incremented once per entry")
}

func c08c(c *Ctx) {
	fn := c.Fn("parser.Parser.parseMapscriptsStatement")
	bs := c.Fn("parser.Parser.parseBlockStatement")
	pst := c.Fn("parser.Parser.parseScriptStatement")
	if fn == nil || bs == nil || pst == nil {
		return
	}
	c.Check(len(callsToIn(fn, bs)) == 2, "inline-bodies/block-parser", c.W.FuncPos(fn), "inline map script bodies are parsed by parseBlockStatement", "inline map script bodies are not parsed by the ordinary block parser")
	c.Check(len(callsToIn(pst, bs)) == 1, "script-bodies/block-parser", c.W.FuncPos(pst), "script statement bodies are parsed by the same block parser", "script statements no longer use parseBlockStatement")
	em := c.Fn("emitter.Emitter.Emit")
	es := c.Fn("emitter.Emitter.emitScriptStatement")
	if em != nil && es != nil {
		c.Check(len(callsToIn(em, es)) == 1, "script-emitter/shared", c.W.FuncPos(em), "script statements and inline map scripts go through the same emitter", "Emit no longer calls emitScriptStatement")
	}
}

func c08d(c *Ctx) {
	fn := c.Fn("parser.Parser.parseMapscriptsStatement")
	if fn == nil {
		return
	}
	// an entry is only read while the table is still open: the turn that gathers an entry begins
	// under "the current token is not ']'" (tested before the first entry too — an empty table
	// `[ ]` has no entries and does not swallow what follows it)
	{
		n := 0
		instrs(fn, func(in ssa.Instruction) {
			a, ok := in.(*ssa.Alloc)
			if !ok || a.Comment != "complit" || !typeIs(a.Type(), "ast", "TableMapScriptEntry") {
				return
			}
			h := loopHeaders(fn)[a.Block()]
			if h == nil {
				return
			}
			n++
			okOpen := false
			for _, sc := range h.Succs {
				if !loopBody(h)[sc] {
					continue
				}
				for _, l := range c.mustLits(fn, sc) {
					if l2 := verRe.ReplaceAllString(l, ""); l2 == `-($0.curToken.Type == "]")` {
						okOpen = true
					}
				}
			}
			c.Check(okOpen, fmt.Sprintf("table-entry-loop/entered-only-while-open#%d", n), c.W.Pos(h.Instrs[0].Pos()), "a table entry is read only while the current token is not ']'", "the loop over the table entries reads an entry without having tested for the closing ']' first: an empty table swallows the tokens that follow it into a bogus entry")
		})
		c.Check(n >= 1, "table-entry-loop/found", c.W.FuncPos(fn), "the table entry loop was found", "no table entry built inside a loop found")
	}
	for _, f := range []string{"MapScripts", "TableMapScripts"} {
		n := 0
		ok := true
		for _, st := range storesToField(fn, "ast", "MapScriptsStatement", f) {
			v := c.term(fn, st.Val)
			if strings.HasPrefix(v, "new#") && strings.Contains(v, "[0]ast.") {
				continue // initial empty slice
			}
			n++
			if !strings.HasPrefix(v, "builtin:append(") || !strings.Contains(v, "."+f) {
				ok = false
			}
			// one entry at a time, in the iteration of the entry loop that parsed it
			if len(appendElems(st.Val)) != 1 || !isInLoopRegion(st.Block()) {
				ok = false
			}
		}
		// every entry literal built in the function goes straight into the statement's list
		elemType := map[string]string{"MapScripts": "MapScript", "TableMapScripts": "TableMapScript"}[f]
		instrs(fn, func(in ssa.Instruction) {
			a, isA := in.(*ssa.Alloc)
			if !isA || a.Comment != "complit" || !typeIs(a.Type(), "ast", elemType) {
				return
			}
			direct := false
			for _, ci := range callsIn(fn) {
				call, isCall := ci.(*ssa.Call)
				if !isCall || calleeName(call) != "builtin:append" {
					continue
				}
				for _, e := range appendElems(call) {
					if u, isU := e.(*ssa.UnOp); isU && u.X == ssa.Value(a) && strings.Contains(c.term(fn, call.Call.Args[0]), "."+f) {
						direct = true
					}
				}
			}
			c.Check(direct, "append-only/"+f+"/entry-appended-in-place", c.W.Pos(a.Pos()), "the entry is appended to "+f+" where it is parsed", "a "+elemType+" entry is not appended directly to the statement's "+f+" in the iteration that parsed it: entries would not keep their source order")
		})
		want := 2
		if f == "TableMapScripts" {
			want = 1
		}
		c.Check(ok && n == want, "append-only/"+f, c.W.FuncPos(fn), f+" only grows by appending in the parse loop", f+" is modified other than by appending in source order")
	}
	// every iteration of the type loop that does not fail records an entry or a table: nothing
	// that was read is left out because of what it contains (an empty table is still a table)
	{
		var sinks []ssa.Instruction
		for _, f := range []string{"MapScripts", "TableMapScripts"} {
			for _, st := range storesToField(fn, "ast", "MapScriptsStatement", f) {
				if strings.HasPrefix(c.term(fn, st.Val), "builtin:append(") && isInLoopRegion(st.Block()) {
					sinks = append(sinks, st)
				}
			}
		}
		if len(sinks) > 0 {
			// the outermost loop around the appends is the loop over the map script types
			heads := loopHeaders(fn)
			outer := sinks[0]
			for _, sk := range sinks {
				if h, ho := heads[sk.Block()], heads[outer.Block()]; h != nil && ho != nil && len(loopBody(h)) > len(loopBody(ho)) {
					outer = sk
				}
			}
			ordered := append([]ssa.Instruction{outer}, sinks...)
			w, skip := loopSkip(fn, ordered...)
			c.Check(!skip, "append-only/every-type-recorded", c.W.FuncPos(fn), "every map script type that is read ends up in MapScripts or TableMapScripts", "a map script type can be read without being recorded (an iteration can reach "+c.nearPos(w)+" without an append): it would be missing from the header")
		}
	}
	// ... and every entry of a table that is read is kept: no turn of the entry loop goes round
	// without appending an entry (a repeated (var, value) pair is still an entry of the table)
	{
		var sinks []ssa.Instruction
		for _, ci := range callsIn(fn) {
			call, ok := ci.(*ssa.Call)
			if !ok || calleeName(call) != "builtin:append" {
				continue
			}
			if sl, ok := call.Type().Underlying().(*types.Slice); ok && typeIs(sl.Elem(), "ast", "TableMapScriptEntry") && loopHeaders(fn)[call.Block()] != nil {
				sinks = append(sinks, call)
			}
		}
		if len(sinks) > 0 {
			// the innermost loop round the appends is the entry loop
			heads := loopHeaders(fn)
			inner := sinks[0]
			for _, sk := range sinks {
				if h, hi := heads[sk.Block()], heads[inner.Block()]; h != nil && hi != nil && len(loopBody(h)) < len(loopBody(hi)) {
					inner = sk
				}
			}
			ordered := append([]ssa.Instruction{inner}, sinks...)
			w, skip := loopSkipEdges(fn, c.feasibleEdges(fn), ordered...)
			c.Check(!skip, "append-only/every-entry-recorded", c.W.Pos(inner.Pos()), "every table entry that is read is appended", "a table entry can be read without being appended (a turn of the entry loop can reach "+c.nearPos(w)+" without an append): the table would lack rows that were written")
		} else {
			c.Bad("append-only/every-entry-recorded", c.W.FuncPos(fn), "no append of a table entry found inside the entry loop")
		}
	}
	// tableEntries phi: append only
	okEntries := false
	instrs(fn, func(in ssa.Instruction) {
		if p, ok := in.(*ssa.Phi); ok && strings.Contains(p.Comment, "tableEntries") || func() bool {
			p, ok := in.(*ssa.Phi)
			if !ok {
				return false
			}
			_, isSl := p.Type().Underlying().(interface{ Elem() interface{} })
			_ = isSl
			return false
		}() {
			_ = p
		}
	})
	for _, ci := range callsIn(fn) {
		call, ok := ci.(*ssa.Call)
		if !ok || calleeName(call) != "builtin:append" {
			continue
		}
		for _, e := range varargElems(call.Call.Args[1]) {
			if _, f := c.withFields(fn, c.term(fn, e)); f != nil && f["Comparison"] != "" {
				if ph, isPhi := call.Call.Args[0].(*ssa.Phi); isPhi && isLoopHeader(ph.Block()) {
					okEntries = true
				}
			}
		}
	}
	c.Check(okEntries, "append-only/table-entries", c.W.FuncPos(fn), "table entries are appended to the list of the table being parsed", "table entries are not appended to the running list of their table")
}

// returnedBuilder: the strings.Builder whose String() the function returns on success.
func returnedBuilder(fn *ssa.Function) ssa.Value {
	for _, r := range returnsOf(fn) {
		if len(r.Results) == 0 {
			continue
		}
		if call, ok := r.Results[0].(*ssa.Call); ok && calleeName(call) == "(*strings.Builder).String" {
			return call.Call.Args[0]
		}
	}
	return nil
}
