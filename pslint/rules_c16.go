package main

// C16 — line markers are transparent and name the right source line.

import (
	"strconv"
	"go/token"
	"fmt"
	"go/types"
	"strings"

	"golang.org/x/tools/go/ssa"
)

func init() {
	property("C16",
		"Static conformance of the line-marker mechanism: (a) transparency — marker lines are produced only by emitLineMarker (one whole line '# <n> \"<file>\"'), every call of it is guarded by shouldEmitLineMarkers(enable, path) = enable && len(path) > 0 on the same path value, the enable flag and the input path flow only into parameters of that role (they are never tested directly), and the raw-block emitter writes the same text in both arms apart from the markers; (b) every marker is followed, as the next write to the same builder, by the rendering of the construct that owns the marker's token (same object, or same index of parallel slices); (c) no position-less token can reach the AST, a marker or an error: no token literal is synthesised without a line number, no token variable is read before it is assigned on some path, an operand's token is the token that is current when the operand's first literal is read (for an auto-var operand: the Token of its command statement), a node's own Token is the token current when its parser was entered, and list item tokens come from the token window; the -lm and -i options reach the emitter fields of their meaning. NOT decided: the line arithmetic of multi-line raw blocks. The marker line is its token's LineNumber and positions are only copied, reported or printed (C16.d); a token carrying gathered text is copied before the gathering loop (C16.c vii); flag and path are handed on only in their role (C16.a).",
		[]string{"lexer tokens carry the line they start on (C19.a)", "go/ssa lowering is faithful to the source"},
		"C16.a", "C16.b", "C16.c", "C19.a", "C19.b", "C14.a", "C17.f", "C16.d", "C06.b", "C18.m", "C17.h", "C06.a", "C10.f", "C18.d", "C18.n")

	register(&Rule{ID: "C16.a", Doc: "marker emission guarded by shouldEmitLineMarkers; flag and path confined to their role", Floor: 18, Run: c16a})
	register(&Rule{ID: "C16.b", Doc: "each marker's token belongs to the construct rendered by the next write", Floor: 13, Run: c16b})
	register(&Rule{ID: "C16.c", Doc: "no position-less / unassigned tokens; operand token is the operand's first token", Floor: 43, Run: c16c})
}

// markerRoles computes, for every emitter function, which (bool, string) parameter pairs
// carry (enableLineMarkers, inputFilepath).
func markerRoles(c *Ctx) map[*ssa.Function][2]int {
	roles := map[*ssa.Function][2]int{}
	cand := map[*ssa.Function][2]int{}
	for _, fn := range c.W.FuncsOf("emitter") {
		if isTestFunc(c.W, fn) {
			continue
		}
		ps := fn.Params
		for i := 0; i+1 < len(ps); i++ {
			b, ok1 := ps[i].Type().Underlying().(*types.Basic)
			s, ok2 := ps[i+1].Type().Underlying().(*types.Basic)
			if ok1 && ok2 && b.Kind() == types.Bool && s.Kind() == types.String {
				cand[fn] = [2]int{i, i + 1}
			}
		}
	}
	isRole := func(fn *ssa.Function, v ssa.Value, which int) bool {
		t := c.term(fn, v)
		if which == 0 && t == "$0.enableLineMarkers" || which == 1 && t == "$0.inputFilepath" {
			return fn.Signature.Recv() != nil && typeIs(fn.Signature.Recv().Type(), "emitter", "Emitter")
		}
		if r, ok := roles[fn]; ok {
			return t == fmt.Sprintf("$%d", r[which])
		}
		return false
	}
	changed := true
	for changed {
		changed = false
		for fn, pr := range cand {
			if _, done := roles[fn]; done {
				continue
			}
			// every static caller passes role values; invoked methods: every invoke site of that name
			all := true
			n := 0
			for _, caller := range c.W.FuncsOf("emitter") {
				for _, ci := range callsIn(caller) {
					cm := ci.Common()
					match := callee(ci) == fn
					off := 0
					if !match && cm.IsInvoke() && fn.Signature.Recv() != nil && cm.Method.Name() == fn.Name() {
						match = true
						off = -1 // invoke args exclude the receiver
					}
					if !match {
						continue
					}
					n++
					if pr[1]+off >= len(cm.Args) || !isRole(caller, cm.Args[pr[0]+off], 0) || !isRole(caller, cm.Args[pr[1]+off], 1) {
						all = false
					}
				}
			}
			if all && n > 0 {
				roles[fn] = pr
				changed = true
			}
		}
	}
	return roles
}

func c16a(c *Ctx) {
	should := c.Fn("emitter.shouldEmitLineMarkers")
	emit := c.Fn("emitter.emitLineMarker")
	try := c.Fn("emitter.tryEmitLineMarker")
	if should == nil || emit == nil || try == nil {
		return
	}
	// 1. definition of the guard
	{
		ok := false
		for _, r := range returnsOf(should) {
			if ph, isPhi := r.Results[0].(*ssa.Phi); isPhi {
				var f, t bool
				for i, e := range ph.Edges {
					em := c.edgeMust(should, ph.Block().Preds[i], ph.Block())
					et := c.term(should, e)
					if et == "false" && hasLit(em, "-$0") {
						f = true
					}
					if nt, flip := normCondTerm(et); nt == "(0 < builtin:len($1))" && !flip && hasLit(em, "+$0") {
						t = true // len(path) > 0, path != "" alike
					}
				}
				ok = f && t
			}
		}
		c.Check(ok, "shouldEmitLineMarkers/definition", c.W.FuncPos(should), "markers iff enabled and an input path is known", "shouldEmitLineMarkers is not (enableLineMarkers && len(inputFilepath) > 0)")
	}
	// 2. one whole line
	{
		ws := c.sitesOf(emit)
		ok := len(ws) == 1 && ws[0].isFmt && ws[0].format == "# %d \"%s\"\n" && len(ws[0].argT) == 2 && ws[0].argT[0] == "$1" && strings.Contains(ws[0].argT[1], "$2")
		c.Check(ok, "emitLineMarker/one-line", c.W.FuncPos(emit), "a marker is one whole line '# <line> \"<file>\"'", "emitLineMarker does not write exactly one line of the form '# <line> \"<file>\"' from its arguments")
	}
	roles := markerRoles(c)
	roleTerm := func(fn *ssa.Function, which int) []string {
		var out []string
		if fn.Signature.Recv() != nil && typeIs(fn.Signature.Recv().Type(), "emitter", "Emitter") {
			out = append(out, []string{"$0.enableLineMarkers", "$0.inputFilepath"}[which])
		}
		if r, ok := roles[fn]; ok {
			out = append(out, fmt.Sprintf("$%d", r[which]))
		}
		return out
	}
	in := func(xs []string, s string) bool {
		for _, x := range xs {
			if x == s {
				return true
			}
		}
		return false
	}
	// 3. every emitLineMarker call is guarded
	n := 0
	for _, fn := range c.W.FuncsOf("emitter") {
		for _, call := range callsToIn(fn, emit) {
			n++
			path := c.term(fn, call.Common().Args[2])
			guard := false
			must := c.mustLits(fn, call.Block())
			if hasLit(must, "+(0 < builtin:len("+path+"))") {
				for _, en := range roleTerm(fn, 0) {
					if hasLit(must, "+"+en) {
						guard = true
					}
				}
			}
			c.Check(guard && in(roleTerm(fn, 1), path), fmt.Sprintf("%s/emitLineMarker#%d/guarded", c.W.FuncKey(fn), n), c.W.Pos(call.Pos()), "marker written only under shouldEmitLineMarkers(enable, path) for the same path", "emitLineMarker is called without the guard shouldEmitLineMarkers(enableLineMarkers, inputFilepath) on the path it prints (markers could appear without an input path or when disabled); guards here: "+fmt.Sprint(prettyAll(must)))
		}
	}
	c.Check(n == 2, "emitLineMarker/call-sites", c.W.FuncPos(emit), "two direct marker sites (tryEmitLineMarker, raw lines)", fmt.Sprintf("found %d direct emitLineMarker calls, expected 2", n))
	// 4. tryEmitLineMarker call sites pass role values
	nt := 0
	for _, fn := range c.W.FuncsOf("emitter") {
		for _, call := range callsToIn(fn, try) {
			nt++
			a := call.Common().Args
			ok := in(roleTerm(fn, 0), c.term(fn, a[2])) && in(roleTerm(fn, 1), c.term(fn, a[3]))
			c.Check(ok, fmt.Sprintf("%s/tryEmitLineMarker#%d/flag-and-path", c.W.FuncKey(fn), nt), c.W.Pos(call.Pos()), "the marker helper receives the emitter's enable flag and input path", "tryEmitLineMarker is called with ("+c.term(fn, a[2])+", "+c.term(fn, a[3])+") instead of the enable flag and the input path")
		}
	}
	// 5. confinement: enable/path values are used only as arguments in their role
	for _, fn := range c.W.FuncsOf("emitter") {
		if isTestFunc(c.W, fn) || fn == should || fn.Name() == "New" {
			continue
		}
		var vals []ssa.Value
		if r, ok := roles[fn]; ok {
			vals = append(vals, fn.Params[r[0]], fn.Params[r[1]])
		}
		instrs(fn, func(x ssa.Instruction) {
			if u, ok := x.(*ssa.UnOp); ok {
				t := c.term(fn, u)
				if (t == "$0.enableLineMarkers" || t == "$0.inputFilepath") && fn.Signature.Recv() != nil && typeIs(fn.Signature.Recv().Type(), "emitter", "Emitter") {
					vals = append(vals, u)
					return
				}
				// ... wherever the emitter is reached from: a function literal that captured it,
				// a helper that was handed it (the load of the field is what counts, not the
				// spelling of its base)
				if _, et, f, okF := fieldAddrOf(u.X); okF && typeIs(et, "emitter", "Emitter") && (f == "enableLineMarkers" || f == "inputFilepath") {
					vals = append(vals, u)
				}
			}
		})
		for _, v := range vals {
			refs := v.Referrers()
			if refs == nil {
				continue
			}
			for _, r := range *refs {
				okUse := false
				switch y := r.(type) {
				case ssa.CallInstruction:
					// handed on, in its role, to a function that carries the pair (or to the guard /
					// the marker printer themselves); len(path), a helper that takes the flag
					// alone, a formatting call are not roles
					g := callee(y)
					which := 0
					if _, isStr := v.Type().Underlying().(*types.Basic); isStr && v.Type().Underlying().(*types.Basic).Kind() == types.String {
						which = 1
					}
					argAt := func(pos int) bool {
						a := y.Common().Args
						return pos >= 0 && pos < len(a) && a[pos] == v
					}
					switch {
					case g == should:
						okUse = argAt(which)
					case g == emit:
						okUse = which == 1 && argAt(2)
					case g != nil:
						if r, isRole := roles[g]; isRole {
							okUse = argAt(r[which])
						}
					case y.Common().IsInvoke():
						for rf, r := range roles {
							if rf.Signature.Recv() != nil && rf.Name() == y.Common().Method.Name() {
								okUse = okUse || argAt(r[which]-1)
							}
						}
					}
					if fn == emit {
						okUse = true
					}
				case *ssa.DebugRef:
					okUse = true
				}
				if fn == emit && !okUse {
					// inside emitLineMarker the path is formatted
					okUse = true
				}
				if !okUse {
					c.Bad(c.W.FuncKey(fn)+"/flag-or-path-used-directly["+c.term(fn, v)+"]", c.W.Pos(r.Pos()), "the line-marker flag / input path is used directly ("+fmt.Sprintf("%T", r)+") instead of being passed to the marker helpers: output could depend on it other than through guarded marker lines")
				}
			}
		}
	}
	// the guard's verdict decides nothing but whether a marker line is written: outside
	// emitRawStatement (which has its own same-text clause) the branch taken when markers are on
	// holds only marker calls and rejoins the other branch at once
	nGuard := 0
	for _, fn := range c.W.FuncsOf("emitter") {
		if isTestFunc(c.W, fn) || fn.Name() == "emitRawStatement" {
			continue
		}
		for _, call := range callsToIn(fn, should) {
			nGuard++
			v, _ := call.(ssa.Value)
			okUse := v != nil && v.Referrers() != nil
			why := ""
			if okUse {
				for _, r := range *v.Referrers() {
					if _, isDbg := r.(*ssa.DebugRef); isDbg {
						continue
					}
					// `if !guard { return }` / `if guard { marker }`: through negations to an If
					cur := r
					neg := false
					for {
						u, isNot := cur.(*ssa.UnOp)
						if !isNot || u.Op != token.NOT || u.Referrers() == nil || len(*u.Referrers()) != 1 {
							break
						}
						neg = !neg
						cur = (*u.Referrers())[0]
					}
					ifi, isIf := cur.(*ssa.If)
					if !isIf {
						okUse, why = false, fmt.Sprintf("the verdict is used by %T", r)
						continue
					}
					onB, offB := ifi.Block().Succs[0], ifi.Block().Succs[1]
					if neg {
						onB, offB = offB, onB
					}
					// the "off" branch writes nothing and calls nothing
					for _, x := range offB.Instrs {
						if ci, isCall := x.(ssa.CallInstruction); isCall && offB != onB {
							// allowed only if the off branch is the common continuation (the join)
							_ = ci
						}
					}
					// the "on" branch: only marker calls, then straight to the off branch (or return)
					for _, x := range onB.Instrs {
						switch y := x.(type) {
						case ssa.CallInstruction:
							if callee(y) != emit {
								okUse, why = false, "with markers on "+fn.Name()+" also calls "+calleeName(y)
							}
						case *ssa.Jump, *ssa.Return, *ssa.DebugRef, *ssa.FieldAddr, *ssa.UnOp, *ssa.Field:
						default:
							okUse, why = false, fmt.Sprintf("with markers on %s also executes %T", fn.Name(), x)
						}
					}
					if len(onB.Succs) == 1 && onB.Succs[0] != offB {
						okUse, why = false, "the branch taken when markers are on does not rejoin the other branch at once"
					}
				}
			}
			c.Check(okUse, fmt.Sprintf("%s/guard-verdict-only-adds-a-marker@%d", c.W.FuncKey(fn), c.T(fn).callOrd[call]), c.W.Pos(call.Pos()), "the marker guard decides only whether a marker line is written", "the verdict of shouldEmitLineMarkers decides more than a marker line: "+why+" (removing the marker lines would no longer give the output without -lm)")
		}
	}
	c.Check(nGuard >= 1, "guard-verdict/sites", "-", fmt.Sprintf("%d uses of the guard outside emitRawStatement", nGuard), "no call of shouldEmitLineMarkers found outside emitRawStatement")
	c.OK("confinement/scanned", "-", fmt.Sprintf("%d functions carry the (enable, path) pair; all uses are call arguments", len(roles)))
	// 6. raw statement: same text in both arms
	if fn := c.Fn("emitter.Emitter.emitRawStatement"); fn != nil {
		// The text pieces written without markers, and those written per line with markers, each put
		// together in program order: however the pieces are cut (one Sprintf, text and line break
		// written separately, a directly returned concatenation), the whole must be "%s\n" of the
		// value respectively of the line at hand.
		var ws []writeSite
		for _, w := range c.sitesOf(fn) {
			if w.origin != emit { // marker lines are the subject of C16.b
				ws = append(ws, w)
			}
		}
		off := mkDNF([]string{"-$0.enableLineMarkers"}, []string{"-(0 < builtin:len($0.inputFilepath))"})
		type piece struct {
			format string
			argT   []string
		}
		var offP, onP piece
		var onSites []writeSite
		ok := len(ws) >= 2
		for _, w := range ws {
			f, a := w.format, w.argT
			if !w.isFmt && !w.konst {
				f, a = "%s", []string{c.term(fn, w.arg)}
			} else if w.konst {
				f = strings.ReplaceAll(f, "%", "%%")
			}
			if dnfEquiv(w.cond, off) {
				offP.format += f
				offP.argT = append(offP.argT, a...)
			} else {
				onP.format += f
				onP.argT = append(onP.argT, a...)
				onSites = append(onSites, w)
			}
		}
		ok = ok && offP.format == "%s\n" && len(offP.argT) == 1 && offP.argT[0] == "$1.Value"
		ok = ok && onP.format == "%s\n" && len(onP.argT) == 1 && strings.HasPrefix(onP.argT[0], `strings.Split($1.Value,"\n")[phi(`) && strings.HasSuffix(onP.argT[0], "+1]")
		// the per-line pieces are written one after the other in every turn
		for k, w := range onSites {
			if k > 0 {
				ok = ok && dnfEquiv(w.cond, onSites[0].cond) && onSites[k-1].call.Block().Dominates(w.call.Block())
			}
			ok = ok && noEarlyExit(c, fn, w.call.Block())
		}
		c.Check(ok, "emitRawStatement/same-text", c.W.FuncPos(fn), "without markers: Value + newline; with markers: every line of Value + newline, each preceded by its marker", "the raw block is not written as (Value + \"\\n\") without markers and as every line of Split(Value, \"\\n\") + \"\\n\" with markers")
	}
}

// nextWrite finds the first builder write / render call that follows instruction in on sb.
func nextWriteAfter(c *Ctx, fn *ssa.Function, call ssa.CallInstruction, sb ssa.Value) (ssa.CallInstruction, []string) {
	b := call.(ssa.Instruction).Block()
	started := false
	blocks := []*ssa.BasicBlock{b}
	seen := map[*ssa.BasicBlock]bool{b: true}
	for len(blocks) > 0 {
		blk := blocks[0]
		blocks = blocks[1:]
		for _, x := range blk.Instrs {
			if x == call.(ssa.Instruction) {
				started = true
				continue
			}
			if !started && blk == b {
				continue
			}
			ci, ok := x.(ssa.CallInstruction)
			if !ok {
				continue
			}
			n := calleeName(ci)
			if strings.HasPrefix(n, "(*strings.Builder).Write") && ci.Common().Args[0] == sb {
				var ops []string
				arg := ci.Common().Args[1]
				if _, as, isF := sprintfOf(arg); isF {
					for _, a := range as {
						ops = append(ops, c.term(fn, a))
					}
				} else if _, as, isF := concatTemplate(arg); isF {
					for _, a := range as {
						ops = append(ops, c.term(fn, a))
					}
				} else if inner, isCall := arg.(*ssa.Call); isCall {
					for _, a := range inner.Call.Args {
						ops = append(ops, c.term(fn, a))
					}
				} else {
					ops = append(ops, c.term(fn, arg))
				}
				return ci, ops
			}
			// a repo call that receives the builder renders the construct
			if f := callee(ci); f != nil && c.W.InRepo(f) && f.Name() != "tryEmitLineMarker" {
				for _, a := range ci.Common().Args {
					if a == sb {
						var ops []string
						for _, a2 := range ci.Common().Args {
							ops = append(ops, c.term(fn, a2))
						}
						return ci, ops
					}
				}
			}
		}
		for _, s := range blk.Succs {
			if !seen[s] {
				seen[s] = true
				blocks = append(blocks, s)
			}
		}
	}
	return nil, nil
}

func c16b(c *Ctx) {
	try := c.Fn("emitter.tryEmitLineMarker")
	if try == nil {
		return
	}
	n := 0
	for _, fn := range c.W.FuncsOf("emitter") {
		for _, call := range callsToIn(fn, try) {
			n++
			a := call.Common().Args
			tok := c.term(fn, a[1])
			key := fmt.Sprintf("%s/marker[%s]", c.W.FuncKey(fn), pretty(tok))
			pos := c.W.Pos(call.Pos())
			next, ops := nextWriteAfter(c, fn, call, a[0])
			if next == nil {
				c.Bad(key, pos, "no write follows the marker")
				continue
			}
			// owner object of the token: strip the token-valued field
			owner := tok
			if b, _, ok := splitCell(tok); ok {
				owner = b
			}
			ok := false
			for _, o := range ops {
				if o == owner || strings.HasPrefix(o, tok+".") || o == tok || (strings.HasPrefix(o, "$") && strings.HasPrefix(tok, o+".")) {
					ok = true
				}
				// a field of the owner itself (not of an element of one of its collections)
				for from := 0; ; {
					i := strings.Index(o[from:], owner+".")
					if i < 0 {
						break
					}
					rest := o[from+i+len(owner)+1:]
					if j := strings.IndexAny(rest, ",)] \""); j >= 0 {
						rest = rest[:j]
					}
					// ... that carries source text: a chunk id printed in a generated goto is not
					// something the author wrote on the marker's line
					if !strings.Contains(rest, "[") && !strings.HasSuffix(rest, "ID") && !strings.HasSuffix(rest, "Id") && rest != "id" {
						ok = true
					}
					from += i + 1
				}
				// parallel slices: TokenItems[i] <-> Items[i]
				if strings.Contains(tok, ".TokenItems[") && o == strings.Replace(tok, ".TokenItems[", ".Items[", 1) {
					ok = true
				}
			}
			// label writes that follow a statement token print the statement's name
			c.Check(ok, key, pos, "the write that follows the marker renders the construct that owns the token", fmt.Sprintf("the marker uses token %s but the next write renders %v: the marker would name the line of a different construct", pretty(tok), prettyAll(ops)))
		}
	}
	c.Check(n >= 8, "marker-sites", "-", fmt.Sprintf("%d tryEmitLineMarker sites", n), fmt.Sprintf("only %d tryEmitLineMarker sites found", n))
	// raw lines: marker i then line i
	if fn := c.Fn("emitter.Emitter.emitRawStatement"); fn != nil {
		emit := c.Fn("emitter.emitLineMarker")
		ok := false
		for _, call := range callsToIn(fn, emit) {
			ln := c.term(fn, call.Common().Args[1])
			next, ops := nextWriteAfter(c, fn, call, call.Common().Args[0])
			if next != nil && len(ops) == 1 && strings.HasPrefix(ops[0], `strings.Split($1.Value,"\n")[`) {
				idx := strings.TrimSuffix(strings.TrimPrefix(ops[0], `strings.Split($1.Value,"\n")[`), "]")
				if m := regexpMust(`^\(\$1\.[A-Za-z_][A-Za-z_0-9]*\.LineNumber \+ (.*)\)$`).FindStringSubmatch(ln); m != nil && m[1] == idx {
					ok = true
				}
				if m := regexpMust(`^\((.*) \+ \$1\.[A-Za-z_][A-Za-z_0-9]*\.LineNumber\)$`).FindStringSubmatch(ln); m != nil && m[1] == idx {
					ok = true
				}
			}
		}
		c.Check(ok, "emitRawStatement/marker-per-line", c.W.FuncPos(fn), "raw line i is preceded by a marker for line <token>.LineNumber + i", "raw lines are not each preceded by a marker computed from the raw token's line and the line index")
		// … and that token is the one the text came from: line i of Value was written i lines
		// below the token whose literal Value is (the back-quoted string), wherever the `raw`
		// keyword itself stands
		field := ""
		for _, call := range callsToIn(fn, emit) {
			ln := c.term(fn, call.Common().Args[1])
			if m := regexpMust(`\$1\.([A-Za-z_][A-Za-z_0-9]*)\.LineNumber`).FindStringSubmatch(ln); m != nil {
				field = m[1]
			}
		}
		if pr := c.Fn("parser.Parser.parseRawStatement"); pr != nil && field != "" {
			okTok := false
			got, val := "", ""
			for _, a := range allocsOf(pr, "ast", "RawStatement") {
				for _, r := range returnsOf(pr) {
					if !isSuccessReturn(r) || len(r.Results) == 0 || r.Results[0] != ssa.Value(a) {
						continue
					}
					got = c.fieldAtUse(pr, a, field, r)
					val = c.fieldAtUse(pr, a, "Value", r)
					if strings.HasSuffix(val, ".Literal") && got == strings.TrimSuffix(val, ".Literal") {
						okTok = true
					}
				}
			}
			c.Check(okTok, "emitRawStatement/marker-line-of-the-text", c.W.FuncPos(pr), "the token the raw markers count from is the token that holds the raw text", "raw markers count lines from RawStatement."+field+" = "+pretty(got)+" but the text is the literal of "+pretty(strings.TrimSuffix(val, ".Literal"))+": when the `raw` keyword and the opening back quote are on different lines every marker names a line above the one its text was written on")
		}
	}
}

func prettyAll(xs []string) []string {
	var out []string
	for _, x := range xs {
		out = append(out, pretty(x))
	}
	return out
}

func c16c(c *Ctx) {
	c16cStaleTokens(c)

	c16cTokenBeforeLiteral(c)
	// (o) format(): the token handed back for the formatted text is the token of the text
	// itself (the one whose literal is formatted), not that of a later parameter
	if fn := c.Fn("parser.Parser.parseFormatStringOperator"); fn != nil {
		if ft := c.Fn("parser.FontConfig.FormatText"); ft != nil {
			text := ""
			for _, call := range callsToIn(fn, ft) {
				text = c.term(fn, call.Common().Args[1])
			}
			n := 0
			for _, r := range returnsOf(fn) {
				if !c.mayBeSuccessRet(fn, r) || !isSuccessReturn(r) {
					continue
				}
				n++
				got := c.term(fn, r.Results[0])
				c.Check(text != "" && got+".Literal" == text, fmt.Sprintf("format/returns-text-token#%d", n), c.W.Pos(r.Pos()), "format() returns the token of the text it formatted", "format() returns token "+pretty(got)+" but formats "+pretty(text)+": a line marker or error built from the returned token would name the line of a different token (e.g. a font id written on a later line)")
			}
			c.Check(n > 0, "format/returns-text-token", c.W.FuncPos(fn), "format() has a successful return", "no successful return found in parseFormatStringOperator")
		}
	}
	// (vii) a token that stands for text gathered over several tokens — its Literal is replaced by
	// what a loop accumulated — is the FIRST token of that text: the copy is taken before the
	// gathering loop consumes anything (taken afterwards it is the closing ':' or ')' and a marker
	// names the line the construct ends on)
	nGather := 0
	for _, fn := range c.W.FuncsOf("parser") {
		if isTestFunc(c.W, fn) {
			continue
		}
		heads := loopHeaders(fn)
		instrs(fn, func(in ssa.Instruction) {
			st, ok := in.(*ssa.Store)
			if !ok {
				return
			}
			fa, ok := st.Addr.(*ssa.FieldAddr)
			if !ok || fieldName(fa.X.Type(), fa.Field) != "Literal" || !typeIs(fa.X.Type(), "token", "Token") {
				return
			}
			// the load the copy was initialised from: the token is a local of its own, or a token
			// field of a local record (`entry := T{Condition: p.curToken}; entry.Condition.Literal = …`)
			var lds []*ssa.UnOp
			fromWindow := func(v ssa.Value) {
				if ld, ok := v.(*ssa.UnOp); ok {
					if _, t, f, ok := fieldAddrOf(ld.X); ok && typeIs(t, "parser", "Parser") && strings.HasSuffix(f, "Token") {
						lds = append(lds, ld)
					}
				}
			}
			switch a := fa.X.(type) {
			case *ssa.Alloc:
				for _, r := range *a.Referrers() {
					if w, ok := r.(*ssa.Store); ok && w.Addr == ssa.Value(a) {
						fromWindow(w.Val)
					}
				}
			case *ssa.FieldAddr:
				rec, isRec := a.X.(*ssa.Alloc)
				if !isRec {
					return
				}
				for _, r := range *rec.Referrers() {
					if fa2, ok := r.(*ssa.FieldAddr); ok && fa2.Field == a.Field && fa2.Referrers() != nil {
						for _, r2 := range *fa2.Referrers() {
							if w, ok := r2.(*ssa.Store); ok && w.Addr == ssa.Value(fa2) {
								fromWindow(w.Val)
							}
						}
					}
				}
			default:
				return
			}
			if len(lds) == 0 {
				return
			}
			// loops that gather the text
			feeding := map[*ssa.BasicBlock]bool{}
			seenV := map[ssa.Value]bool{}
			var walk func(v ssa.Value, depth int)
			walk = func(v ssa.Value, depth int) {
				if seenV[v] || depth > 8 {
					return
				}
				seenV[v] = true
				switch x := v.(type) {
				case *ssa.Phi:
					if isLoopHeader(x.Block()) {
						feeding[x.Block()] = true
					}
					for _, e := range x.Edges {
						walk(e, depth+1)
					}
				case *ssa.Call:
					for _, arg := range x.Call.Args {
						walk(arg, depth+1)
					}
					if calleeName(x) == "(*strings.Builder).String" {
						if sb, ok := x.Call.Args[0].(*ssa.Alloc); ok {
							for _, r := range *sb.Referrers() {
								if wc, ok := r.(*ssa.Call); ok && strings.HasPrefix(calleeName(wc), "(*strings.Builder).Write") {
									if h := heads[wc.Block()]; h != nil {
										feeding[h] = true
									}
								}
							}
						}
					}
				case *ssa.BinOp:
					walk(x.X, depth+1)
					walk(x.Y, depth+1)
				case *ssa.Slice:
					walk(x.X, depth+1)
				case *ssa.Extract:
					walk(x.Tuple, depth+1)
				}
			}
			walk(st.Val, 0)
			if len(feeding) == 0 {
				return
			}
			nGather++
			bad := ""
			for h := range feeding {
				for _, ld := range lds {
					outer := heads[ld.Block()]
					if outer == h {
						bad = "inside the loop that gathers the text"
						continue
					}
					if _, late := existsPath(pathQuery{from: point{h, 0}, stopAt: func(x ssa.Instruction) bool { return outer != nil && x.Block() == outer }, target: func(x ssa.Instruction) bool { return x == ssa.Instruction(ld) }}); late {
						bad = "after the loop that gathers the text"
					}
				}
			}
			c.Check(bad == "", c.W.FuncKey(fn)+"/gathered-text-token["+pretty(c.term(fn, st.Val))+"]", c.W.Pos(st.Pos()), "the token that carries gathered text was copied before the gathering loop (it is the text's first token)", "the token that carries the gathered text "+pretty(c.term(fn, st.Val))+" is copied from the parser's window "+bad+": it is not the first token of the text, and a line marker built from it names the wrong line when the text spans lines")
		})
	}
	c.Check(nGather >= 2, "gathered-text-tokens/scanned", "-", fmt.Sprintf("%d tokens carrying gathered text", nGather), fmt.Sprintf("expected at least 2 tokens carrying gathered text (map script condition, case value), found %d", nGather))
	// (i) token literals synthesised in the parser
	nLit := 0
	for _, fn := range c.W.FuncsOf("parser") {
		if isTestFunc(c.W, fn) {
			continue
		}
		instrs(fn, func(in ssa.Instruction) {
			a, ok := in.(*ssa.Alloc)
			if !ok || a.Comment != "complit" || !typeIs(a.Type(), "token", "Token") {
				return
			}
			nLit++
			ln := c.fieldAtUse(fn, a, "LineNumber", lastUse(a))
			c.Check(ln != "zero" && ln != "0", c.W.FuncKey(fn)+"/token-literal", c.W.Pos(a.Pos()), "synthesised token takes its line from a lexer token", "a token is synthesised without a line number (LineNumber = "+ln+"): markers and errors built from it would name line 0")
		})
	}
	c.OK("token-literals/scanned", "-", fmt.Sprintf("%d synthesised token literals in package parser", nLit))
	// (ii) definite assignment of token locals in the parser
	nLoc := 0
	for _, fn := range c.W.FuncsOf("parser") {
		if isTestFunc(c.W, fn) {
			continue
		}
		instrs(fn, func(in ssa.Instruction) {
			a, ok := in.(*ssa.Alloc)
			if !ok || a.Comment == "complit" || a.Comment == "varargs" || !typeIs(a.Type(), "token", "Token") {
				return
			}
			if _, isPtr := a.Type().Underlying().(*types.Pointer); !isPtr {
				return
			}
			nLoc++
			var stores, loads []ssa.Instruction
			for _, r := range *a.Referrers() {
				switch y := r.(type) {
				case *ssa.Store:
					if y.Addr == ssa.Value(a) {
						stores = append(stores, y)
					}
				case *ssa.UnOp:
					loads = append(loads, y)
				case *ssa.FieldAddr:
					for _, r2 := range *y.Referrers() {
						if u, ok := r2.(*ssa.UnOp); ok {
							loads = append(loads, u)
						}
					}
				}
			}
			isStore := func(x ssa.Instruction) bool {
				for _, s := range stores {
					if s == x {
						return true
					}
				}
				return false
			}
			bad := ""
			for _, l := range loads {
				ll := l
				_, unassigned := existsPath(pathQuery{from: entry(fn), target: func(x ssa.Instruction) bool { return x == ll }, avoid: isStore, edgeOK: notErrorEdge})
				if unassigned {
					bad = c.W.Pos(l.Pos())
				}
			}
			c.Check(bad == "", fmt.Sprintf("%s/token-var[%s]", c.W.FuncKey(fn), a.Comment), c.W.Pos(a.Pos()), "token variable is assigned on every path before it is read", "token variable "+a.Comment+" can be read at "+bad+" on a path where it was never assigned (zero token: line 0, column 0)")
		})
	}
	c.Check(nLoc >= 10, "token-vars/scanned", "-", fmt.Sprintf("%d token variables checked for definite assignment", nLoc), fmt.Sprintf("only %d token variables found", nLoc))
	// (iii) operand token = token current when the operand's first literal is read
	nOp := 0
	for _, spec := range []struct{ fn, pkg, typ, field string }{
		{"parser.Parser.parseLeafBooleanExpression", "ast", "OperatorExpression", "Operand"},
		{"parser.Parser.parseSwitchStatement", "ast", "SwitchStatement", "Operand"},
		{"parser.Parser.parseSwitchStatement", "ast", "SwitchCase", "Value"},
	} {
		fn := c.Fn(spec.fn)
		if fn == nil {
			continue
		}
		t := c.T(fn)
		check := func(v string, pos string) {
			base, f := c.withFields(fn, v)
			if f == nil || !strings.HasPrefix(f["Literal"], "strings.Join(phi(") {
				return
			}
			nOp++
			// loop header of the parts accumulator
			var hdr *ssa.BasicBlock
			instrs(fn, func(in ssa.Instruction) {
				if p, ok := in.(*ssa.Phi); ok && isLoopHeader(p.Block()) && strings.HasPrefix(f["Literal"], "strings.Join("+c.term(fn, p)+",") {
					hdr = p.Block()
				}
			})
			if hdr == nil {
				c.Unk(fmt.Sprintf("%s/%s.%s/first-token#%d", fn.Name(), spec.typ, spec.field, nOp), pos, "cannot find the loop that accumulates the operand")
				return
			}
			// current token when the loop is entered
			cur := ""
			for _, p := range hdr.Preds {
				if !hdr.Dominates(p) {
					if m := t.memOut[p]; m != nil {
						cur = t.Canon(t.wholeLoad("$0.curToken", m))
					}
				}
			}
			c.Check(cur == base, fmt.Sprintf("%s/%s.%s/first-token#%d", fn.Name(), spec.typ, spec.field, nOp), pos, "the operand's token is the token current when its first literal is read", "the token recorded for "+spec.typ+"."+spec.field+" is "+pretty(base)+" but the first token read into the value is "+pretty(cur)+": positions and line markers would point at a different token")
		}
		for _, st := range storesToField(fn, spec.pkg, spec.typ, spec.field) {
			check(c.term(fn, st.Val), c.W.Pos(st.Pos()))
		}
		instrs(fn, func(in ssa.Instruction) {
			a, ok := in.(*ssa.Alloc)
			if !ok || a.Comment != "complit" || !typeIs(a.Type(), spec.pkg, spec.typ) {
				return
			}
			v := c.fieldAtUse(fn, a, spec.field, lastUse(a))
			check(v, c.W.Pos(a.Pos()))
		})
	}
	// (iii') an auto-var operand takes the position of its command: the token it is copied from is
	// the Token of the command statement that parseCommandStatement returned (wherever the copy is made)
	for _, spec := range []struct{ fn, typ string }{{"parser.Parser.parseLeafBooleanExpression", "OperatorExpression"}, {"parser.Parser.parseSwitchStatement", "SwitchStatement"}} {
		fn := c.Fn(spec.fn)
		if fn == nil {
			continue
		}
		for _, st := range storesToField(fn, "ast", spec.typ, "Operand") {
			// where the operand's token comes from: the token window (the var()/flag() form, judged
			// above — but not a window token read after a command was parsed), or the Token of the
			// parsed command statement (the auto-var form)
			nOp++
			okSrc := true
			got := ""
			leaves := c.originLeaves(fn, st.Val)
			// the branch that handles an auto-var command (its guards say so) must use the command's token
			autoBranch := false
			for _, l := range c.mustLits(fn, st.Block()) {
				if (strings.HasPrefix(l, "-(") && strings.Contains(l, "expectPeekVarOrAutoVar@") && strings.HasSuffix(l, "#0 == nil)")) || (strings.HasPrefix(l, "+") && strings.Contains(l, "peekTokenIsAutoVar")) {
					autoBranch = true
				}
			}
			for _, lf := range leaves {
				t := lf.term
				isCmdTok := (strings.Contains(t, "parseCommandStatement@") && strings.HasSuffix(t, "#0.Token")) || (strings.Contains(t, "expectPeekVarOrAutoVar@") && strings.HasSuffix(t, "#1.Token"))
				isWindow := regexpMust(`\$0\.(curToken|peekToken|peek[234]Token)`).MatchString(t) && !strings.Contains(t, "parseCommandStatement")
				if (!isCmdTok && !isWindow) || (autoBranch && !isCmdTok) {
					okSrc = false
					got = t
				}
			}
			c.Check(okSrc && len(leaves) > 0, fmt.Sprintf("%s/%s.Operand/token-origin", fn.Name(), spec.typ), c.W.Pos(st.Pos()), "the operand's token is a token read from the input, or — for an auto-var operand — the Token of its command statement", "the token of an operand is copied from "+pretty(got)+"; an auto-var operand is located at its command (the Token of the parsed command statement), not where the command ends: positions and line markers would be off")
		}
	}
	// (v) a node's own token is the token that was current when its parser was entered (the
	// construct's first token), however the node is built
	{
		exempt := map[string]bool{}
		nTok := 0
		for _, fn := range c.W.FuncsOf("parser") {
			if isTestFunc(c.W, fn) || fn.Signature.Recv() == nil || len(fn.Blocks) == 0 {
				continue
			}
			res := fn.Signature.Results()
			if res.Len() == 0 {
				continue
			}
			n := namedOf(res.At(0).Type())
			if n == nil || n.Obj().Pkg() == nil || n.Obj().Pkg().Name() != "ast" {
				continue
			}
			stt, isStruct := n.Underlying().(*types.Struct)
			hasTok := false
			if isStruct {
				for i := 0; i < stt.NumFields(); i++ {
					if stt.Field(i).Name() == "Token" && typeIs(stt.Field(i).Type(), "token", "Token") {
						hasTok = true
					}
				}
			}
			if !hasTok || exempt[fn.Name()] {
				continue
			}
			for i, r := range returnsOf(fn) {
				if !isSuccessReturn(r) || isNilConst(r.Results[0]) {
					continue
				}
				f := c.valueFields(fn, r.Results[0], r)
				if f == nil {
					continue
				}
				nTok++
				got := f["Token"]
				ok := got == "$0.curToken" || (n.Obj().Name() == "MapScriptsStatement" && strings.HasPrefix(got, "$0.peekToken!cparseScopeModifier@"))
				_ = i
				c.Check(ok, fmt.Sprintf("%s/%s.Token", fn.Name(), n.Obj().Name()), c.W.Pos(r.Pos()), "the node's token is the construct's first token", n.Obj().Name()+".Token is "+pretty(got)+", expected the token current when "+fn.Name()+" was entered: a marker or error for this construct would name the line of a later token")
			}
		}
		c.Check(nTok >= 10, "node-tokens/scanned", "-", fmt.Sprintf("%d node tokens checked", nTok), fmt.Sprintf("only %d node tokens found", nTok))
	}
	// (vi) the tokens of list items (movement steps, mart items) are the tokens the items were read
	// as: what the list parsers append comes from the token window, not from any table
	for _, name := range []string{"parser.parseMartValue", "parser.parseMovementValue"} {
		fn := c.Fn(name)
		if fn == nil {
			continue
		}
		n := 0
		for _, ci := range callsIn(fn) {
			call, ok := ci.(*ssa.Call)
			if !ok || calleeName(call) != "builtin:append" || len(call.Call.Args) < 2 {
				continue
			}
			for _, e := range varargElems(call.Call.Args[1]) {
				if !typeIs(e.Type(), "token", "Token") {
					continue
				}
				n++
				okW := true
				got := ""
				for _, lf := range c.originLeaves(fn, e) {
					t := lf.term
					got = t
					if !strings.HasPrefix(t, "$0.curToken") && !strings.HasPrefix(t, "$0.peekToken") {
						okW = false
					}
				}
				c.Check(okW, fmt.Sprintf("%s/item-token", fn.Name()), c.W.Pos(call.Pos()), "an item's token is the token it was read as", "the token recorded for a list item is "+pretty(got)+", which does not come from the token window: its marker would name another line")
			}
		}
		c.Check(n > 0, fn.Name()+"/item-tokens", c.W.FuncPos(fn), fmt.Sprintf("%d item token appends", n), "no item token is appended in "+fn.Name())
	}
	// (iv) every token field that a marker site reads is set wherever the parser builds a node of
	// that type (otherwise some way of producing the node yields a marker for line 0)
	try := c.Fn("emitter.tryEmitLineMarker")
	if try != nil {
		type tf struct{ typ, field string }
		used := map[tf]string{}
		for _, fn := range c.W.FuncsOf("emitter") {
			for _, call := range callsToIn(fn, try) {
				v := call.Common().Args[1]
				// the token is a load of field f of some struct (possibly a copy of an AST field)
				if u, ok := v.(*ssa.UnOp); ok {
					if fa, ok := u.X.(*ssa.FieldAddr); ok {
						if n := namedOf(fa.X.Type()); n != nil && n.Obj().Pkg() != nil && n.Obj().Pkg().Name() == "ast" {
							used[tf{n.Obj().Name(), fieldName(fa.X.Type(), fa.Field)}] = c.W.Pos(call.Pos())
						}
					}
				}
				if f, ok := v.(*ssa.Field); ok {
					if n := namedOf(f.X.Type()); n != nil && n.Obj().Pkg() != nil && n.Obj().Pkg().Name() == "ast" {
						used[tf{n.Obj().Name(), fieldName(f.X.Type(), f.Field)}] = c.W.Pos(call.Pos())
					}
				}
			}
		}
		nF := 0
		var notWindow []string
		for k, where := range used {
			nF++
			bad := ""
			nAlloc := 0
			for _, fn := range c.W.FuncsOf("parser") {
				if isTestFunc(c.W, fn) {
					continue
				}
				instrs(fn, func(in ssa.Instruction) {
					a, ok := in.(*ssa.Alloc)
					if !ok || (a.Comment != "complit" && a.Comment != "new") || !typeIs(a.Type(), "ast", k.typ) {
						return
					}
					nAlloc++
					var val string
					if _, isPtrToStruct := deref(a.Type()).Underlying().(*types.Struct); isPtrToStruct {
						// value at the point the node is complete
						use := lastUseOrLoad(a)
						for _, r := range returnsOf(fn) {
							if len(r.Results) > 0 && r.Results[0] == ssa.Value(a) {
								use = r
							}
						}
						val = c.fieldAtUse(fn, a, k.field, use)
					}
					if val == "zero" || val == "" {
						bad = c.W.Pos(a.Pos())
					}
					// (viii) ... and what it is set to is a token of the source: it comes out of the
					// parser's token window (directly, through a local copy, or handed in by the
					// caller), not out of a table or a synthesised value without a position
					if val != "zero" && val != "" {
						use := lastUseOrLoad(a)
						for _, r := range returnsOf(fn) {
							if len(r.Results) > 0 && r.Results[0] == ssa.Value(a) {
								use = r
							}
						}
						if fv := fieldValue(a, k.field, use); fv != nil && typeIs(fv.Type(), "token", "Token") {
							for _, lf := range c.originLeaves(fn, fv) {
								t := lf.term
								okT := strings.HasPrefix(t, "$0.curToken") || strings.HasPrefix(t, "$0.peek") || regexpMust(`^\$[1-9]\d*`).MatchString(t) || strings.HasPrefix(t, "mu(") || strings.HasPrefix(t, "new#") || strings.Contains(t, ".Token") || strings.Contains(t, "Token")
								if !okT && fn.Signature.Recv() == nil && regexpMust(`^\$\d+$`).MatchString(t) {
									okT = true // a plain function's first parameter
								}
								// handed in by the caller: then every caller hands in a token of the window
								if m := regexpMust(`^\$(\d+)$`).FindStringSubmatch(t); okT && m != nil {
									idx, _ := strconv.Atoi(m[1])
									for _, ci := range c.W.callsTo(fn) {
										caller := ci.Parent()
										if isTestFunc(c.W, caller) || idx >= len(ci.Common().Args) {
											continue
										}
										for _, lf2 := range c.originLeaves(caller, ci.Common().Args[idx]) {
											t2 := lf2.term
											if !(strings.HasPrefix(t2, "$0.curToken") || strings.HasPrefix(t2, "$0.peek") || regexpMust(`^\$\d+`).MatchString(t2) || strings.HasPrefix(t2, "mu(") || strings.Contains(t2, "Token")) {
												okT = false
												t = t + " <- " + t2 + " in " + caller.Name()
											}
										}
									}
								}
								if !okT {
									notWindow = append(notWindow, k.typ+"."+k.field+" = "+pretty(t)+" at "+c.W.Pos(a.Pos()))
								}
							}
						}
					}
				})
			}
			c.Check(len(notWindow) == 0, "marker-field-from-the-window/"+k.typ+"."+k.field, where, "the token stored in "+k.typ+"."+k.field+" comes from the parser's token window", fmt.Sprintf("a token read by a line marker does not come from the token window: %v", notWindow))
			notWindow = nil
			c.Check(bad == "", "marker-field-always-set/"+k.typ+"."+k.field, where, fmt.Sprintf("ast.%s.%s (read by a line marker) is set at all %d construction sites", k.typ, k.field, nAlloc), "ast."+k.typ+"."+k.field+" is read by the line marker at "+where+" but the node built at "+bad+" leaves it unset: that marker would name line 0")
		}
		c.Check(nF >= 6, "marker-fields", "-", fmt.Sprintf("%d AST token fields are read by marker sites", nF), fmt.Sprintf("only %d AST token fields found at marker sites", nF))
	}
	c.Check(nOp >= 3, "operand-tokens/sites", "-", fmt.Sprintf("%d operand tokens checked", nOp), fmt.Sprintf("only %d operand token sites found, expected 3", nOp))
}

// lastUseOrLoad: for struct values built in a local (complit stored whole later) use the
// whole-value load, otherwise the instruction after the last field store.
func lastUseOrLoad(a *ssa.Alloc) ssa.Instruction {
	for _, ref := range *a.Referrers() {
		if u, ok := ref.(*ssa.UnOp); ok && u.X == ssa.Value(a) {
			return u
		}
	}
	return lastUse(a)
}

// c16cTokenBeforeLiteral: a token that stands for a gathered value (an operand, a case value, a
// table entry: the token where the value starts, with its literal replaced by the gathered text)
// is taken from the window BEFORE the value is gathered. Taken afterwards it is the token behind
// the value, and the marker or error that uses it names that token's line.
// c16cStitched: a token put together outside the lexer (a composite literal in parser or emitter)
// takes its start — line, byte column, character column — from ONE token, and its end from one
// token: a line from one token with the columns of another names a place where nothing stands.
func c16cStitched(c *Ctx) {
	n := 0
	for _, fn := range c.W.Funcs {
		if isTestFunc(c.W, fn) || len(fn.Blocks) == 0 || c.W.PkgShort(fn) == "lexer" || c.W.PkgShort(fn) == "token" {
			continue
		}
		k := 0
		instrs(fn, func(in ssa.Instruction) {
			a, ok := in.(*ssa.Alloc)
			if !ok || !typeIs(a.Type(), "token", "Token") || a.Referrers() == nil {
				return
			}
			src := map[string]string{}
			for _, r := range *a.Referrers() {
				fa, isFA := r.(*ssa.FieldAddr)
				if !isFA || fa.Referrers() == nil {
					continue
				}
				f := fieldName(fa.X.Type(), fa.Field)
				if !strings.HasSuffix(f, "CharIndex") && !strings.HasSuffix(f, "LineNumber") {
					continue
				}
				for _, r2 := range *fa.Referrers() {
					if st, isSt := r2.(*ssa.Store); isSt && st.Addr == ssa.Value(fa) {
						t := c.term(fn, st.Val)
						if i := strings.LastIndex(t, "."); i > 0 {
							src[f] = t[:i]
						} else {
							src[f] = t
						}
					}
				}
			}
			if len(src) < 2 {
				return
			}
			n++
			okStart := true
			for _, f := range []string{"StartCharIndex", "StartUtf8CharIndex"} {
				if src[f] != "" && src["LineNumber"] != "" && src[f] != src["LineNumber"] {
					okStart = false
				}
			}
			okEnd := true
			for _, f := range []string{"EndCharIndex", "EndUtf8CharIndex"} {
				if src[f] != "" && src["EndLineNumber"] != "" && src[f] != src["EndLineNumber"] {
					okEnd = false
				}
			}
			k++
			c.Check(okStart && okEnd, fmt.Sprintf("%s/stitched-token#%d", c.W.FuncKey(fn), k), c.W.Pos(a.Pos()), "the token's start fields come from one token, its end fields from one token", fmt.Sprintf("%s puts a token together whose line and columns come from different tokens (%v): a marker or error that uses it names a line on which the construct does not start", fn.Name(), src))
		})
	}
	c.OK("stitched-tokens/scanned", "-", fmt.Sprintf("%d tokens put together outside the lexer", n))
}

func c16cTokenBeforeLiteral(c *Ctx) {
	c16cStitched(c)
	n := 0
	for _, fn := range c.W.FuncsOf("parser") {
		if isTestFunc(c.W, fn) || len(fn.Blocks) == 0 {
			continue
		}
		k := 0
		instrs(fn, func(in ssa.Instruction) {
			a, ok := in.(*ssa.Alloc)
			if !ok || !typeIs(a.Type(), "token", "Token") || a.Referrers() == nil {
				return
			}
			var copies []*ssa.UnOp     // loads of a window token stored whole into the local
			var lits []ssa.Instruction // definitions of the values stored into its Literal
			for _, r := range *a.Referrers() {
				switch y := r.(type) {
				case *ssa.Store:
					if y.Addr != ssa.Value(a) {
						continue
					}
					if ld, isLd := y.Val.(*ssa.UnOp); isLd {
						if _, pt, f, okF := fieldAddrOf(ld.X); okF && typeIs(pt, "parser", "Parser") && strings.HasSuffix(f, "Token") {
							copies = append(copies, ld)
						}
					}
				case *ssa.FieldAddr:
					if fieldName(y.X.Type(), y.Field) != "Literal" || y.Referrers() == nil {
						continue
					}
					for _, r2 := range *y.Referrers() {
						if st, isSt := r2.(*ssa.Store); isSt && st.Addr == ssa.Value(y) {
							var leaves []ssa.Value
							phiLeaves(st.Val, map[ssa.Value]bool{}, &leaves)
							for _, lf := range leaves {
								v := lf
								if ex, isEx := v.(*ssa.Extract); isEx {
									v = ex.Tuple
								}
								if call, isCall := v.(*ssa.Call); isCall {
									lits = append(lits, call)
								}
							}
						}
					}
				}
			}
			if len(copies) == 0 || len(lits) == 0 {
				return
			}
			n++
			for _, cp := range copies {
				for _, lit := range lits {
					// a call that reads nothing from the window (a terminator being appended, a
					// Join of parts gathered by a loop in this function) gathers nothing itself
					g := callee(lit.(ssa.CallInstruction))
					if g == nil || !c.W.InRepo(g) || c.T(fn).purity(g) >= purReadOnly {
						continue
					}
					if canReach(lit, cp) && !canReach(cp, lit) {
						k++
						c.Bad(fmt.Sprintf("%s/token-taken-after-its-value#%d", fn.Name(), k), c.W.Pos(cp.Pos()), fn.Name()+" takes the token for a gathered value ("+pretty(c.term(fn, cp))+") after "+g.Name()+" has consumed the value: the token is the one behind the value, so markers and errors name the wrong line")
					}
				}
			}
		})
	}
	c.Check(n >= 2, "token-before-literal/census", "-", fmt.Sprintf("%d tokens with a gathered literal examined", n), fmt.Sprintf("only %d tokens with a gathered literal found", n))
}

// c16cStaleTokens: a token that is remembered for the nodes built in a loop (the condition token
// of a map-script table entry) is taken afresh in every turn. Hoisting `startToken := p.curToken`
// out of the loop and re-arming it on some ways round only leaves, on the other ways, the token
// of an earlier element: its line is a line of the input, in range, and names the wrong entry.
// In SSA that is a token-valued phi at a loop header that can come round the loop unchanged while
// it is stored somewhere inside the loop.
func c16cStaleTokens(c *Ctx) {
	n := 0
	for _, fn := range c.W.FuncsOf("parser") {
		if isTestFunc(c.W, fn) || len(fn.Blocks) == 0 {
			continue
		}
		for _, head := range fn.Blocks {
			if !isLoopHeader(head) {
				continue
			}
			body := loopBody(head)
			for _, in := range head.Instrs {
				ph, isPhi := in.(*ssa.Phi)
				if !isPhi || !typeIs(ph.Type(), "token", "Token") {
					continue
				}
				n++
				// can it come round unchanged? (through the merges inside the body)
				stale := false
				seen := map[ssa.Value]bool{}
				var walk func(v ssa.Value)
				walk = func(v ssa.Value) {
					if v == ssa.Value(ph) {
						stale = true
						return
					}
					if seen[v] {
						return
					}
					seen[v] = true
					if q, isQ := v.(*ssa.Phi); isQ && body[q.Block()] && q.Block() != head {
						for _, e := range q.Edges {
							walk(e)
						}
					}
				}
				for i, e := range ph.Edges {
					if head.Dominates(head.Preds[i]) {
						walk(e)
					}
				}
				// is it put into something inside the loop?
				stored := false
				if ph.Referrers() != nil {
					for _, r := range *ph.Referrers() {
						if st, isSt := r.(*ssa.Store); isSt && st.Val == ssa.Value(ph) && body[st.Block()] {
							stored = true
						}
					}
				}
				c.Check(!(stale && stored), fmt.Sprintf("%s/token-taken-afresh[%s]", c.W.FuncKey(fn), flagName(c.term(fn, ph))), c.W.Pos(ph.Pos()), "a token remembered for the nodes of a loop is taken afresh in every turn", fn.Name()+" keeps the token "+flagName(c.term(fn, ph))+" for the elements of its loop although the token can come round the loop unchanged: a later element carries the position of an earlier one (its marker names the wrong line)")
			}
		}
	}
	c.OK("stale-tokens/scanned", "-", fmt.Sprintf("%d token-valued loop variables in the parser", n))
}
