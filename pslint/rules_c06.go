package main

// C06 — inline text / moves() hoisting; C09 — text emission; C11 — AutoVar.

import (
	"regexp"
	"go/token"
	"fmt"
	"go/types"
	"sort"
	"strconv"
	"strings"

	"golang.org/x/tools/go/ssa"
)

func init() {
	property("C06",
		"Static conformance of the hoisting mechanism: (a) each inline arm of the argument loop records one text/movement with the command being built, the index of the argument being built, the owning script name, and leaves one placeholder in the argument; (b) addImplicitTexts / addImplicitMovements patch exactly that argument with a label, on a miss define the label once (same key for lookup and insert, the per-script counter used is the one incremented, content and string type copied from the record, local scope), dedup keys cover content and string type / separator-joined steps; (c) every *impData produced by a callee flows into the value the function returns (or into the program) on every successful path — nothing collected on the way up is lost; (d) label formats; (e) every program text is emitted and hoisted movements are dispatched to the movement emitter. Inline data is handed over on every successful path and merged in source order (C06.c); add/addImplicitData always merge both kinds; token literals are source text (C19.f). The parser's tables have owners (C06.f): the hoisting tables are touched by the two registering functions and ParseProgram's resets only, the constants table by the definition parser and the substitution helper only, maps the parser is handed are never written, and hoisted data is registered by the top-level statement parser alone; the script name is threaded unchanged from the script statement to the records (C06.a).",
		[]string{"Go map equality of the dedup key struct (content, string type)", "scheme argument of DESIGN §4 C06"},
		"C06.a", "C06.b", "C06.c", "C06.d", "C06.e", "C12.a", "C20.d", "C09.b", "C10.f", "C19.f", "C08.e", "C18.m", "C06.f", "C17.h", "C09.c", "C09.e", "C18.d", "C18.n", "C19.b", "C19.c", "C19.d", "C19.e")

	register(&Rule{ID: "C06.a", Doc: "inline arms record (command, argument index, script, content) and leave a placeholder", Floor: 10, Run: c06a})
	register(&Rule{ID: "C06.b", Doc: "patch-and-define protocol of addImplicitTexts / addImplicitMovements", Floor: 14, Run: c06b})
	register(&Rule{ID: "C06.c", Doc: "every *impData produced reaches the returned value / the program (must-consume)", Floor: 48, Run: c06c})
	register(&Rule{ID: "C06.d", Doc: "generated label formats <script>_Text_<n> / <script>_Movement_<n>", Floor: 2, Run: c06d})
	register(&Rule{ID: "C06.e", Doc: "all program texts emitted; hoisted movements dispatched", Floor: 3, Run: c06e})
}

// withFields returns the field map of a with(...) term (nil when the term is not one).
func (c *Ctx) withFields(fn *ssa.Function, term string) (string, map[string]string) {
	t := c.T(fn)
	if wi, ok := t.withs[term]; ok {
		return wi.base, wi.over
	}
	return "", nil
}

// mayBeSuccessRet: the return can be a successful one: its error result is not known to be
// non-nil (a freshly built error, or a value tested non-nil on every path to the return).
func (c *Ctx) mayBeSuccessRet(fn *ssa.Function, r *ssa.Return) bool {
	if len(r.Results) == 0 {
		return true
	}
	last := r.Results[len(r.Results)-1]
	if !isErrorType(last.Type()) || isNilConst(last) {
		return true
	}
	if call, ok := last.(*ssa.Call); ok {
		if isErrorCtorCall(call) {
			return false
		}
	}
	if _, ok := last.(*ssa.MakeInterface); ok {
		return false
	}
	return !hasLit(c.mustLits(fn, r.Block()), "-("+c.term(fn, last)+" == nil)")
}

// isSuccessRet: the error result is nil (constant, or known nil on every path to the return).
func (c *Ctx) isSuccessRet(fn *ssa.Function, r *ssa.Return) bool {
	if isSuccessReturn(r) {
		return true
	}
	last := r.Results[len(r.Results)-1]
	return hasLit(c.mustLits(fn, r.Block()), "+("+c.term(fn, last)+" == nil)")
}

var tokenTypeLitRe = regexp.MustCompile(`^[+-]\(\$0\.(cur|peek\d?)Token\.Type == "[^"]*"\)$`)
var errLitRe = regexp.MustCompile(`^[+-]\(.*(#\d+|err\w*) (==|!=) nil\)$`)

func c06a(c *Ctx) {
	fn := c.Fn("parser.Parser.parseCommandStatement")
	if fn == nil {
		return
	}
	cmds := allocsOf(fn, "ast", "CommandStatement")
	if len(cmds) != 1 {
		c.Bad("command-node", c.W.FuncPos(fn), "expected one CommandStatement allocation")
		return
	}
	cmdT := c.term(fn, cmds[0])
	n := 0
	c06aScriptName(c, fn)
	// the record lists only grow at their end, one record at a time: labels are numbered in the
	// order of the list, which must be the order of appearance
	for _, unit := range c.unitOf(fn) {
		for _, fld := range []string{"texts", "movements"} {
			for i, st := range storesToField(unit.fn, "parser", "impData", fld) {
				if _, fresh := rootValue(st.Addr).(*ssa.Alloc); fresh && !strings.HasPrefix(c.term(unit.fn, st.Val), "builtin:append(") {
					continue // the empty list of a new impData
				}
				okGrow := false
				if call, isCall := st.Val.(*ssa.Call); isCall && calleeName(call) == "builtin:append" && len(call.Call.Args) == 2 {
					if ld, isLd := call.Call.Args[0].(*ssa.UnOp); isLd {
						if _, _, f0, ok := fieldAddrOf(ld.X); ok && f0 == fld && len(varargElems(call.Call.Args[1])) == 1 {
							okGrow = true
						}
					}
				}
				c.Check(okGrow, fmt.Sprintf("record-list-grows-at-the-end/%s/%s#%d", unit.fn.Name(), fld, i), c.W.Pos(st.Pos()), "the record list is extended by one record at its end", unit.fn.Name()+" stores "+pretty(c.term(unit.fn, st.Val))+" into the list of inline "+fld+": records must be appended one at a time at the end (the order of the list is the order labels are numbered in)")
			}
		}
	}
	// record sites: every append of an impText / impMovement value (written as a composite
	// literal or made by a constructor helper)
	instrs(fn, func(in ssa.Instruction) {
		ap, ok := in.(*ssa.Call)
		if !ok || calleeName(ap) != "builtin:append" {
			return
		}
		sl, ok := ap.Type().Underlying().(*types.Slice)
		if !ok {
			return
		}
		isText, isMove := typeIs(sl.Elem(), "parser", "impText"), typeIs(sl.Elem(), "parser", "impMovement")
		if !isText && !isMove {
			return
		}
		for _, ev := range appendElems(ap) {
			n++
			// arm name from the guard
			arm := "?"
			for _, l := range c.mustLits(fn, ap.Block()) {
				for _, k := range []string{"FORMAT", "STRING", "STRINGTYPE", "MOVES"} {
					if strings.HasPrefix(l, "+(") && strings.HasSuffix(l, `.Type == "`+k+`")`) && strings.Contains(l, "$0.curToken") {
						arm = k
					}
				}
			}
			key := "inline-arm[" + arm + "]"
			pos := c.W.Pos(ap.Pos())
			// the arm is taken for every token of its kind: what distinguishes it from the rest of
			// the loop body is the kind of the current token and nothing else (a further test — on
			// the literal's length, say — sends some strings down the plain-argument arm: they
			// are not hoisted, and go through constant substitution)
			if h := loopHeaders(fn)[ap.Block()]; h != nil {
				base := map[string]bool{}
				for _, sc := range h.Succs {
					if loopBody(h)[sc] {
						for _, l := range c.mustLits(fn, sc) {
							base[verRe.ReplaceAllString(l, "")] = true
						}
					}
				}
				var extra []string
				for _, l := range c.mustLits(fn, ap.Block()) {
					l = verRe.ReplaceAllString(l, "")
					if base[l] || tokenTypeLitRe.MatchString(l) || errLitRe.MatchString(l) {
						continue
					}
					extra = append(extra, l)
				}
				c.Check(len(extra) == 0, key+"/taken-for-every-token-of-its-kind", pos, "the arm is chosen by the kind of the current token alone", fmt.Sprintf("the %s arm is taken only under the further condition(s) %v: the other %s arguments are handled as plain arguments (not hoisted, constant-substituted)", arm, extra, arm))
			}
			f := c.valueFields(fn, ev, ap)
			if f == nil {
				c.Unk(key, pos, "cannot read the fields of the record "+pretty(c.term(fn, ev)))
				continue
			}
			c.Check(f["command"] == cmdT, key+"/command", pos, "record points at the command being built", "record's command is "+f["command"]+", expected the command being built")
			c.Check(wholeCall(f["argPos"], "builtin:len(") && strings.Contains(f["argPos"], cmdT+".Args"), key+"/argPos", pos, "argument index = number of arguments closed so far", "record's argPos is "+pretty(f["argPos"])+", expected len(command.Args) at this point")
			c.Check(f["scriptName"] == "$1", key+"/scriptName", pos, "record carries the owning script name", "record's scriptName is "+f["scriptName"])
			// placeholder appended to argParts in the same block, exactly one
			ph := 0
			for _, x := range ap.Block().Instrs {
				if call, ok := x.(*ssa.Call); ok && calleeName(call) == "builtin:append" {
					es := varargElems(call.Call.Args[1])
					if len(es) == 1 {
						if s, isC := strConst(es[0]); isC && s == "" {
							ph++
						}
					}
				}
			}
			c.Check(ph == 1, key+"/placeholder", pos, "one empty placeholder keeps the argument slot", fmt.Sprintf("%d placeholders appended to the argument parts in this arm, expected 1", ph))
			if isText {
				// the text token is the token the parser stood on when it met the text (its
				// position is what the text's line marker and errors name), with only its
				// literal replaced by the terminated text
				okTok := true
				var leaves []string
				if fv := fieldValueOf(c, fn, ev, "text", ap); fv != nil {
					for _, lf := range c.originLeaves(fn, fv) {
						leaves = append(leaves, lf.term)
						// (read in the argument loop — `!L…` — not the token the command started with)
						if !regexpMust(`^\$0\.(curToken|peekToken)!L\d+`).MatchString(lf.term) && !strings.HasPrefix(lf.term, "(*parser.Parser).parseFormatStringOperator@") && !strings.HasPrefix(lf.term, "(*parser.Parser).formatTextTerminator") && !strings.HasPrefix(lf.term, "mu(") {
							okTok = false
						}
					}
				}
				c.Check(okTok, key+"/text-token", pos, "the record's token is the token of the text itself", fmt.Sprintf("the record's text token comes from %v, not from the string token the parser stands on: the hoisted text would be located (line marker, errors) at another construct", leaves))
			}
			if isMove {
				c.Check(strings.HasPrefix(f["movements"], "(*parser.Parser).parseMovesOperator@") && strings.HasSuffix(f["movements"], "#0"), key+"/content", pos, "record holds the parsed movement steps", "record's movements are "+f["movements"])
			}
		}
	})
	c.Check(n >= 3, "inline-arms", c.W.FuncPos(fn), "inline arms (format, string, typed string, moves)", fmt.Sprintf("found %d inline records, expected at least 3", n))
}

func c06b(c *Ctx) {
	// the hoisting tables live for the whole file: they are made where the parser is made and at
	// the start of ParseProgram, and from then on only grow (a table re-made between two
	// statements forgets which contents already have a label: the same text gets two)
	{
		tables := map[string]bool{"inlineTexts": true, "inlineTextsSet": true, "inlineTextCounts": true, "inlineMovements": true, "inlineMovementsSet": true, "inlineMovementCounts": true}
		pp := c.Fn("parser.Parser.ParseProgram")
		top := c.Fn("parser.Parser.parseTopLevelStatement")
		n := 0
		for _, fn := range c.W.FuncsOf("parser") {
			if isTestFunc(c.W, fn) {
				continue
			}
			var flds []string
			for fld := range tables {
				flds = append(flds, fld)
			}
			sort.Strings(flds)
			for _, fld := range flds {
				for si, st := range storesToField(fn, "parser", "Parser", fld) {
					if _, fresh := rootValue(st.Addr).(*ssa.Alloc); fresh {
						continue // the parser under construction (New, NewLintParser)
					}
					n++
					key := fmt.Sprintf("hoisting-table/%s/%s#%d", fld, c.W.FuncKey(fn), si)
					v := c.term(fn, st.Val)
					switch {
					case strings.HasPrefix(v, "builtin:append($0."+fld):
						c.OK(key, c.W.Pos(st.Pos()), "the table grows")
					case fn == pp:
						// re-made at the start of a parse: before the statement loop
						before := true
						if top != nil {
							for _, call := range callsToIn(pp, top) {
								if canReach(call.(ssa.Instruction), st) {
									before = false
								}
							}
						}
						c.Check(before && loopHeaders(fn)[st.Block()] == nil, key, c.W.Pos(st.Pos()), "the table is (re)made before the first statement is parsed", "ParseProgram re-makes the hoisting table "+fld+" after statements were parsed: contents that already have a label would get a second one")
					case pp != nil && onlyCalledBeforeLoop(c, fn, pp, top):
						c.OK(key, c.W.Pos(st.Pos()), "the table is (re)made by a helper that ParseProgram calls before the first statement is parsed")
					default:
						c.Bad(key, c.W.Pos(st.Pos()), fn.Name()+" replaces the hoisting table "+fld+" ("+pretty(v)+"): identical inline content before and after would no longer share one label (and counters / lists would restart)")
					}
				}
			}
		}
		c.Check(n >= 4, "hoisting-table/stores", "-", fmt.Sprintf("%d stores to the hoisting tables", n), fmt.Sprintf("expected at least 4 stores to the hoisting tables, found %d", n))
	}
	for _, s := range []struct {
		fn, set, counts, list, labelFn, nodeType, keyKind string
	}{
		{"parser.Parser.addImplicitTexts", "inlineTextsSet", "inlineTextCounts", "inlineTexts", "getImplicitTextLabel", "Text", "text"},
		{"parser.Parser.addImplicitMovements", "inlineMovementsSet", "inlineMovementCounts", "inlineMovements", "getImplicitMovementLabel", "MovementStatement", "movement"},
	} {
		fn := c.Fn(s.fn)
		if fn == nil {
			continue
		}
		name := s.fn
		// lookup
		// the function that interns one record: addImplicit… itself, or a private helper it
		// calls per record (`args[pos] = p.intern(record)`)
		var lk *ssa.Lookup
		core := fn
		for _, m := range c.unitOf(fn) {
			mf := m.fn
			instrs(mf, func(in ssa.Instruction) {
				if l, ok := in.(*ssa.Lookup); ok && l.CommaOk && c.term(mf, l.X) == "$0."+s.set {
					lk, core = l, mf
				}
			})
		}
		if lk == nil {
			c.Bad(name+"/lookup", c.W.FuncPos(core), "no comma-ok lookup in "+s.set)
			continue
		}
		keyT := c.term(core, lk.Index)
		elem := ""
		if s.keyKind == "text" {
			_, kf := c.withFields(core, keyT)
			ok := kf != nil && strings.HasSuffix(kf["value"], ".text.Literal") && strings.HasSuffix(kf["strType"], ".stringType") && strings.TrimSuffix(kf["value"], ".text.Literal") == strings.TrimSuffix(kf["strType"], ".stringType")
			c.Check(ok, name+"/key", c.W.Pos(lk.Pos()), "dedup key = (text content, string type) of the record", "dedup key is "+pretty(keyT)+", expected {value: record.text.Literal, strType: record.stringType}")
			// ... and nothing besides: identical content of the same type shares one label whatever
			// command, script or position it is used in
			if st, isStruct := lk.Index.Type().Underlying().(*types.Struct); isStruct {
				c.Check(st.NumFields() == 2, name+"/key-has-two-components", c.W.Pos(lk.Pos()), "the dedup key has exactly the two components", fmt.Sprintf("the dedup key has %d components: besides content and string type something else keeps identical texts apart (they would get separate labels)", st.NumFields()))
			}
			if kf != nil {
				elem = strings.TrimSuffix(kf["value"], ".text.Literal")
			}
		} else {
			kt := regexpMust(`@\d+$`).ReplaceAllString(keyT, "")
			ok := strings.HasPrefix(kt, "parser.getMovementsKey(") && strings.HasSuffix(kt, ".movements)")
			c.Check(ok, name+"/key", c.W.Pos(lk.Pos()), "dedup key = key of the record's steps", "dedup key is "+pretty(keyT))
			elem = strings.TrimSuffix(strings.TrimPrefix(kt, "parser.getMovementsKey("), ".movements)")
		}
		hit := "+" + c.term(core, lk) + "#1"
		miss := "-" + c.term(core, lk) + "#1"
		// stores into command.Args[argPos]
		nHit, nMiss := 0, 0
		labelT := ""
		recElem := elem // the record in fn's own terms
		if core != fn {
			// the label is the helper's result: hit and miss are its returns
			for _, r := range returnsOf(core) {
				if len(r.Results) != 1 {
					continue
				}
				must := c.mustLits(core, r.Block())
				v := c.term(core, r.Results[0])
				switch {
				case hasLit(must, hit):
					nHit++
					c.Check(v == c.term(core, lk)+"#0", name+"/hit-uses-stored-label", c.W.Pos(r.Pos()), "known content: argument gets the label stored for it", "on a dedup hit the helper returns "+pretty(v)+", expected the label found in the set")
				case hasLit(must, miss):
					nMiss++
					labelT = v
					want := "parser." + s.labelFn + "(" + elem + ".scriptName,$0." + s.counts + "[" + elem + ".scriptName])"
					if v != want && labelCallMatches(c, core, r.Results[0], s.labelFn, elem+".scriptName", "$0."+s.counts+"["+elem+".scriptName]") {
						v = want
					}
					c.Check(v == want, name+"/miss-new-label", c.W.Pos(r.Pos()), "new content: label made from the owning script and its counter", "on a miss the helper returns "+pretty(v)+", expected "+pretty(want))
				}
			}
			// and fn stores that result into record.command.Args[record.argPos], for the record it passes
			okPatch := false
			recElem = ""
			instrs(fn, func(in ssa.Instruction) {
				st, ok := in.(*ssa.Store)
				if !ok {
					return
				}
				ia, ok := st.Addr.(*ssa.IndexAddr)
				if !ok {
					return
				}
				target := c.term(fn, ia.X) + "[" + c.term(fn, ia.Index) + "]"
				if !strings.Contains(target, ".command.Args[") {
					return
				}
				call, isCall := st.Val.(*ssa.Call)
				if !isCall || callee(call) != core {
					c.Bad(name+"/patch-target", c.W.Pos(st.Pos()), "the argument is patched with "+pretty(c.term(fn, st.Val))+", expected the interned label")
					return
				}
				k := paramIndexOfTerm(elem)
				if k < 0 || k >= len(call.Call.Args) {
					return
				}
				rec := c.term(fn, call.Call.Args[k])
				if target == rec+".command.Args["+rec+".argPos]" {
					okPatch = true
					recElem = rec
				} else {
					c.Bad(name+"/patch-target", c.W.Pos(st.Pos()), "label stored into "+pretty(target)+", expected record.command.Args[record.argPos] of the record that was interned ("+pretty(rec)+")")
				}
			})
			c.Check(okPatch, name+"/patch-from-helper", c.W.FuncPos(fn), "the interned label is stored into the record's own argument slot", "the label returned by the helper is not stored into record.command.Args[record.argPos]")
		} else {
			instrs(fn, func(in ssa.Instruction) {
				st, ok := in.(*ssa.Store)
				if !ok {
					return
				}
				ia, ok := st.Addr.(*ssa.IndexAddr)
				if !ok {
					return
				}
				target := c.term(fn, ia.X) + "[" + c.term(fn, ia.Index) + "]"
				if target != elem+".command.Args["+elem+".argPos]" {
					if strings.Contains(target, ".command.Args[") {
						c.Bad(name+"/patch-target", c.W.Pos(st.Pos()), "label stored into "+pretty(target)+", expected record.command.Args[record.argPos]")
					}
					return
				}
				must := c.mustLits(fn, st.Block())
				v := c.term(fn, st.Val)
				switch {
				case hasLit(must, hit):
					nHit++
					c.Check(v == c.term(fn, lk)+"#0", name+"/hit-uses-stored-label", c.W.Pos(st.Pos()), "known content: argument gets the label stored for it", "on a dedup hit the argument gets "+pretty(v)+", expected the label found in the set")
				case hasLit(must, miss):
					nMiss++
					labelT = v
					want := "parser." + s.labelFn + "(" + elem + ".scriptName,$0." + s.counts + "[" + elem + ".scriptName])"
					if v != want && labelCallMatches(c, fn, st.Val, s.labelFn, elem+".scriptName", "$0."+s.counts+"["+elem+".scriptName]") {
						v = want
					}
					c.Check(v == want, name+"/miss-new-label", c.W.Pos(st.Pos()), "new content: label made from the owning script and its counter", "on a miss the argument gets "+pretty(v)+", expected "+pretty(want))
				}
			})
		}
		c.Check(nHit == 1 && nMiss == 1, name+"/patch-both-branches", c.W.FuncPos(core), "the argument is patched on the hit branch and on the miss branch", fmt.Sprintf("argument patched on %d hit and %d miss paths, expected 1 and 1", nHit, nMiss))
		// miss branch: counter++, set insert, definition append
		okCounter, okInsert := false, false
		instrs(core, func(in ssa.Instruction) {
			mu, ok := in.(*ssa.MapUpdate)
			if !ok || !hasLit(c.mustLits(core, mu.Block()), miss) {
				return
			}
			m, k, v := c.term(core, mu.Map), c.term(core, mu.Key), c.term(core, mu.Value)
			if m == "$0."+s.counts {
				okCounter = k == elem+".scriptName" && v == "$0."+s.counts+"["+elem+".scriptName]+1"
				if !okCounter {
					c.Bad(name+"/counter", c.W.Pos(mu.Pos()), "counter update is "+pretty(m)+"["+pretty(k)+"] = "+pretty(v)+", expected counts[record.scriptName]++")
				}
			}
			if m == "$0."+s.set {
				okInsert = k == keyT && v == labelT
				if !okInsert {
					c.Bad(name+"/set-insert", c.W.Pos(mu.Pos()), "set insert is ["+pretty(k)+"] = "+pretty(v)+", expected the lookup key and the new label")
				}
			}
		})
		c.Check(okCounter, name+"/counter", c.W.FuncPos(core), "the per-script counter used for the label is incremented", "the counter used for the new label is not incremented on the miss path")
		c.Check(okInsert, name+"/set-insert", c.W.FuncPos(core), "new label stored under the key that was looked up", "the new label is not stored in the dedup set under the lookup key")
		// definition
		as := allocsOf(core, "ast", s.nodeType)
		var defs []*ssa.Alloc
		instrs(core, func(in ssa.Instruction) {
			if a, ok := in.(*ssa.Alloc); ok && typeIs(a.Type(), "ast", s.nodeType) && a.Comment == "complit" {
				defs = append(defs, a)
			}
		})
		_ = as
		if len(defs) != 1 {
			c.Bad(name+"/definition", c.W.FuncPos(core), fmt.Sprintf("expected one %s definition, found %d", s.nodeType, len(defs)))
			continue
		}
		d := defs[0]
		c.Check(hasLit(c.mustLits(core, d.Block()), miss), name+"/definition-on-miss-only", c.W.Pos(d.Pos()), "content defined only when it is new", "the definition is not confined to the dedup-miss path")
		use := lastUse(d)
		if s.keyKind == "text" {
			whole := ""
			for _, ref := range *d.Referrers() {
				if u, ok := ref.(*ssa.UnOp); ok && u.X == ssa.Value(d) {
					whole = c.term(core, u)
				}
			}
			_, f := c.withFields(core, whole)
			ok := f != nil && f["Name"] == labelT && f["Value"] == elem+".text.Literal" && f["StringType"] == elem+".stringType" && f["Token"] == elem+".text"
			c.Check(ok, name+"/definition-fields", c.W.Pos(d.Pos()), "definition: Name = label, Value/StringType/Token from the record", "hoisted text is defined with "+pretty(fmt.Sprint(f))+"; expected Name = the new label, Value = record.text.Literal, StringType = record.stringType, Token = record.text")
		} else {
			nm := c.fieldAtUse(core, d, "Name", use)
			nameOK := false
			for _, ia := range allocsOf(core, "ast", "Identifier") {
				if c.term(core, ia) == nm && c.fieldAtUse(core, ia, "Value", use) == labelT {
					nameOK = true
				}
			}
			ok := nameOK && c.fieldAtUse(core, d, "MovementCommands", use) == elem+".movements" && c.fieldAtUse(core, d, "Token", use) == elem+".command.Token"
			c.Check(ok, name+"/definition-fields", c.W.Pos(d.Pos()), "definition: Name = label, steps and token from the record", "hoisted movement is not defined with (Name = new label, MovementCommands = record.movements, Token = record.command.Token)")
		}
		// appended to the list exactly once
		nApp := 0
		for _, st := range storesToField(core, "parser", "Parser", s.list) {
			if hasLit(c.mustLits(core, st.Block()), miss) && strings.HasPrefix(c.term(core, st.Val), "builtin:append(") {
				nApp++
			}
		}
		c.Check(nApp == 1, name+"/definition-appended-once", c.W.Pos(d.Pos()), "definition appended once to "+s.list, fmt.Sprintf("definition appended %d times", nApp))
		// every record is patched: no iteration completes without storing a label into the
		// record's argument slot (an "empty" record still owns a placeholder argument)
		{
			isPatch := func(in ssa.Instruction) bool {
				st, ok := in.(*ssa.Store)
				if !ok {
					return false
				}
				ia, ok := st.Addr.(*ssa.IndexAddr)
				return ok && strings.Contains(c.term(fn, ia.X), ".command.Args")
			}
			var head *ssa.BasicBlock
			for _, b := range fn.Blocks {
				if isLoopHeader(b) {
					head = b
					break
				}
			}
			if head == nil {
				c.Unk(name+"/every-record-patched", c.W.FuncPos(fn), "cannot find the loop over the records")
			} else {
				skip := false
				for _, sc := range head.Succs {
					if !loopBody(head)[sc] {
						continue
					}
					if _, free := existsPath(pathQuery{from: point{sc, 0}, avoid: isPatch, target: func(in ssa.Instruction) bool { return in.Block() == head && idxInBlock(in) == 0 }}); free {
						skip = true
					}
				}
				c.Check(!skip, name+"/every-record-patched", c.W.FuncPos(fn), "every record's argument slot receives a label", "an iteration over the inline records can complete without storing a label into the record's argument: the command would keep its empty placeholder argument")
			}
		}
		// full range over the records
		c.Check(strings.HasPrefix(recElem, "$1[phi(") && strings.HasSuffix(recElem, "+1]"), name+"/all-records", c.W.FuncPos(fn), "every record is processed in order", "records are not processed by a full in-order range ("+pretty(recElem)+")")
	}
	// movement key: steps joined with a separator that cannot occur in an identifier
	if fn := c.Fn("parser.getMovementsKey"); fn != nil {
		ok := false
		got := ""
		// the key is (step separator)* for one separator character outside the identifier alphabet,
		// however the pieces are written
		if sbv := returnedBuilder(fn); sbv != nil {
			nfa := c.outputNFA(fn, sbv)
			var seps []string
			for _, sy := range nfa.symbols() {
				if sy != "%s" {
					seps = append(seps, sy)
				}
			}
			got = strings.Join(seps, "")
			if len(seps) == 1 && len(seps[0]) == 1 {
				r := rune(seps[0][0])
				if !(r == '_' || r >= '0' && r <= '9' || r >= 'a' && r <= 'z' || r >= 'A' && r <= 'Z' || r > 127) {
					ok, _ = nfa.includedIn(gStar(gSeq(gLit("%s"), gLit(seps[0]))))
				}
			}
			// each step written is a step's literal
			for _, ws := range c.sitesOf(fn) {
				for _, t := range ws.argT {
					ok = ok && strings.HasSuffix(t, ".Literal")
				}
				if !ws.isFmt && !ws.konst && ws.method == "WriteString" {
					ok = ok && strings.HasSuffix(c.term(fn, ws.arg), ".Literal")
				}
			}
		}
		c.Check(ok, "getMovementsKey/separator", c.W.FuncPos(fn), "steps are joined with a separator that cannot be part of a step name", "movement dedup key is built with format "+q(got)+": without a separator outside the identifier alphabet different step lists can collide")
	}
}

func c06d(c *Ctx) {
	for fnName, want := range map[string]string{"parser.getImplicitTextLabel": "%s_Text_%d", "parser.getImplicitMovementLabel": "%s_Movement_%d"} {
		fn := c.Fn(fnName)
		if fn == nil {
			continue
		}
		rets := returnsOf(fn)
		ok := false
		got := ""
		if len(rets) == 1 {
			if f, ops, isF := flatTemplate(rets[0].Results[0], 0); isF {
				got = f
				ok = f == want && len(ops) == 2 && c.term(fn, ops[0]) == "$0" && c.term(fn, ops[1]) == "$1"
			}
		}
		c.Check(ok, fnName+"/format", c.W.FuncPos(fn), "label = "+want+" (script, n)", "label format is "+q(got)+" / operands differ; expected "+want+" with (scriptName, i)")
	}
}

func c06e(c *Ctx) {
	fn := c.Fn("emitter.Emitter.Emit")
	et := c.Fn("emitter.Emitter.emitText")
	em := c.Fn("emitter.Emitter.emitMovementStatement")
	if fn == nil || et == nil || em == nil {
		return
	}
	calls := callsToIn(fn, et)
	ok := len(calls) == 1
	why := fmt.Sprintf("expected one emitText call, found %d", len(calls))
	if ok {
		arg := c.term(fn, calls[0].Common().Args[1])
		ok = strings.HasPrefix(arg, "$0.program.Texts[phi(") && strings.HasSuffix(arg, "+1]")
		why = "emitText is called on " + pretty(arg) + ", expected every element of program.Texts in order"
		h := loopHeaders(fn)[calls[0].Block()]
		if ok && h != nil {
			for b := range loopBody(h) {
				if _, isRet := b.Instrs[len(b.Instrs)-1].(*ssa.Return); isRet {
					ok = false
					why = "the text loop can be left early"
				}
			}
		}
		// no text is skipped: inside the loop nothing but the walk itself decides whether a text is emitted
		if ok {
			pc := c.PC(fn)
			// what was settled before the loop is not a condition of the iteration
			settled := map[string]bool{}
			if h != nil {
				for _, l := range c.mustLits(fn, h) {
					settled[l[1:]] = true
				}
			}
			d := dropAtoms(pc.canonOf(pc.At(calls[0].Block())), func(a string) bool {
				return isRangeTest(a) || settled[a]
			})
			if !dnfEquiv(d, mkDNF([]string{})) {
				ok = false
				why = "a text is emitted only under [" + d.String() + "]: some program texts would be skipped"
			}
		}
		// its result is written to the output
		written := false
		for _, ws := range c.sitesOf(fn) {
			if ws.arg == nil {
				continue
			}
			var leaves []ssa.Value
			phiLeaves(ws.arg, map[ssa.Value]bool{}, &leaves)
			for _, lf := range leaves {
				if lf == calls[0].(ssa.Value) {
					written = true
				}
			}
		}
		if ok && !written {
			ok = false
			why = "the emitted text is not written to the output builder"
		}
	}
	c.Check(ok, "Emit/all-texts", c.W.FuncPos(fn), "every program text is emitted", why)
	mcalls := callsToIn(fn, em)
	okM := len(mcalls) == 1 && strings.HasPrefix(c.term(fn, mcalls[0].Common().Args[1]), "assert<*ast.MovementStatement>(")
	c.Check(okM, "Emit/movements-dispatched", c.W.FuncPos(fn), "movement statements (explicit and hoisted) are dispatched to the movement emitter", "Emit does not dispatch *ast.MovementStatement to emitMovementStatement")
	// every handled top-level type: output written
	// (a shared `sb.WriteString(output)` after a type switch writes every alternative of output)
	written := map[ssa.Value]bool{}
	for _, ws := range c.sitesOf(fn) {
		if ws.arg == nil {
			continue
		}
		var leaves []ssa.Value
		phiLeaves(ws.arg, map[ssa.Value]bool{}, &leaves)
		for _, lf := range leaves {
			if ex, isEx := lf.(*ssa.Extract); isEx {
				lf = ex.Tuple
			}
			if call, isCall := lf.(*ssa.Call); isCall && callee(call) != nil && c.W.InRepo(callee(call)) {
				written[call] = true
			}
		}
	}
	nW := len(written)
	c.Check(nW >= 6, "Emit/outputs-written", c.W.FuncPos(fn), "the output of every statement emitter is appended", fmt.Sprintf("only %d emitter results are written to the output, expected 6", nW))
}

// ---- C06.c must-consume ------------------------------------------------------------------

func isImpDataPtr(t types.Type) bool {
	p, ok := t.(*types.Pointer)
	return ok && typeIs(p.Elem(), "parser", "impData")
}

func c06c(c *Ctx) {
	addFn := c.Fn("parser.impData.add")
	addImp := c.Fn("parser.Parser.addImplicitData")
	if addFn == nil || addImp == nil {
		return
	}
	// what is merged into an accumulator must still be on its way out: the receiver of an add is,
	// after that add, returned by the function, registered, or merged into another accumulator
	// (adding into one whose content was already handed on loses what is added)
	{
		nAdds := 0
		for _, fn := range c.W.FuncsOf("parser") {
			if isTestFunc(c.W, fn) || len(fn.Blocks) == 0 || fn == addFn {
				continue
			}
			for _, ci := range callsToIn(fn, addFn) {
				recv := ci.Common().Args[0]
				nAdds++
				live := false
				// returned
				for _, r := range returnsOf(fn) {
					for _, res := range r.Results {
						var leaves []ssa.Value
						phiLeaves(res, map[ssa.Value]bool{}, &leaves)
						for _, lf := range leaves {
							if lf == recv {
								live = true
							}
						}
					}
				}
				// merged or registered later
				for _, cj := range callsIn(fn) {
					if cj == ci {
						continue
					}
					g := callee(cj)
					if g != addFn && g != addImp {
						continue
					}
					args := cj.Common().Args
					if args[len(args)-1] == recv && canReach(ci.(ssa.Instruction), cj.(ssa.Instruction)) {
						live = true
					}
				}
				c.Check(live, fmt.Sprintf("add-into-a-live-accumulator/%s@%d", fn.Name(), c.T(fn).callOrd[ci]), c.W.Pos(ci.Pos()), "the accumulator that is added to is returned or merged further afterwards", fn.Name()+" adds hoisted data into "+pretty(c.term(fn, recv))+", which is neither returned nor merged into anything after this point: the inline texts / movements that are added are lost (their commands keep an empty argument)")
			}
		}
		c.Check(nAdds >= 15, "add-into-a-live-accumulator/census", "-", fmt.Sprintf("%d merges of hoisted data followed", nAdds), fmt.Sprintf("only %d calls of impData.add found", nAdds))
	}
	// lemma: add appends both lists of the argument to the receiver
	{
		okT, okM := false, false
		for _, st := range storesToField(addFn, "parser", "impData", "texts") {
			if c.term(addFn, st.Val) == "builtin:append($0.texts,$1.texts)" {
				okT = true
			}
		}
		for _, st := range storesToField(addFn, "parser", "impData", "movements") {
			if c.term(addFn, st.Val) == "builtin:append($0.movements,$1.movements)" {
				okM = true
			}
		}
		c.Check(okT && okM, "impData.add/appends-both", c.W.FuncPos(addFn), "add merges texts and movements of its argument into the receiver", "impData.add does not append both other.texts and other.movements to the receiver")
		// ... always: no return of add is reachable without both merges (an early return for "nothing
		// to merge" that looks at one list only loses the other)
		for _, fld := range []string{"texts", "movements"} {
			var sinks []ssa.Instruction
			for _, st := range storesToField(addFn, "parser", "impData", fld) {
				if strings.HasPrefix(c.term(addFn, st.Val), "builtin:append($0."+fld+",$1."+fld) {
					sinks = append(sinks, st)
				}
			}
			_, skip := existsPath(pathQuery{from: entry(addFn), exitIs: true, edgeOK: argNotNilEdge(addFn.Params[1]), avoid: func(x ssa.Instruction) bool {
				for _, k := range sinks {
					if k == x {
						return true
					}
				}
				return false
			}})
			c.Check(len(sinks) > 0 && !skip, "impData.add/always-merges-"+fld, c.W.FuncPos(addFn), "every call of add merges the "+fld, "impData.add can return without merging other."+fld+": inline "+fld+" collected by a sub-parser would be lost on that path")
		}
		for _, f2 := range []*ssa.Function{addImp} {
			for _, callee2 := range []string{"parser.Parser.addImplicitTexts", "parser.Parser.addImplicitMovements"} {
				g := c.Fn(callee2)
				if g == nil {
					continue
				}
				var sinks []ssa.Instruction
				for _, ci := range callsToIn(f2, g) {
					sinks = append(sinks, ci.(ssa.Instruction))
				}
				_, skip := existsPath(pathQuery{from: entry(f2), exitIs: true, edgeOK: argNotNilEdge(f2.Params[1]), avoid: func(x ssa.Instruction) bool {
					for _, k := range sinks {
						if k == x {
							return true
						}
					}
					return false
				}})
				c.Check(len(sinks) > 0 && !skip, "addImplicitData/always-calls-"+g.Name(), c.W.FuncPos(f2), "addImplicitData always registers both kinds", "addImplicitData can return without calling "+g.Name()+": hoisted data of that kind would never be labelled and defined")
			}
		}
	}
	{
		at := c.Fn("parser.Parser.addImplicitTexts")
		am := c.Fn("parser.Parser.addImplicitMovements")
		ok := at != nil && am != nil && len(callsToIn(addImp, at)) == 1 && len(callsToIn(addImp, am)) == 1
		if ok {
			ok = c.term(addImp, callsToIn(addImp, at)[0].Common().Args[1]) == "$1.texts" && c.term(addImp, callsToIn(addImp, am)[0].Common().Args[1]) == "$1.movements"
		}
		c.Check(ok, "addImplicitData/both-kinds", c.W.FuncPos(addImp), "addImplicitData registers texts and movements", "addImplicitData does not hand both texts and movements to their registrars")
	}
	for _, fn := range c.W.FuncsOf("parser") {
		if isTestFunc(c.W, fn) || fn == addFn {
			continue
		}
		// sources: *impData values produced here
		var sources []ssa.Value
		srcName := map[ssa.Value]string{}
		instrs(fn, func(in ssa.Instruction) {
			switch x := in.(type) {
			case *ssa.Call:
				res := x.Call.Signature().Results()
				for i := 0; i < res.Len(); i++ {
					if !isImpDataPtr(res.At(i).Type()) {
						continue
					}
					var v ssa.Value
					if res.Len() == 1 {
						v = x
					} else {
						for _, r := range *x.Referrers() {
							if ex, ok := r.(*ssa.Extract); ok && ex.Index == i {
								v = ex
							}
						}
					}
					nm := shortCallee(c.T(fn).calleeShort(x)) + fmt.Sprintf("@%d", c.T(fn).callOrd[x])
					if v == nil {
						c.Bad(c.W.FuncKey(fn)+"/"+nm+"/result-dropped", c.W.Pos(x.Pos()), "the *impData result of "+nm+" is discarded: inline texts / movements collected by the callee never get their label")
						continue
					}
					sources = append(sources, v)
					srcName[v] = nm
				}
			case *ssa.Lookup:
				if x.CommaOk {
					if tup, ok := x.Type().(*types.Tuple); ok && isImpDataPtr(tup.At(0).Type()) {
						for _, r := range *x.Referrers() {
							if ex, ok := r.(*ssa.Extract); ok && ex.Index == 0 {
								sources = append(sources, ex)
								srcName[ex] = "case-map-lookup[" + pretty(c.term(fn, x.Index)) + "]"
							}
						}
					}
				} else if isImpDataPtr(x.Type()) {
					sources = append(sources, x)
					srcName[x] = "case-map-lookup[" + pretty(c.term(fn, x.Index)) + "]"
				}
			case *ssa.Field:
				// the data of a case kept in a record of the case map: `cases[k].impData`
				if isImpDataPtr(x.Type()) {
					var leaves []ssa.Value
					phiLeaves(x.X, map[ssa.Value]bool{}, &leaves)
					fromMap := len(leaves) > 0
					for _, lf := range leaves {
						fromMap = fromMap && lookupMap(lf) != nil
					}
					if fromMap {
						sources = append(sources, x)
						srcName[x] = "case-map-record[" + pretty(c.term(fn, x)) + "]"
					}
				}
			}
		})
		if len(sources) == 0 {
			continue
		}
		// flow graph: v -> receiver of add(v); v -> phi; sinks: return result, addImplicitData arg, map store
		flows := map[ssa.Value][]ssa.Value{}
		sinkRet := map[ssa.Value][]*ssa.Return{}
		otherSink := map[ssa.Value]bool{}
		otherSinkAt := map[ssa.Value][]ssa.Instruction{}
		consumedAt := map[ssa.Value][]ssa.Instruction{}
		addCallOf := map[ssa.Value][]ssa.Instruction{}
		var all []ssa.Value
		seen := map[ssa.Value]bool{}
		var visit func(v ssa.Value)
		visit = func(v ssa.Value) {
			if seen[v] {
				return
			}
			seen[v] = true
			all = append(all, v)
			refs := v.Referrers()
			if refs == nil {
				return
			}
			for _, r := range *refs {
				switch y := r.(type) {
				case *ssa.Call:
					switch {
					case callee(y) == addFn && len(y.Call.Args) == 2 && y.Call.Args[1] == v:
						flows[v] = append(flows[v], y.Call.Args[0])
						addCallOf[v] = append(addCallOf[v], y)
						consumedAt[v] = append(consumedAt[v], y)
						visit(y.Call.Args[0])
					case callee(y) == addImp && y.Call.Args[1] == v:
						otherSink[v] = true
						otherSinkAt[v] = append(otherSinkAt[v], y)
						consumedAt[v] = append(consumedAt[v], y)
					default:
						// handed to a helper that hands it back (possibly after merging more
						// data into it): `return p.continueX(left, acc, …)` with `acc.add(more); return …, acc, nil`
						g := callee(y)
						if g == nil || !c.W.InRepo(g) || len(g.Blocks) == 0 {
							break
						}
						for j, a := range y.Call.Args {
							if a != v || !impPassesThrough(c, g, j, addFn) {
								continue
							}
							res := y.Call.Signature().Results()
							for i := 0; i < res.Len(); i++ {
								if !isImpDataPtr(res.At(i).Type()) {
									continue
								}
								var out ssa.Value
								if res.Len() == 1 {
									out = y
								} else if y.Referrers() != nil {
									for _, rr := range *y.Referrers() {
										if ex, ok := rr.(*ssa.Extract); ok && ex.Index == i {
											out = ex
										}
									}
								}
								if out != nil {
									flows[v] = append(flows[v], out)
									consumedAt[v] = append(consumedAt[v], y)
									visit(out)
								}
							}
						}
					}
				case *ssa.Phi:
					flows[v] = append(flows[v], y)
					visit(y)
				case *ssa.Return:
					sinkRet[v] = append(sinkRet[v], y)
					consumedAt[v] = append(consumedAt[v], y)
				case *ssa.MapUpdate:
					if y.Value == v {
						otherSink[v] = true
						otherSinkAt[v] = append(otherSinkAt[v], y)
						consumedAt[v] = append(consumedAt[v], y)
					}
				case *ssa.Store:
					// put into a record that is stored in a map (`cases[k] = caseRecord{..., impData: v}`)
					if fa, ok := y.Addr.(*ssa.FieldAddr); ok && y.Val == v {
						if a, ok := fa.X.(*ssa.Alloc); ok && a.Referrers() != nil {
							for _, ar := range *a.Referrers() {
								ld, ok := ar.(*ssa.UnOp)
								if !ok || ld.Referrers() == nil {
									continue
								}
								for _, lr := range *ld.Referrers() {
									if mu, ok := lr.(*ssa.MapUpdate); ok && mu.Value == ssa.Value(ld) {
										otherSink[v] = true
										otherSinkAt[v] = append(otherSinkAt[v], mu)
										consumedAt[v] = append(consumedAt[v], y)
									}
								}
							}
						}
					}
				}
			}
		}
		for _, s := range sources {
			visit(s)
		}
		// side accumulators: data gathered into an accumulator that is merged into another one
		// later keeps its place only if nothing is merged into that other one in between
		// (`elifData.add(x)` … `data.add(elseData)` … `data.add(elifData)` numbers the else texts first)
		{
			type addCall struct {
				in        ssa.Instruction
				recv, arg ssa.Value
			}
			var adds []addCall
			for _, ci := range callsToIn(fn, addFn) {
				a := ci.Common().Args
				if len(a) == 2 {
					adds = append(adds, addCall{ci.(ssa.Instruction), a[0], a[1]})
				}
			}
			for _, m := range adds {
				side, isAlloc := m.arg.(*ssa.Alloc)
				if !isAlloc || !isImpDataPtr(side.Type()) {
					continue
				}
				for _, x := range adds {
					if x.recv != ssa.Value(side) {
						continue
					}
					w, found := existsPath(pathQuery{from: after(x.in), avoid: func(y ssa.Instruction) bool { return y == m.in }, edgeOK: notErrorEdge, target: func(y ssa.Instruction) bool {
						for _, o := range adds {
							if o.in == y && o.recv == m.recv && o.arg != m.arg {
								return true
							}
						}
						return false
					}})
					c.Check(!found, fmt.Sprintf("%s/side-accumulator@%d/merged-before-later-data", c.W.FuncKey(fn), c.T(fn).callOrd[m.in.(ssa.CallInstruction)]), c.W.Pos(m.in.Pos()), "a side accumulator is merged before anything later is merged into its target", func() string {
						if !found {
							return ""
						}
						return "inline data gathered into a side accumulator at " + c.W.Pos(x.in.Pos()) + " is merged only here, after later data was already merged at " + c.W.Pos(w.Pos()) + ": generated labels would not be numbered in order of first appearance"
					}())
				}
			}
		}
		reach := func(from ssa.Value) (map[*ssa.Return]bool, bool) {
			rs := map[*ssa.Return]bool{}
			other := false
			done := map[ssa.Value]bool{}
			var walk func(v ssa.Value)
			walk = func(v ssa.Value) {
				if done[v] {
					return
				}
				done[v] = true
				for _, r := range sinkRet[v] {
					rs[r] = true
				}
				if otherSink[v] {
					other = true
				}
				for _, n := range flows[v] {
					walk(n)
				}
			}
			walk(from)
			return rs, other
		}
		for _, s := range sources {
			key := c.W.FuncKey(fn) + "/" + srcName[s]
			pos := c.W.Pos(s.Pos())
			rs, other := reach(s)
			si := s.(ssa.Instruction)
			c.mergedInOrder(fn, s, srcName, sources, consumedAt, flows, key, pos)
			if other {
				// ... on every successful path: no successful return is reachable from the source without passing the hand-over
				var sinks []ssa.Instruction
				done := map[ssa.Value]bool{}
				var walk func(v ssa.Value)
				walk = func(v ssa.Value) {
					if done[v] {
						return
					}
					done[v] = true
					sinks = append(sinks, otherSinkAt[v]...)
					for _, n := range flows[v] {
						walk(n)
					}
				}
				walk(s)
				isSink := func(in ssa.Instruction) bool {
					for _, k := range sinks {
						if k == in {
							return true
						}
					}
					return false
				}
				w, skip := existsPath(pathQuery{from: after(si), avoid: isSink, edgeOK: notErrorEdge, target: func(in ssa.Instruction) bool {
					r, ok := in.(*ssa.Return)
					return ok && c.mayBeSuccessRet(fn, r)
				}})
				if skip {
					c.Bad(key, pos, "the inline data of "+srcName[s]+" is handed to the program only on some paths: the successful return at "+c.W.Pos(w.Pos())+" is reachable without it (its texts / movements would never be defined)")
					continue
				}
				c.OK(key, pos, "handed to the program (addImplicitData / case map) on every successful path")
				continue
			}
			// every successful return reachable from the source must be reached by the flow
			bad := ""
			nRet := 0
			for _, r := range returnsOf(fn) {
				if !c.mayBeSuccessRet(fn, r) || !canReach(si, r) {
					continue
				}
				// only returns that return an impData at all
				hasImp := false
				for _, res := range r.Results {
					if isImpDataPtr(res.Type()) {
						hasImp = true
					}
				}
				if !hasImp {
					continue
				}
				nRet++
				if !rs[r] {
					bad = c.W.Pos(r.Pos())
				}
			}
			if nRet == 0 && len(rs) == 0 {
				c.Bad(key, pos, "the collected inline data of "+srcName[s]+" is neither merged into the returned *impData nor registered: its texts / movements are lost")
				continue
			}
			if bad != "" {
				c.Bad(key, pos, "the inline data of "+srcName[s]+" does not reach the *impData returned at "+bad+" (it is merged into a value that is not the one returned)")
				continue
			}
			// the merge happens on every non-error path from the source to the return
			okPath := true
			if len(addCallOf[s]) > 0 {
				isAdd := func(in ssa.Instruction) bool {
					for _, a := range addCallOf[s] {
						if a == in {
							return true
						}
					}
					return false
				}
				_, skip := existsPath(pathQuery{from: after(si), avoid: isAdd, edgeOK: notErrorEdge, target: func(in ssa.Instruction) bool {
					r, ok := in.(*ssa.Return)
					return ok && c.mayBeSuccessRet(fn, r)
				}})
				if skip {
					okPath = false
				}
			}
			c.Check(okPath, key, pos, "merged into the value that is returned on every successful path", "a successful return can be reached without merging the inline data of "+srcName[s])
		}
	}
	_ = sort.Strings
}

// mergedInOrder: generated labels are numbered in the order the inline data is merged, and the property
// numbers them in order of first appearance: the data a parse call returns is merged (or handed on)
// before the next parse call that can return inline data is made.
func (c *Ctx) mergedInOrder(fn *ssa.Function, s ssa.Value, srcName map[ssa.Value]string, sources []ssa.Value, consumedAt map[ssa.Value][]ssa.Instruction, flows map[ssa.Value][]ssa.Value, key, pos string) {
	var prod ssa.Instruction
	switch x := s.(type) {
	case *ssa.Call:
		prod = x
	case *ssa.Extract:
		if cl, ok := x.Tuple.(*ssa.Call); ok {
			prod = cl
		}
	}
	if prod == nil {
		return
	}
	// consumption points of s itself and of the phis it flows into unchanged
	var sinks []ssa.Instruction
	done := map[ssa.Value]bool{}
	var walk func(v ssa.Value)
	walk = func(v ssa.Value) {
		if done[v] {
			return
		}
		done[v] = true
		sinks = append(sinks, consumedAt[v]...)
		for _, n := range flows[v] {
			if _, isPhi := n.(*ssa.Phi); isPhi {
				walk(n)
			}
		}
	}
	walk(s)
	isSink := func(in ssa.Instruction) bool {
		for _, k := range sinks {
			if k == in {
				return true
			}
		}
		return false
	}
	producers := map[ssa.Instruction]string{}
	for _, o := range sources {
		switch x := o.(type) {
		case *ssa.Call:
			producers[x] = srcName[o]
		case *ssa.Extract:
			if cl, ok := x.Tuple.(*ssa.Call); ok {
				producers[cl] = srcName[o]
			}
		}
	}
	w, found := existsPath(pathQuery{from: after(prod), avoid: isSink, edgeOK: notErrorEdge, target: func(in ssa.Instruction) bool {
		_, ok := producers[in]
		return ok
	}})
	c.Check(!found, key+"/merged-in-source-order", pos, "merged before the next parse call that can return inline data (labels are numbered in order of appearance)", func() string {
		if !found {
			return ""
		}
		return "the inline data of " + srcName[s] + " is still unmerged when " + producers[w] + " (" + c.W.Pos(w.Pos()) + ") parses further inline data: generated labels would not be numbered in order of first appearance"
	}())
}

// argNotNilEdge prunes the edge on which parameter p was found to be nil (there is nothing to merge then).
func argNotNilEdge(p *ssa.Parameter) func(*ssa.BasicBlock, int) bool {
	return func(b *ssa.BasicBlock, succ int) bool {
		if len(b.Instrs) == 0 {
			return true
		}
		ifi, ok := b.Instrs[len(b.Instrs)-1].(*ssa.If)
		if !ok {
			return true
		}
		bo, ok := ifi.Cond.(*ssa.BinOp)
		if !ok || !(bo.X == ssa.Value(p) && isNilConst(bo.Y) || bo.Y == ssa.Value(p) && isNilConst(bo.X)) {
			return true
		}
		switch bo.Op {
		case token.EQL:
			return succ != 0
		case token.NEQ:
			return succ != 1
		}
		return true
	}
}

// paramIndexOfTerm: k for a term "$k", -1 otherwise.
func paramIndexOfTerm(t string) int {
	if !strings.HasPrefix(t, "$") {
		return -1
	}
	k, err := strconv.Atoi(t[1:])
	if err != nil {
		return -1
	}
	return k
}

// impPassesThrough: on every return of g that can be a successful one, the *impData result is
// g's parameter j itself, or a value into which parameter j was merged with add.
func impPassesThrough(c *Ctx, g *ssa.Function, j int, addFn *ssa.Function) bool {
	if j >= len(g.Params) || !isImpDataPtr(g.Params[j].Type()) {
		return false
	}
	p := g.Params[j]
	n := 0
	for _, r := range returnsOf(g) {
		if !c.mayBeSuccessRet(g, r) {
			continue
		}
		for _, res := range r.Results {
			if !isImpDataPtr(res.Type()) {
				continue
			}
			n++
			var leaves []ssa.Value
			phiLeaves(res, map[ssa.Value]bool{}, &leaves)
			for _, lf := range leaves {
				if lf == ssa.Value(p) {
					continue
				}
				merged := false
				for _, ci := range callsToIn(g, addFn) {
					a := ci.Common().Args
					if len(a) == 2 && a[0] == lf && a[1] == ssa.Value(p) && instrDominates(ci.(ssa.Instruction), r) {
						merged = true
					}
				}
				if !merged {
					return false
				}
			}
		}
	}
	return n > 0
}

// onlyCalledBeforeLoop: g is called from pp only, outside loops, and no call of g is reachable
// from a call of the statement parser top.
func onlyCalledBeforeLoop(c *Ctx, g, pp, top *ssa.Function) bool {
	sites := c.W.callsTo(g)
	if len(sites) == 0 {
		return false
	}
	for _, s := range sites {
		if isTestFunc(c.W, s.Parent()) {
			continue
		}
		if s.Parent() != pp || loopHeaders(pp)[s.Block()] != nil {
			return false
		}
		if top != nil {
			for _, call := range callsToIn(pp, top) {
				if canReach(call.(ssa.Instruction), s.(ssa.Instruction)) {
					return false
				}
			}
		}
	}
	return true
}

// labelCallMatches: v is a call of the label function labelFn with the two given argument terms
// (the term of a small pure function may be its body written out; the call itself is what counts).
func labelCallMatches(c *Ctx, fn *ssa.Function, v ssa.Value, labelFn, a0, a1 string) bool {
	call, ok := v.(*ssa.Call)
	if !ok {
		return false
	}
	g := callee(call)
	if g == nil || g.Name() != labelFn || len(call.Call.Args) != 2 {
		return false
	}
	return c.term(fn, call.Call.Args[0]) == a0 && c.term(fn, call.Call.Args[1]) == a1
}

// c06aScriptName: the name that labels of inline texts and movements are made from is the name of
// the script being parsed. The record takes it from a parameter of parseCommandStatement; every
// function on the way down hands its own such parameter on, and where the chain starts (a script
// statement, a map script with a body) the name handed in is the very name given to the script.
func c06aScriptName(c *Ctx, fn *ssa.Function) {
	type slot struct {
		fn  *ssa.Function
		idx int
	}
	in := map[slot]bool{}
	var work []slot
	for _, rec := range []string{"impText", "impMovement"} {
		for _, st := range storesToField(fn, "parser", rec, "scriptName") {
			par, ok := st.Val.(*ssa.Parameter)
			c.Check(ok, "script-name/record-holds-the-parameter/"+rec, c.W.Pos(st.Pos()), "the record's script name is the name parseCommandStatement was given", "the record's script name is "+pretty(c.term(fn, st.Val))+", not the script name handed to parseCommandStatement")
			if !ok {
				continue
			}
			for i, p := range fn.Params {
				if p == par && !in[slot{fn, i}] {
					in[slot{fn, i}] = true
					work = append(work, slot{fn, i})
				}
			}
		}
	}
	if len(work) == 0 {
		c.Bad("script-name/record-holds-the-parameter", c.W.FuncPos(fn), "no record field scriptName is filled from a parameter of parseCommandStatement")
		return
	}
	// first the chain (who is given the name), then the hand-overs
	for len(work) > 0 {
		s := work[0]
		work = work[1:]
		for _, caller := range c.W.Funcs {
			if isTestFunc(c.W, caller) {
				continue
			}
			for _, ci := range callsIn(caller) {
				if callee(ci) != s.fn || s.idx >= len(ci.Common().Args) {
					continue
				}
				if par, isPar := ci.Common().Args[s.idx].(*ssa.Parameter); isPar {
					for i, p := range caller.Params {
						if p == par && !in[slot{caller, i}] {
							in[slot{caller, i}] = true
							work = append(work, slot{caller, i})
						}
					}
				}
			}
		}
	}
	nCalls, nRoots := 0, 0
	var slots []slot
	for s := range in {
		slots = append(slots, s)
	}
	sort.Slice(slots, func(i, j int) bool { return slots[i].fn.Name() < slots[j].fn.Name() })
	for _, s := range slots {
		for _, caller := range c.W.Funcs {
			if isTestFunc(c.W, caller) {
				continue
			}
			own := -1
			for i := range caller.Params {
				if in[slot{caller, i}] {
					own = i
				}
			}
			for _, ci := range callsIn(caller) {
				if callee(ci) != s.fn || s.idx >= len(ci.Common().Args) {
					continue
				}
				nCalls++
				arg := ci.Common().Args[s.idx]
				key := fmt.Sprintf("script-name/%s->%s@%d", caller.Name(), s.fn.Name(), c.T(caller).callOrd[ci])
				if own >= 0 {
					c.Check(arg == ssa.Value(caller.Params[own]), key, c.W.Pos(ci.Pos()), "the script name is handed on", caller.Name()+" was given the script name but hands "+pretty(c.term(caller, arg))+" to "+s.fn.Name()+" instead: inline texts and movements would be labelled after something else than their script")
					continue
				}
				// the chain starts here: the name is the name the script is given
				nRoots++
				at := c.term(caller, arg)
				okRoot := false
				for _, st := range storesToField(caller, "ast", "Identifier", "Value") {
					if st.Val == arg || c.term(caller, st.Val) == at {
						okRoot = true
					}
				}
				// ... or it is read out of the identifier node that becomes the script's name
				if !okRoot {
					if ld, isLd := arg.(*ssa.UnOp); isLd {
						if fa, isFA := ld.X.(*ssa.FieldAddr); isFA && typeIs(fa.X.Type(), "ast", "Identifier") && fieldName(fa.X.Type(), fa.Field) == "Value" && fa.X.Referrers() != nil {
							for _, r := range *fa.X.Referrers() {
								if st, isSt := r.(*ssa.Store); isSt && st.Val == fa.X {
									if fa2, ok2 := st.Addr.(*ssa.FieldAddr); ok2 && fieldName(fa2.X.Type(), fa2.Field) == "Name" {
										okRoot = true
									}
								}
							}
						}
					}
				}
				if !okRoot && strings.HasSuffix(at, ".Value") {
					base := strings.TrimSuffix(at, ".Value")
					instrs(caller, func(in ssa.Instruction) {
						st, isSt := in.(*ssa.Store)
						if !isSt {
							return
						}
						if fa2, ok2 := st.Addr.(*ssa.FieldAddr); ok2 && fieldName(fa2.X.Type(), fa2.Field) == "Name" && typeIs(st.Val.Type(), "ast", "Identifier") && c.term(caller, st.Val) == base {
							okRoot = true
						}
					})
				}
				// ... possibly through a constructor that is handed the name and stores it
				if !okRoot {
					for _, cj := range callsIn(caller) {
						g := callee(cj)
						if g == nil || !c.W.InRepo(g) || len(g.Blocks) == 0 {
							continue
						}
						for j, a := range cj.Common().Args {
							if (a != arg && c.term(caller, a) != at) || j >= len(g.Params) {
								continue
							}
							for _, st := range storesToField(g, "ast", "Identifier", "Value") {
								if st.Val == ssa.Value(g.Params[j]) {
									okRoot = true
								}
							}
						}
					}
				}
				c.Check(okRoot, key, c.W.Pos(ci.Pos()), "the script name handed in is the name the script statement gets", caller.Name()+" starts parsing a script body under the name "+pretty(at)+", which is not the name it gives the script: labels of inline texts and movements would not be derived from their script's name")
			}
		}
	}
	c.Check(nCalls >= 20 && nRoots >= 2, "script-name/census", c.W.FuncPos(fn), fmt.Sprintf("%d hand-overs of the script name followed up to %d script parsers", nCalls, nRoots), fmt.Sprintf("only %d hand-overs of the script name and %d starting points found", nCalls, nRoots))
}

// wholeCall: the term is one call of the given head — the parenthesis opened by the head closes at
// the very end (so `len(x)+1` is not `len(…)`).
func wholeCall(term, head string) bool {
	if !strings.HasPrefix(term, head) || !strings.HasSuffix(term, ")") {
		return false
	}
	depth := 0
	inStr := false
	for i := len(head) - 1; i < len(term); i++ {
		ch := term[i]
		if ch == '"' && (i == 0 || term[i-1] != '\\') {
			inStr = !inStr
		}
		if inStr {
			continue
		}
		switch ch {
		case '(':
			depth++
		case ')':
			depth--
			if depth == 0 {
				return i == len(term)-1
			}
		}
	}
	return false
}

// fieldValueOf: the SSA value stored in field fld of the struct value ev (a composite literal kept
// in a local and loaded whole) as it is at instruction `at`.
func fieldValueOf(c *Ctx, fn *ssa.Function, ev ssa.Value, fld string, at ssa.Instruction) ssa.Value {
	ld, ok := ev.(*ssa.UnOp)
	if !ok {
		return nil
	}
	a, ok := ld.X.(*ssa.Alloc)
	if !ok {
		return nil
	}
	return fieldValue(a, fld, ld)
}
