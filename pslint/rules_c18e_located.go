package main

import (
	"fmt"
	"strings"

	"golang.org/x/tools/go/ssa"
)

// c18eLocated: every error the parser returns is a located one: built by one of the two
// constructors, or handed up unchanged from a function of package parser for which the same
// holds (an error of strconv, fmt or errors returned as it is carries no line range at all).
// "Parser functions" are methods of *Parser, functions taking a *Parser, and their closures;
// other helpers of the package (checkDuplicateTextLabels(texts)) count as sources of located
// errors when all their own error returns are located; function values are resolved through
// the arguments passed at the call sites of the function that calls them.
func c18eLocated(c *Ctx, nr, np *ssa.Function) {
	var isParserFn func(g *ssa.Function) bool
	isParserFn = func(g *ssa.Function) bool {
		if g == nil || !c.W.InRepo(g) || c.W.PkgShort(g) != "parser" {
			return false
		}
		if g.Parent() != nil {
			return isParserFn(g.Parent())
		}
		if r := g.Signature.Recv(); r != nil && typeIs(r.Type(), "parser", "Parser") {
			return true
		}
		ps := g.Signature.Params()
		for i := 0; i < ps.Len(); i++ {
			if typeIs(ps.At(i).Type(), "parser", "Parser") {
				return true
			}
		}
		return false
	}
	state := map[*ssa.Function]int{} // 1 yes / in progress, 2 no
	var located func(fn *ssa.Function, v ssa.Value, depth int) string
	var fnLocated func(g *ssa.Function) bool
	fnLocated = func(g *ssa.Function) bool {
		g = unwrapThunk(g)
		if g == nil || !c.W.InRepo(g) || c.W.PkgShort(g) != "parser" || len(g.Blocks) == 0 {
			return false
		}
		if isParserFn(g) {
			return true // judged at its own returns
		}
		switch state[g] {
		case 1:
			return true
		case 2:
			return false
		}
		state[g] = 1
		res := g.Signature.Results()
		if res.Len() == 0 || !isErrorType(res.At(res.Len()-1).Type()) {
			state[g] = 2
			return false
		}
		for _, r := range returnsOf(g) {
			if located(g, r.Results[len(r.Results)-1], 0) != "" {
				state[g] = 2
				return false
			}
		}
		return true
	}
	// resolveFuncs: every function passed for parameter idx of f (through further parameters) is located
	var resolve func(f *ssa.Function, idx, depth int) bool
	resolve = func(f *ssa.Function, idx, depth int) bool {
		sites := c.W.callsTo(f)
		if idx < 0 || len(sites) == 0 || depth > 3 {
			return false
		}
		for _, site := range sites {
			av := site.Common().Args[idx]
			for {
				ct, ok := av.(*ssa.ChangeType)
				if !ok {
					break
				}
				av = ct.X
			}
			switch a := av.(type) {
			case *ssa.Function:
				if !fnLocated(a) {
					return false
				}
			case *ssa.MakeClosure:
				h, _ := a.Fn.(*ssa.Function)
				if !fnLocated(h) {
					return false
				}
			case *ssa.Parameter:
				j := -1
				for i, pp := range site.Parent().Params {
					if pp == a {
						j = i
					}
				}
				if !resolve(site.Parent(), j, depth+1) {
					return false
				}
			default:
				return false
			}
		}
		return true
	}
	located = func(fn *ssa.Function, v ssa.Value, depth int) string {
		if depth > 8 {
			return "too deep"
		}
		switch x := v.(type) {
		case *ssa.Const:
			if x.IsNil() {
				return ""
			}
		case *ssa.Phi:
			for _, e := range x.Edges {
				if e == v {
					continue
				}
				if w := located(fn, e, depth+1); w != "" {
					return w
				}
			}
			return ""
		case *ssa.MakeInterface:
			if typeIs(x.X.Type(), "parser", "ParseError") {
				return ""
			}
			return "a " + x.X.Type().String()
		case *ssa.Call:
			g := callee(x)
			if g == nr || g == np || fnLocated(g) {
				return ""
			}
			if g != nil && c.W.InRepo(g) && isErrorCtorFn(g, 0) {
				return ""
			}
			return "the error of " + calleeName(x)
		case *ssa.Extract:
			if cl, ok := x.Tuple.(*ssa.Call); ok {
				g := callee(cl)
				if fnLocated(g) {
					return ""
				}
				if par, ok := cl.Call.Value.(*ssa.Parameter); ok && g == nil {
					idx := -1
					for i, pp := range fn.Params {
						if pp == par {
							idx = i
						}
					}
					if resolve(fn, idx, 0) {
						return ""
					}
					return "the error of a function value that is not always a parser function"
				}
				return "the error of " + calleeName(cl)
			}
		case *ssa.UnOp:
			if a, ok := x.X.(*ssa.Alloc); ok {
				for _, alt := range c.reachingStores(fn, a, x) {
					if alt.val != nil {
						if w := located(fn, alt.val, depth+1); w != "" {
							return w
						}
					}
				}
				return ""
			}
		}
		return pretty(c.term(fn, v))
	}
	// a located error is handed up as it is: building a new error around the text of an error that
	// already carries its place (NewParseError(otherToken, "…: "+err.Error())) moves the report
	// to another line
	nWrap := 0
	for _, fn := range c.W.FuncsOf("parser") {
		if isTestFunc(c.W, fn) {
			continue
		}
		for _, ci := range callsIn(fn) {
			if !ci.Common().IsInvoke() || ci.Common().Method.Name() != "Error" {
				continue
			}
			// whose Error() text is it?
			src := ci.Common().Value
			var from *ssa.Function
			switch x := src.(type) {
			case *ssa.Extract:
				if cl, ok := x.Tuple.(*ssa.Call); ok {
					from = callee(cl)
				}
			case *ssa.Call:
				from = callee(x)
			}
			if from == nil || !c.W.InRepo(from) {
				continue
			}
			nWrap++
			located := isParserFn(from) || fnLocated(from)
			c.Check(!located, fmt.Sprintf("%s/error-rewrapped@%d", c.W.FuncKey(fn), c.T(fn).callOrd[ci]), c.W.Pos(ci.Pos()), "only errors without a source range are turned into text and located anew", fn.Name()+" takes the text of an error returned by "+from.Name()+", which already names its place in the source, to build a new error: the report would move to another token's line")
		}
	}
	c.Check(nWrap >= 1, "located-errors/rewraps-scanned", "-", fmt.Sprintf("%d uses of err.Error() on errors of repo functions", nWrap), "no use of err.Error() on a repo function's error found (FormatText's is expected)")
	nRet := 0
	for _, fn := range c.W.FuncsOf("parser") {
		if isTestFunc(c.W, fn) || !isParserFn(fn) {
			continue
		}
		res := fn.Signature.Results()
		if res.Len() == 0 || !isErrorType(res.At(res.Len()-1).Type()) {
			continue
		}
		fk := c.W.FuncKey(fn)
		for i, r := range returnsOf(fn) {
			ev := r.Results[len(r.Results)-1]
			nRet++
			why := located(fn, ev, 0)
			c.Check(why == "", fmt.Sprintf("%s/located-error#%d", fk, i), c.W.Pos(r.Pos()), "the error returned is nil, a ParseError, or handed up from a parser function", fn.Name()+" returns "+why+" as its error: it carries no line range (the property promises every error names where in the input it is)")
		}
	}
	// who may build a ParseError: the two constructors, which copy both ends from real tokens; a
	// ParseError literal written anywhere else can leave the end (or the start) at zero
	nLit := 0
	for _, fn := range c.W.Funcs {
		if isTestFunc(c.W, fn) || fn == nr || fn == np {
			continue
		}
		instrs(fn, func(in ssa.Instruction) {
			a, ok := in.(*ssa.Alloc)
			if !ok || !typeIs(a.Type(), "parser", "ParseError") || a.Comment != "complit" {
				return
			}
			nLit++
			c.Bad(fmt.Sprintf("%s/parse-error-built-by-hand#%d", c.W.FuncKey(fn), nLit), c.W.Pos(a.Pos()), fn.Name()+" builds a ParseError itself instead of calling NewParseError / NewRangeParseError: nothing guarantees that its range has both ends and that start is not after end")
		})
	}
	c.Check(nLit == 0, "located-errors/only-the-constructors-build-ParseError", "-", "ParseError values are built only by NewParseError and NewRangeParseError", "a ParseError is built outside the two constructors")
	// the emitter's input-dependent errors: a failing return that is reached because a name was
	// found in a label set reports the clash at the label (the emitter's other errors are internal
	// consistency checks that no input reaches: C01.a, C01.e)
	nClash := 0
	for _, fn := range c.W.FuncsOf("emitter") {
		if isTestFunc(c.W, fn) {
			continue
		}
		res := fn.Signature.Results()
		if res.Len() == 0 || !isErrorType(res.At(res.Len()-1).Type()) {
			continue
		}
		for i, r := range returnsOf(fn) {
			if isSuccessReturn(r) {
				continue
			}
			found := false
			for _, l := range c.mustLits(fn, r.Block()) {
				if strings.HasPrefix(l, "+$") && strings.HasSuffix(l, "]#1") && strings.Contains(l, "[") {
					found = true
				}
			}
			if !found {
				continue
			}
			nClash++
			ev := r.Results[len(r.Results)-1]
			call, isCall := ev.(*ssa.Call)
			ok := isCall && (callee(call) == np || callee(call) == nr)
			// ... or by a helper of the package that does nothing but build such an error
			if !ok && isCall {
				if g := callee(call); g != nil && c.W.InRepo(g) && len(g.Blocks) > 0 {
					all := true
					for _, gr := range returnsOf(g) {
						inner, isInner := gr.Results[len(gr.Results)-1].(*ssa.Call)
						if !isInner || !(callee(inner) == np || callee(inner) == nr) {
							all = false
						}
					}
					ok = all && len(returnsOf(g)) > 0
				}
			}
			c.Check(ok, fmt.Sprintf("%s/clash-error-located#%d", c.W.FuncKey(fn), i), c.W.Pos(r.Pos()), "a name clash found while rendering is reported with a source range", fn.Name()+" reports a name clash with "+pretty(c.term(fn, ev))+", which carries no source range: the error must be built with NewParseError at the clashing label")
		}
	}
	c.Check(nClash >= 2, "located-errors/emitter-clashes", "-", fmt.Sprintf("%d clash errors in package emitter", nClash), fmt.Sprintf("expected at least 2 clash errors in package emitter, found %d", nClash))
	c.Check(nRet >= 100, "located-errors/scanned", "-", fmt.Sprintf("%d error returns of parser functions examined", nRet), fmt.Sprintf("expected at least 100 error returns in parser functions, found %d", nRet))
}

// unwrapThunk: a method expression or bound method value ((*Parser).parseMartValue, p.parseX) is a
// synthetic wrapper whose body is one call of the method; the method is what matters.
func unwrapThunk(g *ssa.Function) *ssa.Function {
	if g == nil || g.Synthetic == "" || len(g.Blocks) != 1 {
		return g
	}
	var target *ssa.Function
	n := 0
	for _, in := range g.Blocks[0].Instrs {
		if ci, ok := in.(ssa.CallInstruction); ok {
			n++
			target = callee(ci)
		}
	}
	if n == 1 && target != nil {
		return target
	}
	return g
}
