package main

import (
	"fmt"
	"go/token"
	"go/types"

	"golang.org/x/tools/go/ssa"
)

func init() {
	register(&Rule{ID: "C18.j", Doc: "lazily initialised pointer fields (tested for nil and filled in by the same function; unexported, so under the package's sole control) are never dereferenced on a path where they can still be nil: the initialisation completes on every path", Floor: 3, Run: c18j})
}

// c18j (contradiction rule): if some function tests x.f == nil for a pointer field f, the code
// believes f can be nil. Then in every function, a dereference of a value loaded from .f needs,
// on every path from the function's entry, (a) a store of a non-nil value (address of a
// variable, fresh allocation) to .f, or (b) the "not nil" edge of a test of .f, or (c) the
// function never runs with f nil for a reviewed reason (exemptions). Reports the deref.
func c18j(c *Ctx) {
	type fkey struct {
		owner *types.Named
		name  string
	}
	fieldOf := func(v ssa.Value) (fkey, bool) {
		fa, ok := v.(*ssa.FieldAddr)
		if !ok {
			return fkey{}, false
		}
		n := namedOf(deref(fa.X.Type()))
		if n == nil || n.Obj().Pkg() == nil || !c.W.InRepoPkg(n.Obj().Pkg()) {
			return fkey{}, false
		}
		return fkey{n, fieldName(fa.X.Type(), fa.Field)}, true
	}
	// which pointer fields are nil-tested anywhere
	tested := map[fkey]bool{}
	nilTestOf := func(cond ssa.Value) (fkey, bool, bool) { // field, trueMeansNil
		bo, ok := cond.(*ssa.BinOp)
		if !ok || (bo.Op != token.EQL && bo.Op != token.NEQ) {
			return fkey{}, false, false
		}
		x := bo.X
		if isNilConst(x) {
			x = bo.Y
		} else if !isNilConst(bo.Y) {
			return fkey{}, false, false
		}
		ld, ok := x.(*ssa.UnOp)
		if !ok || ld.Op != token.MUL {
			return fkey{}, false, false
		}
		if _, isPtr := ld.Type().Underlying().(*types.Pointer); !isPtr {
			return fkey{}, false, false
		}
		k, ok := fieldOf(ld.X)
		return k, bo.Op == token.EQL, ok
	}
	// ... and filled in lazily: the same function that tests the field also stores to it. (Fields
	// that one component tests defensively and another fills on construction — the AST's body
	// pointers — are an invariant between components this local rule cannot see; not claimed.)
	for _, fn := range c.W.Funcs {
		if isTestFunc(c.W, fn) {
			continue
		}
		testedHere, storedHere := map[fkey]bool{}, map[fkey]bool{}
		instrs(fn, func(in ssa.Instruction) {
			switch x := in.(type) {
			case *ssa.If:
				if k, _, ok := nilTestOf(x.Cond); ok {
					testedHere[k] = true
				}
			case *ssa.Store:
				if k, ok := fieldOf(x.Addr); ok {
					storedHere[k] = true
				}
			}
		})
		for k := range testedHere {
			// unexported fields only: the package alone decides when they are nil
			if storedHere[k] && !token.IsExported(k.name) {
				tested[k] = true
			}
		}
	}
	nDeref := 0
	exs := loadExemptions(verifDirGlobal)
	for _, fn := range c.W.Funcs {
		if isTestFunc(c.W, fn) || len(fn.Blocks) == 0 {
			continue
		}
		fk := c.W.FuncKey(fn)
		ord := map[fkey]int{}
		instrs(fn, func(in ssa.Instruction) {
			ld, ok := in.(*ssa.UnOp)
			if !ok || ld.Op != token.MUL || ld.Referrers() == nil {
				return
			}
			k, ok := fieldOf(ld.X)
			if !ok || !tested[k] {
				return
			}
			// dereferenced?
			var derefAt ssa.Instruction
			for _, r := range *ld.Referrers() {
				switch y := r.(type) {
				case *ssa.FieldAddr:
					if y.X == ssa.Value(ld) {
						derefAt = y
					}
				case *ssa.UnOp:
					if y.Op == token.MUL && y.X == ssa.Value(ld) {
						derefAt = y
					}
				case ssa.CallInstruction:
					// method call with pointer receiver that the callee dereferences: count calls of
					// repo methods on the value as dereferences
					if g := callee(y); g != nil && c.W.InRepo(g) && g.Signature.Recv() != nil && len(y.Common().Args) > 0 && y.Common().Args[0] == ssa.Value(ld) {
						derefAt = y.(ssa.Instruction)
					}
				}
			}
			if derefAt == nil {
				return
			}
			nDeref++
			ord[k]++
			var establishedAtCallers func(f *ssa.Function, depth int) bool
			var ensures func(g *ssa.Function, depth int) bool
			var establishes func(x ssa.Instruction) bool
			establishes = func(x ssa.Instruction) bool {
				// a call of a function of the package that leaves the field set on every return
				// (`p.ensureFontsLoaded()`)
				if ci, isCall := x.(ssa.CallInstruction); isCall {
					if g := callee(ci); g != nil && c.W.InRepo(g) && g != fn && ensures(g, 0) {
						return true
					}
					return false
				}
				st, ok := x.(*ssa.Store)
				if !ok {
					return false
				}
				k2, ok := fieldOf(st.Addr)
				if !ok || k2 != k {
					return false
				}
				switch v := st.Val.(type) {
				case *ssa.Alloc, *ssa.MakeInterface:
					return true
				case *ssa.Const:
					return !v.IsNil()
				}
				return false
			}
			edgeOK := func(b *ssa.BasicBlock, succ int) bool {
				if len(b.Instrs) == 0 {
					return true
				}
				ifi, ok := b.Instrs[len(b.Instrs)-1].(*ssa.If)
				if !ok {
					return true
				}
				k2, trueMeansNil, ok := nilTestOf(ifi.Cond)
				if !ok || k2 != k {
					return true
				}
				// follow only the edge on which the field is nil
				if trueMeansNil {
					return succ == 0
				}
				return succ == 1
			}
			ensureMemo := map[*ssa.Function]int{}
			ensures = func(g *ssa.Function, depth int) bool {
				if len(g.Blocks) == 0 || depth > 2 {
					return false
				}
				switch ensureMemo[g] {
				case 1:
					return true
				case 2:
					return false
				}
				ensureMemo[g] = 2
				// must touch the field at all
				touches := false
				instrs(g, func(in ssa.Instruction) {
					if st, ok := in.(*ssa.Store); ok {
						if k2, ok := fieldOf(st.Addr); ok && k2 == k {
							touches = true
						}
					}
				})
				if !touches {
					return false
				}
				_, open := existsPath(pathQuery{from: entry(g), avoid: func(x ssa.Instruction) bool {
					st, ok := x.(*ssa.Store)
					if !ok {
						return false
					}
					k2, ok := fieldOf(st.Addr)
					if !ok || k2 != k {
						return false
					}
					switch v := st.Val.(type) {
					case *ssa.Alloc, *ssa.MakeInterface:
						return true
					case *ssa.Const:
						return !v.IsNil()
					}
					return false
				}, edgeOK: edgeOK, exitIs: true})
				if !open {
					ensureMemo[g] = 1
				}
				return !open
			}
			// a helper that is only ever called once the field is set: judged at its call sites
			establishedAtCallers = func(f *ssa.Function, depth int) bool {
				sites := c.W.callsTo(f)
				if len(sites) == 0 || depth > 2 {
					return false
				}
				for _, site := range sites {
					g := site.Parent()
					if isTestFunc(c.W, g) {
						continue
					}
					si := site.(ssa.Instruction)
					if _, open := existsPath(pathQuery{from: entry(g), avoid: establishes, edgeOK: edgeOK, target: func(x ssa.Instruction) bool { return x == si }}); open {
						if !establishedAtCallers(g, depth+1) {
							return false
						}
					}
				}
				return true
			}
			_, reach := existsPath(pathQuery{from: entry(fn), avoid: establishes, edgeOK: edgeOK, target: func(x ssa.Instruction) bool { return x == derefAt }})
			if reach && token.IsExported(fn.Name()) == false && establishedAtCallers(fn, 0) {
				reach = false
			}
			key := fmt.Sprintf("%s/nil-deref[%s.%s]#%d", fk, k.owner.Obj().Name(), k.name, ord[k])
			if reach {
				for _, e := range exs {
					if e.Rule == "C18.j" && e.Function == fk && e.Match == k.owner.Obj().Name()+"."+k.name {
						c.OK(key, c.W.Pos(derefAt.Pos()), "reviewed exemption: "+e.Reason)
						return
					}
				}
			}
			c.Check(!reach, key, c.W.Pos(derefAt.Pos()), "the field is tested or set before it is dereferenced, on every path", fmt.Sprintf("%s.%s is initialised lazily (tested for nil and then filled in), but %s dereferences it on a path from its entry on which it was neither set to a non-nil value nor tested: a nil pointer dereference (crash) when it is still nil", k.owner.Obj().Name(), k.name, fn.Name()))
		})
	}
	c.OK("nil-tested-fields/scanned", "-", fmt.Sprintf("%d lazily initialised pointer fields; %d dereferences of them examined", len(tested), nDeref))
}
