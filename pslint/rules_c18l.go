package main

import (
	"regexp"
	"fmt"
	"go/token"
	"go/types"
	"sort"
	"strings"

	"golang.org/x/tools/go/ssa"
)

func init() {
	register(&Rule{ID: "C18.l", Doc: "no nil dereference across the components: a pointer or interface field of a syntax tree node that the emitter dereferences without testing it is set to a non-nil value at every place the parser builds such a node", Floor: 6, Run: c18l})
}

// c18l: the emitter trusts the parser. For every field F of an ast struct T whose value the emitter
// uses in a way that panics on nil (field access through it, method call on it) without a
// dominating "F != nil" on that path, every allocation of T in the parser that can be returned
// has F set — to an allocation, or to a call result that is returned only after its error was
// checked — when the node is complete.
var flagRe = regexp.MustCompile(`^\+[^ ]*\.([A-Z][A-Za-z]*)$`)

func c18l(c *Ctx) {
	type fkey struct{ typ, field string }
	type use struct {
		fn   *ssa.Function
		pos  token.Pos
		flag string // name of a boolean tree field known true at the site, if any
	}
	needs := map[fkey][]use{}
	nDeref := 0
	for _, fn := range c.W.FuncsOf("emitter") {
		if isTestFunc(c.W, fn) || len(fn.Blocks) == 0 {
			continue
		}
		instrs(fn, func(in ssa.Instruction) {
			ld, ok := in.(*ssa.UnOp)
			if !ok || ld.Op != token.MUL {
				return
			}
			fa, ok := ld.X.(*ssa.FieldAddr)
			if !ok {
				return
			}
			n := namedOf(deref(fa.X.Type()))
			if n == nil || n.Obj().Pkg() == nil || !strings.HasSuffix(n.Obj().Pkg().Path(), "/ast") {
				return
			}
			switch ld.Type().Underlying().(type) {
			case *types.Pointer, *types.Interface:
			default:
				return
			}
			if ld.Referrers() == nil {
				return
			}
			k := fkey{n.Obj().Name(), fieldName(fa.X.Type(), fa.Field)}
			for _, r := range *ld.Referrers() {
				panics := false
				switch y := r.(type) {
				case *ssa.FieldAddr:
					panics = y.X == ssa.Value(ld)
				case *ssa.UnOp:
					panics = y.Op == token.MUL && y.X == ssa.Value(ld)
				case ssa.CallInstruction:
					panics = y.Common().IsInvoke() && y.Common().Value == ssa.Value(ld)
					if !panics && len(y.Common().Args) > 0 && y.Common().Args[0] == ssa.Value(ld) && y.Common().Signature().Recv() != nil {
						// a method with pointer receiver: panics only if it dereferences; conservative
						panics = true
					}
				case *ssa.TypeAssert:
					panics = !y.CommaOk
				}
				if !panics {
					continue
				}
				nDeref++
				// guarded on this path?
				guarded := false
				t := c.term(fn, ld)
				for _, l := range c.mustLits(fn, r.Block()) {
					if l == "-("+t+" == nil)" || l == "+("+t+" != nil)" {
						guarded = true
					}
				}
				if !guarded {
					// a flag of a tree node that holds on this path (`case.IsDefault`): the deref
					// may be covered by what the parser does when it sets that flag
					flag := ""
					for _, l := range c.mustLits(fn, r.Block()) {
						if m := flagRe.FindStringSubmatch(l); m != nil {
							flag = m[1]
						}
					}
					if flag == "" {
						// in a helper that is handed the node: the flag holds at every call of the helper
						if _, isPar := fa.X.(*ssa.Parameter); isPar {
							calls := c.W.callsTo(fn)
							for i, ci := range calls {
								f2 := ""
								for _, l := range c.mustLits(ci.Parent(), ci.Block()) {
									if m := flagRe.FindStringSubmatch(l); m != nil {
										f2 = m[1]
									}
								}
								if i == 0 {
									flag = f2
								} else if f2 != flag {
									flag = ""
								}
							}
						}
					}
					needs[k] = append(needs[k], use{fn, r.Pos(), flag})
				}
			}
		})
	}
	var keys []fkey
	for k := range needs {
		keys = append(keys, k)
	}
	sort.Slice(keys, func(i, j int) bool { return keys[i].typ+keys[i].field < keys[j].typ+keys[j].field })
	for _, k := range keys {
		us := needs[k]
		where := c.W.Pos(us[0].pos)
		nSites := 0
		var unset []string
		for _, fn := range c.W.FuncsOf("parser") {
			if isTestFunc(c.W, fn) || len(fn.Blocks) == 0 {
				continue
			}
			for _, a := range allocsOf(fn, "ast", k.typ) {
				nSites++
				// can the node leave the function (be returned, stored, appended, passed on) on a
				// path on which the field was never given a non-nil value?
				isSetter := func(in ssa.Instruction) bool {
					st, ok := in.(*ssa.Store)
					if !ok {
						return false
					}
					fa, ok := st.Addr.(*ssa.FieldAddr)
					if !ok || fa.X != ssa.Value(a) || fieldName(fa.X.Type(), fa.Field) != k.field {
						return false
					}
					return !isNilConst(st.Val)
				}
				var w ssa.Instruction
				found := false
				var escapes []ssa.Instruction
				for _, r := range *a.Referrers() {
					switch y := r.(type) {
					case *ssa.FieldAddr, *ssa.DebugRef:
					case *ssa.Return:
						if isSuccessReturn(y) {
							escapes = append(escapes, y)
						}
					case *ssa.Store:
						if y.Val == ssa.Value(a) {
							escapes = append(escapes, y)
						}
					case *ssa.Phi:
						// merged with other nodes before leaving: follow to the phi's returns
						if y.Referrers() != nil {
							for _, r2 := range *y.Referrers() {
								if ret, isRet := r2.(*ssa.Return); isRet && isSuccessReturn(ret) {
									escapes = append(escapes, ret)
								}
							}
						}
					case *ssa.MakeInterface:
						// as a Statement / Expression: where that value is returned or stored (being
						// handed to a call — the scope stacks — is not leaving the function for good)
						if y.Referrers() != nil {
							for _, r2 := range *y.Referrers() {
								switch z := r2.(type) {
								case *ssa.Return:
									if isSuccessReturn(z) {
										escapes = append(escapes, z)
									}
								case *ssa.Store:
									if z.Val == ssa.Value(y) {
										escapes = append(escapes, z)
									}
								case *ssa.Phi:
									if z.Referrers() != nil {
										for _, r3 := range *z.Referrers() {
											if ret, isRet := r3.(*ssa.Return); isRet && isSuccessReturn(ret) {
												escapes = append(escapes, ret)
											}
										}
									}
								}
							}
						}
					case *ssa.MapUpdate:
						escapes = append(escapes, y)
					case ssa.CallInstruction:
						// handed to a helper that may keep it: not followed (the helpers of the parser
						// that take nodes are the scope stacks and read-only predicates)
					default:
						escapes = append(escapes, r)
					}
				}
				for _, e := range escapes {
					e := e
					if wi, f := existsPath(pathQuery{from: after(a), avoid: isSetter, edgeOK: notErrorEdge, target: func(in ssa.Instruction) bool { return in == e }}); f {
						w, found = wi, true
					}
				}
				if found {
					unset = append(unset, fmt.Sprintf("%s builds one at %s and can return at %s without having set it", fn.Name(), c.W.Pos(a.Pos()), c.W.Pos(w.Pos())))
				}
			}
		}
		key := fmt.Sprintf("set-where-built/%s.%s", k.typ, k.field)
		if nSites == 0 {
			c.Unk(key, where, "the emitter dereferences "+k.typ+"."+k.field+" but no place where the parser builds a "+k.typ+" was found")
			continue
		}
		if len(unset) > 0 {
			// the field is optional. Then every untested dereference must stand under a flag of the
			// tree (`IsDefault`), and the parser sets the field whenever it builds a node with that
			// flag raised: from the place the flag is stored as true, every way on to the next
			// turn of the loop or to a successful return sets the field.
			flag := us[0].flag
			for _, u := range us {
				if u.flag != flag {
					flag = ""
				}
			}
			paired := flag != ""
			nFlag := 0
			why := ""
			if paired {
				for _, fn := range c.W.FuncsOf("parser") {
					if isTestFunc(c.W, fn) || len(fn.Blocks) == 0 {
						continue
					}
					isSetterAny := func(in ssa.Instruction) bool {
						st, ok := in.(*ssa.Store)
						if !ok {
							return false
						}
						fa, ok := st.Addr.(*ssa.FieldAddr)
						if !ok || fieldName(fa.X.Type(), fa.Field) != k.field || !typeIs(fa.X.Type(), "ast", k.typ) {
							return false
						}
						return !isNilConst(st.Val)
					}
					instrs(fn, func(in ssa.Instruction) {
						st, ok := in.(*ssa.Store)
						if !ok {
							return
						}
						fa, ok := st.Addr.(*ssa.FieldAddr)
						if !ok || fieldName(fa.X.Type(), fa.Field) != flag {
							return
						}
						if n := namedOf(deref(fa.X.Type())); n == nil || n.Obj().Pkg() == nil || !strings.HasSuffix(n.Obj().Pkg().Path(), "/ast") {
							return
						}
						if kc, isC := st.Val.(*ssa.Const); isC && kc.Value != nil && kc.Value.String() == "false" {
							return
						}
						nFlag++
						heads := loopHeaders(fn)
						h := heads[st.Block()]
						if w, f := existsPath(pathQuery{from: after(st), avoid: isSetterAny, edgeOK: notErrorEdge, target: func(x ssa.Instruction) bool {
							if r, isRet := x.(*ssa.Return); isRet {
								return isSuccessReturn(r)
							}
							return h != nil && x.Block() == h && x == h.Instrs[0]
						}}); f {
							paired = false
							why = fmt.Sprintf("%s raises %s at %s and can go on to %s without setting %s.%s", fn.Name(), flag, c.W.Pos(st.Pos()), c.nearPos(w), k.typ, k.field)
						}
					})
				}
				if nFlag == 0 {
					paired = false
					why = "no place where the parser raises " + flag + " was found"
				}
			} else {
				why = "the untested dereferences do not stand under one flag of the tree"
			}
			c.Check(paired, key, where, fmt.Sprintf("%s.%s is optional; the emitter dereferences it only under %s, and wherever the parser raises %s (%d places) it sets %s.%s before the turn ends", k.typ, k.field, flag, flag, nFlag, k.typ, k.field), fmt.Sprintf("the emitter dereferences %s.%s at %s without testing it, the parser can leave it nil (%v), and the pairing with a flag does not hold: %s — that input makes the compiler panic", k.typ, k.field, where, unset, why))
			continue
		}
		c.Check(len(unset) == 0, key, where, fmt.Sprintf("%s.%s (dereferenced untested by %s and %d other places) is set at all %d places the parser builds the node", k.typ, k.field, us[0].fn.Name(), len(us)-1, nSites), fmt.Sprintf("the emitter dereferences %s.%s at %s without testing it, but the parser can leave it nil: %v — that input makes the compiler panic", k.typ, k.field, where, unset))
	}
	c.Check(nDeref >= 10, "derefs", "-", fmt.Sprintf("%d dereferences of tree pointer fields in the emitter examined, %d fields relied on untested", nDeref, len(keys)), fmt.Sprintf("only %d dereferences of tree pointer fields found in the emitter", nDeref))
}
