package main

func init() {
	property("C01",
		"Static conformance of the lowering code to the chunk scheme (DESIGN §4 C01): exhaustive statement dispatch, statement conservation at every finalisation, fresh unique chunk ids, every chunk enqueued/finalised exactly once, return-point threading templates of every constructor (value-origin terms), the branch protocol of the five renderers, the end/return early exit, and the parsers of if / while / do-while keeping every branch and body they parse (C01.h). These are the induction hypotheses of the paper scheme argument; behavioural equivalence itself is not decided. Also: every per-element chunk is made in every iteration (C01.d), the entry chunk holds the whole body (C01.b), a break destination is only stored in a descriptor that is rendered with a -1 test (C04.c), running off a branch writes return (C01.f), conditions are required outside while (C01.e), Emit is total (C10.f).",
		[]string{"scheme argument of DESIGN §4 C01 (paper, not machine-checked)", "a rendered switch chunk is never the last chunk of either order (exemption for switchBranch.destChunkID)", "go/ssa lowering is faithful to the source"},
		"C01.a", "C01.b", "C01.c", "C01.d", "C01.e", "C01.f", "C01.g", "C01.h", "C02.i", "C10.e", "C20.a", "C02.g", "C05.a", "C02.d", "C10.f", "C04.c", "C20.b", "C08.e", "C10.g", "C18.m", "C19.d", "C18.d", "C18.n")
}
