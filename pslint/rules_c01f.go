package main

// C01.f — branch protocol of the five renderers (shared with C04.e and C05.b).

import (
	"fmt"
	"strings"

	"golang.org/x/tools/go/ssa"
)

type protoSite struct {
	fn       string
	mode     []string // literals selecting this mode ("+lit"/"-lit"), canonical
	dest     string   // canonical term of the tail destination
	mayLeave bool     // destination can be -1 ("leave the script")
	next     string   // canonical term of nextChunkID parameter
	script   string   // canonical term of scriptName parameter
	exemptAB bool     // dest==-1 && dest==next cannot occur for this site (reason in exemptions)
	label    string
}

var protoSites = []protoSite{
	{fn: "emitter.jump.renderBranchConditions", dest: "$0.destChunkID", next: "$3", script: "$2", label: "jump"},
	{fn: "emitter.breakContext.renderBranchConditions", dest: "$0.destChunkID", mayLeave: true, next: "$3", script: "$2", label: "breakContext"},
	{fn: "emitter.leafExpressionBranch.renderBranchConditions", dest: "$0.falseyReturnID", mayLeave: true, next: "$3", script: "$2", label: "leaf"},
	{fn: "emitter.switchBranch.renderBranchConditions", mode: []string{"-($0.defaultCase == nil)"}, dest: "$0.defaultCase.destChunkID", next: "$3", script: "$2", label: "switch(default)"},
	{fn: "emitter.switchBranch.renderBranchConditions", mode: []string{"+($0.defaultCase == nil)"}, dest: "$0.destChunkID", mayLeave: true, next: "$3", script: "$2", exemptAB: true, label: "switch(no default)"},
	{fn: "emitter.chunk.renderBranching", mode: []string{"+($0.branchBehavior == nil)"}, dest: "$0.returnID", mayLeave: true, next: "$3", script: "$1", label: "chunk(no brancher)"},
}

// restrict keeps the conjuncts of d compatible with the mode literals and drops those literals.
func restrict(d dnf, mode []string) dnf {
	if d.unknown {
		return d
	}
	out := dnf{}
	for _, cj := range d.cs {
		ok := true
		var rest conj
		for _, l := range cj {
			drop := false
			for _, m := range mode {
				if l == negLit(m) {
					ok = false
				}
				if l == m {
					drop = true
				}
			}
			if !drop {
				rest = append(rest, l)
			}
		}
		if ok {
			out.cs = append(out.cs, rest)
		}
	}
	out.cs = simplify(out.cs)
	return out
}

func orDNF(ds ...dnf) dnf {
	out := dnf{}
	for _, d := range ds {
		if d.unknown {
			return dnf{unknown: true}
		}
		out.cs = append(out.cs, d.cs...)
	}
	out.cs = simplify(out.cs)
	return out
}

func c01f(c *Ctx) {
	// closed world: every type that can sit in a chunk's branchBehavior — every type of package
	// emitter with a renderBranchConditions method — is one of the renderers judged below (a new
	// kind of branch would otherwise be rendered by a protocol nobody looked at)
	{
		judged := map[string]bool{}
		for _, s := range protoSites {
			judged[s.fn] = true
		}
		n := 0
		for _, fn := range c.W.FuncsOf("emitter") {
			if fn.Name() != "renderBranchConditions" || fn.Signature.Recv() == nil || isTestFunc(c.W, fn) {
				continue
			}
			n++
			named := namedOf(deref(fn.Signature.Recv().Type()))
			if named == nil {
				continue
			}
			anchor := "emitter." + named.Obj().Name() + ".renderBranchConditions"
			c.Check(judged[anchor], "brancher-judged/"+named.Obj().Name(), c.W.FuncPos(fn), "this branch renderer is one of those whose protocol is checked", "type "+named.Obj().Name()+" renders a branch (it has a renderBranchConditions method) but is none of the renderers whose goto / fall-through / terminator protocol is checked: what it writes is unknown to every rule")
		}
		c.Check(n >= 4, "brancher-judged/census", "-", fmt.Sprintf("%d branch renderers", n), fmt.Sprintf("expected at least 4 renderBranchConditions methods, found %d", n))
	}
	for _, s := range protoSites {
		fn := c.Fn(s.fn)
		if fn == nil {
			continue
		}
		a := "(" + s.dest + " == -1)"
		b := "(" + s.dest + " == " + s.next + ")"
		// normalise the order of the == operands the way terms.go does
		bAlt := "(" + s.next + " == " + s.dest + ")"
		var gotoD, termD, trueD, falseD []dnf
		key := "proto/" + s.label
		for _, ws := range c.sitesOf(fn) {
			blk := restrict(ws.cond, s.mode)
			if len(blk.cs) == 0 && !blk.unknown {
				continue // not reachable in this mode
			}
			switch {
			case ws.isFmt && ws.format == "\tgoto %s_%d\n":
				if len(ws.argT) == 2 && ws.argT[1] == s.dest {
					c.Check(ws.argT[0] == s.script, key+"/goto-prefix", c.W.Pos(ws.call.Pos()), "goto label is <script>_<dest>", "goto label prefix is "+ws.argT[0]+", expected the script name parameter")
					gotoD = append(gotoD, blk)
				} else if len(ws.argT) == 2 {
					// a goto to anything but this branch's own destination
					c.Bad(key+"/goto-elsewhere["+pretty(ws.argT[1])+"]", c.W.Pos(ws.call.Pos()), "the renderer writes a goto to "+pretty(ws.argT[1])+", which is not the destination of this branch ("+pretty(s.dest)+"): control would leave the chunk for a place the lowering did not choose")
				}
			case len(ws.argT) == 0 && ws.format == "\treturn\n":
				termD = append(termD, blk)
			case len(ws.argT) == 0 && ws.format == "\tend\n" && !strings.Contains(s.fn, "renderBranchConditions"):
				termD = append(termD, blk) // the chunk's own end/return command (C01.g)
			case len(ws.argT) == 0 && ws.format == "\tend\n":
				// running off the end of a branch leaves the script the way running off the end of
				// its body does: with 'return' (a script entered by 'call' goes back to its caller);
				// 'end' is only ever written for an 'end' command the author wrote (C01.g)
				termD = append(termD, blk)
				c.Bad(key+"/terminator-word", c.W.Pos(ws.call.Pos()), "the branch renderer leaves the script with 'end': a destination of 'leave' is the implicit end of the script body, which is 'return' (a script that was entered by call must go back to its caller)")
			case ws.isFmt && ws.format == "\t%s\n" && len(ws.argT) == 1 && strings.Contains(ws.argT[0], "getTerminatorCommand"):
				termD = append(termD, blk)
			}
		}
		for _, r := range c.flatReturns(fn) {
			blk := restrict(r.cond, s.mode)
			if len(blk.cs) == 0 && !blk.unknown {
				continue
			}
			switch r.terms[0] {
			case "true":
				trueD = append(trueD, blk)
			case "false":
				falseD = append(falseD, blk)
			default:
				// pass-through of another renderer's verdict (chunk.renderBranching with a brancher)
			}
		}
		fix := func(d dnf) dnf { // unify the spelling of atom b
			out := dnf{unknown: d.unknown}
			for _, cj := range d.cs {
				var n conj
				for _, l := range cj {
					if l[1:] == bAlt {
						l = l[:1] + b
					}
					n = append(n, l)
				}
				out.cs = append(out.cs, n)
			}
			out.cs = simplify(out.cs)
			return out
		}
		gotoC, termC, trueC, falseC := fix(orDNF(gotoD...)), fix(orDNF(termD...)), fix(orDNF(trueD...)), fix(orDNF(falseD...))
		var wGoto, wTerm, wTrue, wFalse dnf
		if s.mayLeave {
			wGoto = mkDNF([]string{"-" + a, "-" + b})
			wTerm = mkDNF([]string{"+" + a})
			wTrue = mkDNF([]string{"-" + a, "+" + b})
			wFalse = mkDNF([]string{"+" + a}, []string{"-" + b})
		} else {
			wGoto = mkDNF([]string{"-" + b})
			wTerm = dnf{}
			wTrue = mkDNF([]string{"+" + b})
			wFalse = mkDNF([]string{"-" + b})
		}
		eq := func(got, want dnf) bool {
			if s.exemptAB {
				// compare under the assumption !(a && b)
				assume := mkDNF([]string{"-" + a}, []string{"-" + b})
				return dnfEquiv(andDNF(got, assume), andDNF(want, assume))
			}
			return dnfEquiv(got, want)
		}
		pos := c.W.FuncPos(fn)
		c.Check(eq(gotoC, wGoto), key+"/goto-iff", pos, "goto <dest> written exactly when dest is neither the next chunk nor 'leave'", fmt.Sprintf("goto %s is written under [%s], expected [%s]", s.dest, gotoC, wGoto))
		if s.mayLeave {
			c.Check(eq(termC, wTerm), key+"/terminator-iff", pos, "terminator written exactly when dest is 'leave' (-1), whatever the next chunk is", fmt.Sprintf("the terminator is written under [%s], expected [%s] — a chunk whose destination is 'leave' must end the script even when it is rendered last (nextChunkID is -1 there too)", termC, wTerm))
		} else {
			c.Check(len(termC.cs) == 0, key+"/no-terminator", pos, "no terminator for a destination that is always a chunk", "a terminator is written for a destination that is never 'leave'")
		}
		c.Check(eq(trueC, wTrue), key+"/fallthrough-iff", pos, "falls through exactly when dest is the next chunk", fmt.Sprintf("fall-through (return true) happens under [%s], expected [%s]", trueC, wTrue))
		c.Check(eq(falseC, wFalse), key+"/no-fallthrough-iff", pos, "reports no fall-through otherwise", fmt.Sprintf("return false happens under [%s], expected [%s]", falseC, wFalse))
		if s.exemptAB {
			c.Note("%s: compared under the assumption that dest == -1 and nextChunkID == -1 do not coincide (exemptions.json: a rendered switch chunk is never last in either order)", s.label)
		}
	}
	// chunk.renderBranching with a brancher: passes the brancher's verdict through, same arguments
	if fn := c.Fn("emitter.chunk.renderBranching"); fn != nil {
		ok := false
		for _, ci := range callsIn(fn) {
			cm := ci.Common()
			if !cm.IsInvoke() || cm.Method.Name() != "renderBranchConditions" {
				continue
			}
			must := c.mustLits(fn, ci.Block())
			args := []string{}
			for _, a := range cm.Args {
				args = append(args, c.term(fn, a))
			}
			want := []string{"$2", "$1", "$3", "$4", "$5", "$6"}
			same := len(args) == len(want)
			for i := range want {
				if same && args[i] != want[i] {
					same = false
				}
			}
			returned := false
			for _, r := range returnsOf(fn) {
				if r.Results[0] == ci.(ssa.Value) {
					returned = true
				}
			}
			if hasLit(must, "-($0.branchBehavior == nil)") && c.term(fn, cm.Value) == "$0.branchBehavior" && same && returned {
				ok = true
			}
		}
		c.Check(ok, "proto/chunk(brancher)/delegates", c.W.FuncPos(fn), "with a brancher the chunk delegates (same builder, script, next id, register) and returns its verdict", "chunk.renderBranching does not delegate to its brancher with (sb, scriptName, nextChunkID, registerJumpChunk, ...) and return its verdict")
	}
}

func andDNF(a, b dnf) dnf {
	if a.unknown || b.unknown {
		return dnf{unknown: true}
	}
	out := dnf{}
	for _, x := range a.cs {
		for _, y := range b.cs {
			cj := x
			ok := true
			for _, l := range y {
				var ok2 bool
				cj, ok2 = conjAdd(cj, l)
				if !ok2 {
					ok = false
					break
				}
			}
			if ok {
				out.cs = append(out.cs, cj)
			}
		}
	}
	out.cs = simplify(out.cs)
	return out
}
