package main

// Small SSA helpers shared by the rules: call enumeration with resolved callees,
// constants, instruction-level dominance and "exists a path avoiding" search (K-DOM).

import (
	"go/constant"
	"go/token"
	"go/types"
	"sort"
	"strings"

	"golang.org/x/tools/go/ssa"
)

func constStr(v constant.Value) (string, bool) {
	if v == nil || v.Kind() != constant.String {
		return "", false
	}
	return constant.StringVal(v), true
}

// strConst returns the string value of an SSA constant (also through conversions).
func strConst(v ssa.Value) (string, bool) {
	for {
		switch x := v.(type) {
		case *ssa.Const:
			return constStr(x.Value)
		case *ssa.ChangeType:
			v = x.X
		case *ssa.Convert:
			v = x.X
		case *ssa.MakeInterface:
			v = x.X
		default:
			return "", false
		}
	}
}

func intConst(v ssa.Value) (int64, bool) {
	c, ok := v.(*ssa.Const)
	if !ok || c.Value == nil || c.Value.Kind() != constant.Int {
		return 0, false
	}
	n, ok := constant.Int64Val(c.Value)
	return n, ok
}

// callee returns the statically resolved callee of a call instruction (nil for
// dynamic calls); closures called directly are resolved too.
func callee(ci ssa.CallInstruction) *ssa.Function {
	return ci.Common().StaticCallee()
}

// calleeName is pkgpath.Name or pkgpath.(T).Name for resolved callees, "" otherwise.
func calleeName(ci ssa.CallInstruction) string {
	if f := callee(ci); f != nil {
		return fullName(f)
	}
	c := ci.Common()
	if c.IsInvoke() {
		return "invoke:" + c.Method.FullName()
	}
	if b, ok := c.Value.(*ssa.Builtin); ok {
		return "builtin:" + b.Name()
	}
	return ""
}

func fullName(f *ssa.Function) string {
	if f == nil {
		return ""
	}
	if f.Object() != nil {
		if fn, ok := f.Object().(*types.Func); ok {
			return fn.FullName()
		}
	}
	return f.String()
}

// instrs iterates over all instructions of fn in block order.
func instrs(fn *ssa.Function, f func(ssa.Instruction)) {
	for _, b := range fn.Blocks {
		for _, in := range b.Instrs {
			f(in)
		}
	}
}

// callsIn lists call instructions (call, go, defer) in fn, in block/instruction order.
func callsIn(fn *ssa.Function) []ssa.CallInstruction {
	var out []ssa.CallInstruction
	instrs(fn, func(in ssa.Instruction) {
		if ci, ok := in.(ssa.CallInstruction); ok {
			out = append(out, ci)
		}
	})
	return out
}

// callsTo lists, over all repo functions, the call sites whose resolved callee is target.
func (w *World) callsTo(target *ssa.Function) []ssa.CallInstruction {
	var out []ssa.CallInstruction
	for _, fn := range w.Funcs {
		for _, ci := range callsIn(fn) {
			if callee(ci) == target {
				out = append(out, ci)
			}
		}
	}
	return out
}

// callsToIn lists call sites in fn whose resolved callee is target.
func callsToIn(fn, target *ssa.Function) []ssa.CallInstruction {
	var out []ssa.CallInstruction
	for _, ci := range callsIn(fn) {
		if callee(ci) == target {
			out = append(out, ci)
		}
	}
	return out
}

// callsNamed lists call sites in fn whose callee full name equals name (e.g. "fmt.Sprintf",
// "(*strings.Builder).WriteString").
func callsNamed(fn *ssa.Function, name string) []ssa.CallInstruction {
	var out []ssa.CallInstruction
	for _, ci := range callsIn(fn) {
		if calleeName(ci) == name {
			out = append(out, ci)
		}
	}
	return out
}

func idxInBlock(in ssa.Instruction) int {
	for i, x := range in.Block().Instrs {
		if x == in {
			return i
		}
	}
	return -1
}

// instrDominates: a is executed before b on every path from entry to b.
func instrDominates(a, b ssa.Instruction) bool {
	if a.Block() == b.Block() {
		return idxInBlock(a) < idxInBlock(b)
	}
	return a.Block().Dominates(b.Block())
}

// sortByPos orders instructions by source position (stable for NoPos by block index).
func sortByPos(xs []ssa.Instruction) {
	sort.SliceStable(xs, func(i, j int) bool {
		pi, pj := xs[i].Pos(), xs[j].Pos()
		if pi != pj {
			return pi < pj
		}
		if xs[i].Block().Index != xs[j].Block().Index {
			return xs[i].Block().Index < xs[j].Block().Index
		}
		return idxInBlock(xs[i]) < idxInBlock(xs[j])
	})
}

// point is a position inside a function: before instruction idx of block b.
type point struct {
	b   *ssa.BasicBlock
	idx int
}

func after(in ssa.Instruction) point  { return point{in.Block(), idxInBlock(in) + 1} }
func before(in ssa.Instruction) point { return point{in.Block(), idxInBlock(in)} }
func entry(fn *ssa.Function) point    { return point{fn.Blocks[0], 0} }

// pathQuery describes "is there an execution path from `from` that reaches an
// instruction satisfying target without first executing an instruction satisfying
// avoid". edgeOK can prune successor edges (e.g. error edges, infeasible arms).
// reachExit: function exits (Return / Panic) count as targets.
type pathQuery struct {
	from    point
	target  func(ssa.Instruction) bool
	avoid   func(ssa.Instruction) bool
	edgeOK  func(from *ssa.BasicBlock, succ int) bool
	exitIs  bool                       // a Return counts as target
	panicIs bool                       // a Panic counts as target (default: panics end the path silently)
	stopAt  func(ssa.Instruction) bool // path ends silently here (neither found nor continued)
}

// existsPath runs the query; when found it returns the witness instruction. Conditions
// that are phis of boolean constants defined in the block of the If are resolved by the
// edge the walk came in on (flag variables such as `shouldContinue`).
func existsPath(q pathQuery) (ssa.Instruction, bool) {
	type key struct {
		b, pred *ssa.BasicBlock
	}
	seen := map[key]bool{}
	var walk func(b *ssa.BasicBlock, idx int, pred *ssa.BasicBlock) (ssa.Instruction, bool)
	walk = func(b *ssa.BasicBlock, idx int, pred *ssa.BasicBlock) (ssa.Instruction, bool) {
		for i := idx; i < len(b.Instrs); i++ {
			in := b.Instrs[i]
			if q.target != nil && q.target(in) {
				return in, true
			}
			if q.avoid != nil && q.avoid(in) {
				return nil, false
			}
			if q.stopAt != nil && q.stopAt(in) {
				return nil, false
			}
			switch in.(type) {
			case *ssa.Return:
				if q.exitIs {
					return in, true
				}
				return nil, false
			case *ssa.Panic:
				if q.panicIs {
					return in, true
				}
				return nil, false
			}
		}
		only := -1
		if pred != nil && len(b.Instrs) > 0 {
			if ifi, ok := b.Instrs[len(b.Instrs)-1].(*ssa.If); ok {
				// `err != nil` / `err == nil` on an error merged in this block: decided by the edge we came in on
				if bo, ok := ifi.Cond.(*ssa.BinOp); ok && (bo.Op == token.NEQ || bo.Op == token.EQL) && (isNilConst(bo.X) || isNilConst(bo.Y)) {
					v := bo.X
					if isNilConst(v) {
						v = bo.Y
					}
					if ph, ok := v.(*ssa.Phi); ok && ph.Block() == b && isErrorType(ph.Type()) {
						for pi, p := range b.Preds {
							if p != pred {
								continue
							}
							nonNil := -1
							switch e := ph.Edges[pi].(type) {
							case *ssa.Const:
								if e.Value == nil {
									nonNil = 0
								}
							case *ssa.Call:
								if isErrorCtorCall(e) {
									nonNil = 1
								}
							case *ssa.MakeInterface:
								nonNil = 1
							}
							if nonNil >= 0 {
								isNeq := bo.Op == token.NEQ
								if (nonNil == 1) == isNeq {
									only = 0
								} else {
									only = 1
								}
							}
						}
					}
				}
				if ph, ok := ifi.Cond.(*ssa.Phi); ok && ph.Block() == b {
					for pi, p := range b.Preds {
						if p == pred {
							if cst, ok := ph.Edges[pi].(*ssa.Const); ok && cst.Value != nil {
								if cst.Value.String() == "true" {
									only = 0
								} else if cst.Value.String() == "false" {
									only = 1
								}
							}
						}
					}
				}
			}
		}
		for si, s := range b.Succs {
			if only >= 0 && si != only {
				continue
			}
			if q.edgeOK != nil && !q.edgeOK(b, si) {
				continue
			}
			k := key{s, b}
			if seen[k] {
				continue
			}
			seen[k] = true
			if in, ok := walk(s, 0, b); ok {
				return in, true
			}
		}
		return nil, false
	}
	return walk(q.from.b, q.from.idx, nil)
}

// isErrNilTest recognises `err != nil` / `err == nil` conditions on values of type error
// and reports (value, trueMeansError).
func isErrNilTest(cond ssa.Value) (ssa.Value, bool, bool) {
	bo, ok := cond.(*ssa.BinOp)
	if !ok || (bo.Op != token.NEQ && bo.Op != token.EQL) {
		return nil, false, false
	}
	x, y := bo.X, bo.Y
	if isNilConst(x) {
		x, y = y, x
	}
	if !isNilConst(y) {
		return nil, false, false
	}
	if !isErrorType(x.Type()) {
		return nil, false, false
	}
	return x, bo.Op == token.NEQ, true
}

func isNilConst(v ssa.Value) bool {
	c, ok := v.(*ssa.Const)
	return ok && c.Value == nil
}

func isErrorType(t types.Type) bool {
	return types.Identical(t, types.Universe.Lookup("error").Type())
}

// notErrorEdge prunes the edge taken when an error value is non-nil (so that
// path queries only follow non-error paths).
func notErrorEdge(b *ssa.BasicBlock, succ int) bool {
	if len(b.Instrs) == 0 {
		return true
	}
	ifi, ok := b.Instrs[len(b.Instrs)-1].(*ssa.If)
	if !ok {
		return true
	}
	_, trueMeansErr, ok := isErrNilTest(ifi.Cond)
	if !ok {
		return true
	}
	if trueMeansErr {
		return succ != 0
	}
	return succ != 1
}

// deref strips pointers.
func deref(t types.Type) types.Type {
	if p, ok := t.Underlying().(*types.Pointer); ok {
		return p.Elem()
	}
	return t
}

// namedOf returns the named type behind t (through one pointer), or nil.
func namedOf(t types.Type) *types.Named {
	n, _ := deref(t).(*types.Named)
	return n
}

// typeIs reports whether t (possibly a pointer to it) is the named type pkgSuffix.Name.
func typeIs(t types.Type, pkgSuffix, name string) bool {
	n := namedOf(t)
	if n == nil || n.Obj() == nil || n.Obj().Name() != name {
		return false
	}
	if n.Obj().Pkg() == nil {
		return pkgSuffix == ""
	}
	p := n.Obj().Pkg().Path()
	return p == pkgSuffix || strings.HasSuffix(p, "/"+pkgSuffix)
}

// canonFields: the unexported structs the rules talk about, with the field names used in
// the rules (the names at the pinned commit) and their types. fieldName maps the fields of
// the analysed tree onto these names — by equal name first, then by type (in declaration
// order among fields of the same type) — so that renaming an unexported field, or
// reordering fields, does not change any term.
var canonFields = map[string][][2]string{
	"emitter.chunk":                {{"id", "int"}, {"returnID", "int"}, {"useEndTerminator", "bool"}, {"statements", "[]ast.Statement"}, {"branchBehavior", "emitter.brancher"}},
	"emitter.conditionDestination": {{"id", "int"}, {"operatorExpression", "*ast.OperatorExpression"}},
	"emitter.jump":                 {{"destChunkID", "int"}},
	"emitter.breakContext":         {{"destChunkID", "int"}},
	"emitter.leafExpressionBranch": {{"truthyDest", "*emitter.conditionDestination"}, {"falseyReturnID", "int"}, {"preambleStatement", "*ast.CommandStatement"}},
	"emitter.switchCaseBranch":     {{"comparisonValue", "token.Token"}, {"destChunkID", "int"}},
	"emitter.switchBranch":         {{"operand", "token.Token"}, {"cases", "[]*emitter.switchCaseBranch"}, {"defaultCase", "*emitter.switchCaseBranch"}, {"destChunkID", "int"}},
	"emitter.Emitter":              {{"program", "*ast.Program"}, {"optimize", "bool"}, {"enableLineMarkers", "bool"}, {"inputFilepath", "string"}},
	"parser.impMovement":           {{"command", "*ast.CommandStatement"}, {"argPos", "int"}, {"movements", "[]token.Token"}, {"scriptName", "string"}},
	"parser.impText":               {{"command", "*ast.CommandStatement"}, {"argPos", "int"}, {"text", "token.Token"}, {"stringType", "string"}, {"scriptName", "string"}},
	"parser.impData":               {{"texts", "[]parser.impText"}, {"movements", "[]parser.impMovement"}},
	"parser.textKey":               {{"value", "string"}, {"strType", "string"}},
	"parser.Parser": {{"l", "*lexer.Lexer"}, {"curToken", "token.Token"}, {"peekToken", "token.Token"}, {"peek2Token", "token.Token"}, {"peek3Token", "token.Token"}, {"peek4Token", "token.Token"},
		{"implicitData", "parser.impData"}, {"inlineTexts", "[]ast.Text"}, {"inlineTextsSet", "map[parser.textKey]string"}, {"inlineTextCounts", "map[string]int"},
		{"inlineMovements", "[]*ast.MovementStatement"}, {"inlineMovementsSet", "map[string]string"}, {"inlineMovementCounts", "map[string]int"}, {"textStatements", "[]*ast.TextStatement"},
		{"breakStack", "[]ast.Statement"}, {"continueStack", "[]ast.Statement"}, {"commandConfig", "parser.CommandConfig"}, {"fontConfigFilepath", "string"}, {"defaultFontID", "string"},
		{"fonts", "*parser.FontConfig"}, {"maxLineLength", "int"}, {"compileSwitches", "map[string]string"}, {"constants", "map[string]string"}, {"enableEnvironmentErrors", "bool"}},
	"lexer.Lexer": {{"input", "string"}, {"position", "int"}, {"readPosition", "int"}, {"ch", "rune"}, {"lineNumber", "int"}, {"prevCharNumber", "int"}, {"charNumber", "int"},
		{"prevUtf8CharNumber", "int"}, {"utf8CharNumber", "int"}, {"queuedTokens", "[]token.Token"}},
}

var canonCache = map[*types.Struct][]string{}

func canonNames(n *types.Named, st *types.Struct) []string {
	if c, ok := canonCache[st]; ok {
		return c
	}
	out := make([]string, st.NumFields())
	for i := range out {
		out[i] = st.Field(i).Name()
	}
	key := ""
	if n != nil && n.Obj() != nil && n.Obj().Pkg() != nil {
		key = n.Obj().Pkg().Name() + "." + n.Obj().Name()
	}
	canon, ok := canonFields[key]
	if ok {
		usedCanon := make([]bool, len(canon))
		mapped := make([]bool, len(out))
		// 1. equal names
		for i := range out {
			for j, cf := range canon {
				if !usedCanon[j] && cf[0] == out[i] {
					usedCanon[j], mapped[i] = true, true
					break
				}
			}
		}
		// 2. by type, in declaration order among the remaining fields of that type
		for i := range out {
			if mapped[i] {
				continue
			}
			ts := shortType(st.Field(i).Type())
			for j, cf := range canon {
				if !usedCanon[j] && cf[1] == ts {
					out[i] = cf[0]
					usedCanon[j], mapped[i] = true, true
					break
				}
			}
		}
	}
	canonCache[st] = out
	return out
}

// fieldName returns the (canonical) name of field i of the struct behind t.
func fieldName(t types.Type, i int) string {
	st, ok := deref(t).Underlying().(*types.Struct)
	if !ok || i >= st.NumFields() {
		return "?"
	}
	return canonNames(namedOf(t), st)[i]
}

// fieldAddrOf: if v is &x.f return (x, structType, fieldName).
func fieldAddrOf(v ssa.Value) (ssa.Value, types.Type, string, bool) {
	fa, ok := v.(*ssa.FieldAddr)
	if !ok {
		return nil, nil, "", false
	}
	return fa.X, deref(fa.X.Type()), fieldName(fa.X.Type(), fa.Field), true
}

// storesToField lists the Store instructions in fn that write field `field` of struct type
// (pkgSuffix.typeName).
func storesToField(fn *ssa.Function, pkgSuffix, typeName, field string) []*ssa.Store {
	var out []*ssa.Store
	instrs(fn, func(in ssa.Instruction) {
		st, ok := in.(*ssa.Store)
		if !ok {
			return
		}
		_, t, f, ok := fieldAddrOf(st.Addr)
		if ok && f == field && typeIs(t, pkgSuffix, typeName) {
			out = append(out, st)
		}
	})
	return out
}

// allocsOf lists the allocations in fn of struct type pkgSuffix.typeName, in source order.
func allocsOf(fn *ssa.Function, pkgSuffix, typeName string) []*ssa.Alloc {
	var out []*ssa.Alloc
	instrs(fn, func(in ssa.Instruction) {
		if a, ok := in.(*ssa.Alloc); ok && typeIs(a.Type(), pkgSuffix, typeName) {
			if _, isStruct := deref(a.Type()).Underlying().(*types.Struct); isStruct && (a.Comment == "complit" || a.Comment == "new") {
				out = append(out, a)
			}
		}
	})
	sort.SliceStable(out, func(i, j int) bool { return out[i].Pos() < out[j].Pos() })
	return out
}

// loopHeaders returns, for each block, the header of the innermost natural loop that
// contains it (nil when it is in no loop).
func loopHeaders(fn *ssa.Function) map[*ssa.BasicBlock]*ssa.BasicBlock {
	inner := map[*ssa.BasicBlock]*ssa.BasicBlock{}
	type loop struct {
		head *ssa.BasicBlock
		body map[*ssa.BasicBlock]bool
	}
	var loops []loop
	for _, b := range fn.Blocks {
		for _, s := range b.Succs {
			if s.Dominates(b) { // back edge b -> s
				body := map[*ssa.BasicBlock]bool{s: true}
				stack := []*ssa.BasicBlock{b}
				for len(stack) > 0 {
					x := stack[len(stack)-1]
					stack = stack[:len(stack)-1]
					if body[x] {
						continue
					}
					body[x] = true
					stack = append(stack, x.Preds...)
				}
				merged := false
				for i := range loops {
					if loops[i].head == s {
						for k := range body {
							loops[i].body[k] = true
						}
						merged = true
					}
				}
				if !merged {
					loops = append(loops, loop{s, body})
				}
			}
		}
	}
	// innermost = smallest body containing the block
	for _, b := range fn.Blocks {
		best := -1
		for i, l := range loops {
			if l.body[b] && (best < 0 || len(l.body) < len(loops[best].body)) {
				best = i
			}
		}
		if best >= 0 {
			inner[b] = loops[best].head
		}
	}
	return inner
}

// loopBody returns the natural loop body of header h (union over its back edges).
func loopBody(h *ssa.BasicBlock) map[*ssa.BasicBlock]bool {
	body := map[*ssa.BasicBlock]bool{}
	for _, p := range h.Preds {
		if h.Dominates(p) {
			body[h] = true
			stack := []*ssa.BasicBlock{p}
			for len(stack) > 0 {
				x := stack[len(stack)-1]
				stack = stack[:len(stack)-1]
				if body[x] {
					continue
				}
				body[x] = true
				stack = append(stack, x.Preds...)
			}
		}
	}
	return body
}

// isLoopHeader reports whether b has a back edge into it.
func isLoopHeader(b *ssa.BasicBlock) bool {
	for _, p := range b.Preds {
		if b.Dominates(p) {
			return true
		}
	}
	return false
}

// callsReaching lists the call sites in fn that reach target: calls of target itself, and
// calls of repo functions from which target is reachable through at most depth further
// static calls (a wrapper around target counts as target).
func (w *World) callsReaching(fn, target *ssa.Function, depth int) []ssa.CallInstruction {
	var reaches func(g *ssa.Function, d int, seen map[*ssa.Function]bool) bool
	reaches = func(g *ssa.Function, d int, seen map[*ssa.Function]bool) bool {
		if g == target {
			return true
		}
		if d == 0 || seen[g] || !w.InRepo(g) {
			return false
		}
		seen[g] = true
		for _, ci := range callsIn(g) {
			if h := callee(ci); h != nil && reaches(h, d-1, seen) {
				return true
			}
		}
		return false
	}
	var out []ssa.CallInstruction
	for _, ci := range callsIn(fn) {
		g := callee(ci)
		if g == nil || g == fn {
			continue
		}
		if reaches(g, depth, map[*ssa.Function]bool{fn: true}) {
			out = append(out, ci)
		}
	}
	return out
}

// ---- error constructors --------------------------------------------------------------------

var errCtorCache = map[*ssa.Function]int{} // 0 unknown, 1 yes, 2 no
var errCtorWorld *World
var errCtorEffects func() *Effects

// isErrorCtorName: library / repo functions that always return a fresh non-nil error.
func isErrorCtorName(n string) bool {
	return strings.HasSuffix(n, "/parser.NewParseError") || strings.HasSuffix(n, "/parser.NewRangeParseError") || n == "fmt.Errorf" || n == "errors.New"
}

// isErrorCtorCall: the call always yields a fresh non-nil error and has no other effect: one of
// the known constructors, or a repo function without side effects whose every return is such
// a call or a concrete error value (a wrapper like newMissingCaseError(tok, a, b)).
func isErrorCtorCall(ci ssa.CallInstruction) bool {
	if isErrorCtorName(calleeName(ci)) {
		return true
	}
	g := callee(ci)
	return g != nil && isErrorCtorFn(g, 0)
}

func isErrorCtorFn(g *ssa.Function, depth int) bool {
	switch errCtorCache[g] {
	case 1:
		return true
	case 2:
		return false
	}
	errCtorCache[g] = 2
	w := errCtorWorld
	if w == nil || !w.InRepo(g) || len(g.Blocks) == 0 || depth > 3 {
		return false
	}
	res := g.Signature.Results()
	if res.Len() != 1 || !isErrorType(res.At(0).Type()) {
		return false
	}
	if errCtorEffects != nil && len(errCtorEffects().Writes(g)) > 0 {
		return false
	}
	ok := true
	n := 0
	for _, b := range g.Blocks {
		for _, in := range b.Instrs {
			switch x := in.(type) {
			case *ssa.Return:
				n++
				switch v := x.Results[0].(type) {
				case *ssa.MakeInterface:
				case *ssa.Call:
					if !isErrorCtorName(calleeName(v)) && !(callee(v) != nil && isErrorCtorFn(callee(v), depth+1)) {
						ok = false
					}
				default:
					ok = false
				}
			case ssa.CallInstruction:
				nm := calleeName(x)
				if pureStd[nm] || isErrorCtorName(nm) || (callee(x) != nil && isErrorCtorFn(callee(x), depth+1)) {
					continue
				}
				ok = false
			case *ssa.MapUpdate, *ssa.Go, *ssa.Defer, *ssa.Panic:
				ok = false
			}
		}
	}
	if ok && n > 0 {
		errCtorCache[g] = 1
		return true
	}
	return false
}

// elemIndex: the index value when v is an element read `x[i]` of a slice or array.
func elemIndex(v ssa.Value) ssa.Value {
	switch x := v.(type) {
	case *ssa.UnOp:
		if ia, ok := x.X.(*ssa.IndexAddr); ok && x.Op == token.MUL {
			return ia.Index
		}
	case *ssa.Index:
		return x.Index
	}
	return nil
}

// ascendingFromZero: v is the position of an in-order walk — the index of a `range` loop, or a
// loop variable that starts at 0 and whose only other definition is itself plus one.
func ascendingFromZero(v ssa.Value) bool {
	step := func(x ssa.Value, of ssa.Value) bool {
		bo, ok := x.(*ssa.BinOp)
		if !ok || bo.Op != token.ADD || bo.X != of {
			return false
		}
		k, ok := intConst(bo.Y)
		return ok && k == 1
	}
	if p, ok := v.(*ssa.Phi); ok && isLoopHeader(p.Block()) && len(p.Edges) == 2 {
		for i := range p.Edges {
			if k, ok := intConst(p.Edges[i]); ok && k == 0 && step(p.Edges[1-i], p) {
				return true
			}
		}
		return false
	}
	if bo, ok := v.(*ssa.BinOp); ok && bo.Op == token.ADD {
		if p, ok := bo.X.(*ssa.Phi); ok && isLoopHeader(p.Block()) && len(p.Edges) == 2 && step(v, p) {
			for i := range p.Edges {
				if k, ok := intConst(p.Edges[i]); ok && k == -1 && p.Edges[1-i] == v {
					return true
				}
			}
		}
	}
	return false
}

// loopSkip: sink is inside a loop. Is there a way through one iteration of the innermost loop
// around it — from the loop's body entry back to the header, or out of the loop other than by
// a failing return — that does not execute any of the sinks? Returns the first instruction of
// the block where the skipping path re-enters the header or leaves the loop.
func loopSkip(fn *ssa.Function, sinks ...ssa.Instruction) (ssa.Instruction, bool) {
	return loopSkipEdges(fn, notErrorEdge, sinks...)
}

// notErrorNorOtherType: prunes error edges and the edge taken when a comma-ok type assertion
// fails (the element is of another kind and is none of this loop's business).
func notErrorNorOtherType(b *ssa.BasicBlock, succ int) bool {
	if !notErrorEdge(b, succ) {
		return false
	}
	if len(b.Instrs) == 0 {
		return true
	}
	if ifi, ok := b.Instrs[len(b.Instrs)-1].(*ssa.If); ok {
		if ex, ok := ifi.Cond.(*ssa.Extract); ok && ex.Index == 1 {
			if ta, ok := ex.Tuple.(*ssa.TypeAssert); ok && ta.CommaOk {
				return succ == 0
			}
		}
	}
	return true
}

func loopSkipEdges(fn *ssa.Function, edgeOK func(*ssa.BasicBlock, int) bool, sinks ...ssa.Instruction) (ssa.Instruction, bool) {
	if len(sinks) == 0 {
		return nil, false
	}
	h := loopHeaders(fn)[sinks[0].Block()]
	if h == nil {
		return nil, false
	}
	body := loopBody(h)
	isSink := func(in ssa.Instruction) bool {
		for _, s := range sinks {
			if s == in {
				return true
			}
		}
		return false
	}
	failing := func(b *ssa.BasicBlock) bool {
		if len(b.Instrs) == 0 {
			return false
		}
		r, ok := b.Instrs[len(b.Instrs)-1].(*ssa.Return)
		return ok && !isSuccessReturn(r)
	}
	for _, s := range h.Succs {
		if !body[s] || s == h {
			continue
		}
		w, found := existsPath(pathQuery{from: point{s, 0}, avoid: isSink, edgeOK: edgeOK, target: func(in ssa.Instruction) bool {
			b := in.Block()
			if isSink(in) {
				return false
			}
			if b == h {
				return true
			}
			return !body[b] && !failing(b)
		}})
		if found {
			return w, true
		}
	}
	return nil, false
}


// foundNotRejected: for every lookup of map m in fn whose outcome is branched on, the branch taken
// when the key is present must end in a failing return. Returns the lookups for which the
// "present" branch can reach a successful return, the next iteration, or an instruction in `also`.
func foundNotRejected(fn *ssa.Function, m ssa.Value, also ...ssa.Instruction) []ssa.Instruction {
	var bad []ssa.Instruction
	instrs(fn, func(in ssa.Instruction) {
		lk, ok := in.(*ssa.Lookup)
		if !ok || lk.X != m || lk.Referrers() == nil {
			return
		}
		var conds []ssa.Value
		if lk.CommaOk {
			for _, r := range *lk.Referrers() {
				if ex, ok := r.(*ssa.Extract); ok && ex.Index == 1 {
					conds = append(conds, ex)
				}
			}
		} else if b, ok := lk.Type().Underlying().(*types.Basic); ok && b.Kind() == types.Bool {
			conds = append(conds, lk)
		}
		h := loopHeaders(fn)[lk.Block()]
		for _, cv := range conds {
			if cv.Referrers() == nil {
				continue
			}
			for _, r := range *cv.Referrers() {
				ifi, ok := r.(*ssa.If)
				if !ok {
					continue
				}
				start := ifi.Block().Succs[0]
				_, found := existsPath(pathQuery{from: point{start, 0}, target: func(x ssa.Instruction) bool {
					if ret, ok := x.(*ssa.Return); ok {
						return isSuccessReturn(ret)
					}
					if h != nil && x.Block() == h {
						return true
					}
					for _, a := range also {
						if a == x {
							return true
						}
					}
					return false
				}})
				if found {
					bad = append(bad, lk)
				}
			}
		}
	})
	return bad
}

// iterationSkips: can one turn of the innermost loop round sink — from a body entry back to the
// header — do without the sink? (Leaving the loop is not a skip here: use loopSkip when an
// element of a collection must not be passed over on the way out either.)
func iterationSkips(fn *ssa.Function, sink ssa.Instruction) (ssa.Instruction, bool) {
	return iterationSkipsAny(fn, sink)
}

// iterationSkipsAny: as iterationSkips, with several sinks (passing any of them counts).
func iterationSkipsAny(fn *ssa.Function, sinks ...ssa.Instruction) (ssa.Instruction, bool) {
	if len(sinks) == 0 {
		return nil, false
	}
	isSink := func(x ssa.Instruction) bool {
		for _, k := range sinks {
			if k == x {
				return true
			}
		}
		return false
	}
	h := loopHeaders(fn)[sinks[0].Block()]
	if h == nil {
		return nil, false
	}
	body := loopBody(h)
	for _, s := range h.Succs {
		if !body[s] || s == h {
			continue
		}
		if _, found := existsPath(pathQuery{from: point{s, 0}, avoid: isSink, edgeOK: notErrorEdge, stopAt: func(x ssa.Instruction) bool { return !body[x.Block()] }, target: func(x ssa.Instruction) bool { return !isSink(x) && x.Block() == h }}); found {
			return s.Instrs[0], true
		}
	}
	return nil, false
}

func iterationSkipsOld(fn *ssa.Function, sink ssa.Instruction) (ssa.Instruction, bool) {
	h := loopHeaders(fn)[sink.Block()]
	if h == nil {
		return nil, false
	}
	body := loopBody(h)
	for _, s := range h.Succs {
		if !body[s] || s == h {
			continue
		}
		if _, found := existsPath(pathQuery{from: point{s, 0}, avoid: func(x ssa.Instruction) bool { return x == sink }, edgeOK: notErrorEdge, stopAt: func(x ssa.Instruction) bool { return !body[x.Block()] }, target: func(x ssa.Instruction) bool { return x != sink && x.Block() == h }}); found {
			return s.Instrs[0], true
		}
	}
	return nil, false
}

// feed: one way a value gets into a list field of a node — the store itself (`n.F = append(n.F, x)`)
// or, when the list is gathered in a local and stored at the end (`acc = append(acc, x)` …
// `n.F = acc`), each append that feeds the local.
type feed struct {
	val ssa.Value       // the append call (or the stored value when it is no append)
	at  ssa.Instruction // where it happens: the store, or the append of the accumulator
}

func (f feed) Block() *ssa.BasicBlock { return f.at.Block() }
func (f feed) Pos() token.Pos         { return f.at.Pos() }

func fieldFeeds(fn *ssa.Function, pkgSuffix, typeName, field string) []feed {
	var out []feed
	seen := map[ssa.Value]bool{}
	for _, st := range storesToField(fn, pkgSuffix, typeName, field) {
		if call, ok := st.Val.(*ssa.Call); ok && calleeName(call) == "builtin:append" {
			out = append(out, feed{st.Val, st})
			continue
		}
		var gather func(v ssa.Value)
		n0 := len(out)
		gather = func(v ssa.Value) {
			if seen[v] {
				return
			}
			seen[v] = true
			switch x := v.(type) {
			case *ssa.Phi:
				for _, e := range x.Edges {
					gather(e)
				}
			case *ssa.Call:
				if calleeName(x) == "builtin:append" {
					out = append(out, feed{x, x})
					gather(x.Call.Args[0])
				}
			}
		}
		gather(st.Val)
		if len(out) == n0 {
			out = append(out, feed{st.Val, st})
		}
	}
	return out
}

// liveBlocks: the blocks of fn that can be reached from its entry when an If on a constant
// (`if false { return err }`) is only followed the way the constant says. go/ssa keeps both arms of
// such an If; a use that stands in the dead arm is no use.
func liveBlocks(fn *ssa.Function) map[*ssa.BasicBlock]bool {
	live := map[*ssa.BasicBlock]bool{}
	if len(fn.Blocks) == 0 {
		return live
	}
	work := []*ssa.BasicBlock{fn.Blocks[0]}
	if fn.Recover != nil {
		work = append(work, fn.Recover)
	}
	for len(work) > 0 {
		b := work[len(work)-1]
		work = work[:len(work)-1]
		if live[b] {
			continue
		}
		live[b] = true
		succs := b.Succs
		if len(b.Instrs) > 0 && len(b.Succs) == 2 {
			if ifi, ok := b.Instrs[len(b.Instrs)-1].(*ssa.If); ok {
				if k, isC := ifi.Cond.(*ssa.Const); isC && k.Value != nil && k.Value.Kind() == constant.Bool {
					if constant.BoolVal(k.Value) {
						succs = b.Succs[:1]
					} else {
						succs = b.Succs[1:]
					}
				}
			}
		}
		work = append(work, succs...)
	}
	return live
}

// liveReferrers: the referrers of v that stand in live blocks of their function.
func liveReferrers(v ssa.Value) []ssa.Instruction {
	if v.Referrers() == nil {
		return nil
	}
	var out []ssa.Instruction
	cache := map[*ssa.Function]map[*ssa.BasicBlock]bool{}
	for _, r := range *v.Referrers() {
		f := r.Parent()
		if cache[f] == nil {
			cache[f] = liveBlocks(f)
		}
		if cache[f][r.Block()] {
			out = append(out, r)
		}
	}
	return out
}
