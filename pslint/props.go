package main

func init() {
	property("C15", "stub", nil)
}
