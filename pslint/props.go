package main
