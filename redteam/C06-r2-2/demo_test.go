// place at: emitter/zz_c06_2_demo_test.go
package emitter_test

import (
	"strings"
	"testing"

	"github.com/huderlem/poryscript/emitter"
	"github.com/huderlem/poryscript/lexer"
	"github.com/huderlem/poryscript/parser"
)

// C06: generated names are '<script>_Text_<n>' numbered per owning script in order of
// first appearance in the source.
func TestC06_2_LabelsNumberedInOrderOfFirstAppearance(t *testing.T) {
	src := `
script S {
	if (flag(FLAG_A)) {
		msgbox("first$")
	} elif (flag(FLAG_B)) {
		msgbox("second$")
	} else {
		msgbox("third$")
	}
}
`
	p := parser.New(lexer.New(src), parser.CommandConfig{}, "", "", 0, nil)
	program, err := p.ParseProgram()
	if err != nil {
		t.Fatalf("unexpected parse error: %v", err)
	}
	out, err := emitter.New(program, false, false, "").Emit()
	if err != nil {
		t.Fatalf("unexpected emit error: %v", err)
	}
	for i, content := range []string{"first$", "second$", "third$"} {
		want := "S_Text_" + string(rune('0'+i)) + ":\n\t.string \"" + content + "\"\n"
		if !strings.Contains(out, want) {
			t.Errorf("expected text %d of script S to be %q (order of first appearance); output:\n%s", i, content, out)
		}
	}
}
