// place at: emitter/redteam_c08_1_test.go
package emitter

import (
	"testing"

	"github.com/huderlem/poryscript/lexer"
	"github.com/huderlem/poryscript/parser"
)

// C08: every table lists its triples in source order and ends with '.2byte 0' - for any table
// length, also zero; the header lists every map script.
func TestRedteamC08EmptyTable(t *testing.T) {
	src := `
mapscripts M {
	MAP_SCRIPT_ON_LOAD: M_OnLoad
	MAP_SCRIPT_ON_FRAME_TABLE [
	]
	MAP_SCRIPT_ON_WARP_INTO_MAP_TABLE [
		VAR_TEMP_1, 0: M_OnWarp
	]
}
`
	p := parser.New(lexer.New(src), parser.CommandConfig{}, "", "", 0, nil)
	program, err := p.ParseProgram()
	if err != nil {
		t.Fatalf("a mapscripts statement with an empty table does not compile: %s", err.Error())
	}
	out, err := New(program, false, false, "").Emit()
	if err != nil {
		t.Fatal(err)
	}
	want := `M::
	map_script MAP_SCRIPT_ON_LOAD, M_OnLoad
	map_script MAP_SCRIPT_ON_FRAME_TABLE, M_MAP_SCRIPT_ON_FRAME_TABLE
	map_script MAP_SCRIPT_ON_WARP_INTO_MAP_TABLE, M_MAP_SCRIPT_ON_WARP_INTO_MAP_TABLE
	.byte 0

M_MAP_SCRIPT_ON_FRAME_TABLE:
	.2byte 0

M_MAP_SCRIPT_ON_WARP_INTO_MAP_TABLE:
	map_script_2 VAR_TEMP_1, 0, M_OnWarp
	.2byte 0

`
	if out != want {
		t.Fatalf("unexpected output\n--- got\n%s\n--- want\n%s", out, want)
	}
}
