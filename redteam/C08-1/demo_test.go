// place at: emitter/red_c08_1_test.go
package emitter

import (
	"testing"

	"github.com/huderlem/poryscript/lexer"
	"github.com/huderlem/poryscript/parser"
)

// C08: the header lists every map script (plain entries, then tables) and every table is
// emitted with its '.2byte 0' terminator - for any table length, including zero.
func TestRedC08_1_EmptyTable(t *testing.T) {
	input := `
mapscripts MyMap_MapScripts {
	MAP_SCRIPT_ON_LOAD: MyMap_OnLoad
	MAP_SCRIPT_ON_FRAME_TABLE [
	]
}
`
	p := parser.New(lexer.New(input), parser.CommandConfig{}, "", "", 0, nil)
	program, err := p.ParseProgram()
	if err != nil {
		t.Fatalf("parse error: %s", err.Error())
	}
	out, err := New(program, false, false, "").Emit()
	if err != nil {
		t.Fatalf("emit error: %s", err.Error())
	}
	expected := `MyMap_MapScripts::
	map_script MAP_SCRIPT_ON_LOAD, MyMap_OnLoad
	map_script MAP_SCRIPT_ON_FRAME_TABLE, MyMap_MapScripts_MAP_SCRIPT_ON_FRAME_TABLE
	.byte 0

MyMap_MapScripts_MAP_SCRIPT_ON_FRAME_TABLE:
	.2byte 0

`
	if out != expected {
		t.Fatalf("expected\n%q\ngot\n%q", expected, out)
	}
}
