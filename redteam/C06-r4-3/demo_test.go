// place at: redteam_c06_3_test.go
package main

import (
	"io/ioutil"
	"os"
	"path/filepath"
	"strings"
	"testing"

	"github.com/huderlem/poryscript/emitter"
	"github.com/huderlem/poryscript/lexer"
	"github.com/huderlem/poryscript/parser"
)

func compileC06x3(t *testing.T, input string) string {
	t.Helper()
	p := parser.New(lexer.New(input), parser.CommandConfig{}, "font_config.json", "", 0, nil)
	program, err := p.ParseProgram()
	if err != nil {
		t.Fatal(err)
	}
	out, err := emitter.New(program, false, false, "").Emit()
	if err != nil {
		t.Fatal(err)
	}
	return out
}

// C06: every inline string of a command is replaced by a local label that is defined exactly once
// in the output with exactly that content. The output of `poryscript -o file` is the file.
func TestRedteamC06_3_OutputFileOfARecompile(t *testing.T) {
	dir, err := ioutil.TempDir("", "poryscript-redteam")
	if err != nil {
		t.Fatal(err)
	}
	defer os.RemoveAll(dir)
	outPath := filepath.Join(dir, "scripts.inc")

	// First build of the script, then the author shortens it and builds again (same -o file).
	first := compileC06x3(t, `
script Talk {
	msgbox("Hello there! This is the first version of the text.")
	msgbox("It has a second message box with more text, too.")
}
`)
	second := compileC06x3(t, `
script Talk {
	msgbox("Hi")
}
`)
	if err := writeOutput(first, outPath); err != nil {
		t.Fatal(err)
	}
	if err := writeOutput(second, outPath); err != nil {
		t.Fatal(err)
	}
	data, err := ioutil.ReadFile(outPath)
	if err != nil {
		t.Fatal(err)
	}
	got := string(data)
	if n := strings.Count(got, "_Text_1:"); n != 0 {
		t.Errorf("the output defines a text label that no inline text of the program owns (%d definitions of ..._Text_1)", n)
	}
	if got != second {
		t.Fatalf("the output file is not the compiler's output for the program.\nwant:\n%s\ngot:\n%s", second, got)
	}
}
