// place at: emitter/redteam_c09_2_test.go
package emitter_test

import (
	"strings"
	"testing"

	"github.com/huderlem/poryscript/emitter"
	"github.com/huderlem/poryscript/lexer"
	"github.com/huderlem/poryscript/parser"
)

// C09: "the lines concatenate to the source text" for "all string contents (any characters the
// lexer accepts ...)". A tab character between the quotes is part of the text.
func TestRedTeamC09_2_EveryCharacterOfALiteralIsKept(t *testing.T) {
	input := "script MyScript {\n\tmsgbox(\"Name:\tRed\")\n}\n\ntext MyText {\n\tascii\"A\tB\"\n}\n"
	p := parser.New(lexer.New(input), parser.CommandConfig{}, "", "", 0, nil)
	program, err := p.ParseProgram()
	if err != nil {
		t.Fatal(err)
	}
	out, err := emitter.New(program, false, false, "").Emit()
	if err != nil {
		t.Fatal(err)
	}
	for _, want := range []string{
		"MyScript_Text_0:\n\t.string \"Name:\tRed$\"\n",
		"MyText::\n\t.ascii \"A\tB\\0\"\n",
	} {
		if !strings.Contains(out, want) {
			t.Errorf("missing %q in output\n%q", want, out)
		}
	}
}
