// place at: emitter/redteam_c08_1_test.go
package emitter

import (
	"testing"

	"github.com/huderlem/poryscript/lexer"
	"github.com/huderlem/poryscript/parser"
)

// C08: a mapscripts statement emits a header that lists every map script in source order within
// its kind (plain entries, then table entries) and ends with '.byte 0' - for any plain entries.
func TestRedteamC08_1_PlainEntryOfATableType(t *testing.T) {
	// The frame table itself is hand-written assembly (a raw block or another file): the
	// mapscripts statement only refers to it, which is what a plain 'type: label' entry is for.
	input := `
mapscripts MyMap_MapScripts {
	MAP_SCRIPT_ON_TRANSITION: MyMap_OnTransition
	MAP_SCRIPT_ON_FRAME_TABLE: MyMap_OnFrame
	MAP_SCRIPT_ON_RESUME {
		setstepcallback(STEP_CB_ASH)
	}
}
`
	want := "MyMap_MapScripts::\n" +
		"\tmap_script MAP_SCRIPT_ON_TRANSITION, MyMap_OnTransition\n" +
		"\tmap_script MAP_SCRIPT_ON_FRAME_TABLE, MyMap_OnFrame\n" +
		"\tmap_script MAP_SCRIPT_ON_RESUME, MyMap_MapScripts_MAP_SCRIPT_ON_RESUME\n" +
		"\t.byte 0\n\n" +
		"MyMap_MapScripts_MAP_SCRIPT_ON_RESUME:\n" +
		"\tsetstepcallback STEP_CB_ASH\n" +
		"\treturn\n\n"
	p := parser.New(lexer.New(input), parser.CommandConfig{}, "../font_config.json", "", 0, nil)
	program, err := p.ParseProgram()
	if err != nil {
		t.Fatalf("a plain entry is rejected because of the name of its map script type: %v", err)
	}
	got, err := New(program, false, false, "").Emit()
	if err != nil {
		t.Fatal(err)
	}
	if got != want {
		t.Fatalf("want:\n%s\ngot:\n%s", want, got)
	}
}
