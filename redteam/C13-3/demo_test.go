// place at: emitter/red_c13_3_test.go
package emitter

import (
	"strings"
	"testing"

	"github.com/huderlem/poryscript/lexer"
	"github.com/huderlem/poryscript/parser"
)

// C13: constants never rewrite text content.
func TestRedC13_3_InlineTextIsNotAConstant(t *testing.T) {
	input := `
const Yes = 1
const No = 0

script MyScript {
	setvar(VAR_RESULT, Yes)
	msgbox("Yes")
	msgbox("Yes or No")
}
`
	p := parser.New(lexer.New(input), parser.CommandConfig{}, "", "", 0, nil)
	program, err := p.ParseProgram()
	if err != nil {
		t.Fatalf("parse error: %s", err.Error())
	}
	out, err := New(program, false, false, "").Emit()
	if err != nil {
		t.Fatalf("emit error: %s", err.Error())
	}
	for _, want := range []string{
		"\tsetvar VAR_RESULT, 1\n",
		"MyScript_Text_0:\n\t.string \"Yes$\"\n",
		"MyScript_Text_1:\n\t.string \"Yes or No$\"\n",
	} {
		if !strings.Contains(out, want) {
			t.Errorf("output lacks %q:\n%s", want, out)
		}
	}
}
