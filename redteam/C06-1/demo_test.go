// place at: parser/red_c06_1_test.go
package parser

import (
	"testing"

	"github.com/huderlem/poryscript/lexer"
)

// C06: a clash between a generated text label and a user-defined text name is a compile
// error - whatever the two texts contain. (Accepting it leaves two definitions of the
// same label in program.Texts, both of which are emitted.)
func TestRedC06_1_ClashWithIdenticalContent(t *testing.T) {
	input := `
script Script1 {
	msgbox("Hello")
}
text Script1_Text_0 {
	"Hello"
}`
	p := New(lexer.New(input), CommandConfig{}, "", "", 0, nil)
	program, err := p.ParseProgram()
	if err == nil {
		n := 0
		for _, text := range program.Texts {
			if text.Name == "Script1_Text_0" {
				n++
			}
		}
		t.Fatalf("expected a 'duplicate text label' error, but the program was accepted with %d definitions of Script1_Text_0", n)
	}
	expected := "line 5: duplicate text label 'Script1_Text_0'. Choose a unique label that won't clash with the auto-generated text labels"
	if err.Error() != expected {
		t.Fatalf("expected error %q, got %q", expected, err.Error())
	}
}
