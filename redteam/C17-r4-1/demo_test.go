// place at: emitter/redteam_c17_1_test.go
package emitter

import (
	"testing"

	"github.com/huderlem/poryscript/lexer"
	"github.com/huderlem/poryscript/parser"
)

// C17: compiling the same input with the same options always yields the same error.
// The script below contains two labels that clash with generated chunk labels, in two
// different chunks. The unchanged compiler always reports the one that is rendered first.
func TestRedteamC17_1_SameErrorEveryTime(t *testing.T) {
	input := `
script S {
	lock
	if (flag(FLAG_A)) {
		S_2:
		foo
	}
	if (flag(FLAG_B)) {
		S_1:
		bar
	}
	release
}
`
	compile := func() string {
		l := lexer.New(input)
		p := parser.New(l, parser.CommandConfig{}, "", "", 0, nil)
		program, err := p.ParseProgram()
		if err != nil {
			t.Fatalf("unexpected parse error: %s", err.Error())
		}
		_, err = New(program, false, false, "").Emit()
		if err == nil {
			t.Fatalf("expected a label clash error")
		}
		return err.Error()
	}
	first := compile()
	for i := 0; i < 200; i++ {
		if got := compile(); got != first {
			t.Fatalf("compilation %d of the same input reported a different error:\n  first: %s\n  now:   %s", i+2, first, got)
		}
	}
}
