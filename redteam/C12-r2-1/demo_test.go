// place at: emitter/zz_c12_1_demo_test.go
package emitter_test

import (
	"testing"

	"github.com/huderlem/poryscript/emitter"
	"github.com/huderlem/poryscript/lexer"
	"github.com/huderlem/poryscript/parser"
)

// C12: with no matching case and no '_' case compilation fails — in every position a
// poryswitch can be written in, however many cases it has.
func TestC12_1_NoMatchingCaseFailsInLists(t *testing.T) {
	for _, src := range []string{
		"movement M {\n\twalk_up\n\tporyswitch(GAME) {\n\t}\n\twalk_down\n}\n",
		"mart M {\n\tITEM_A\n\tporyswitch(GAME) {\n\t}\n\tITEM_B\n}\n",
		"script S {\n\tapplymovement(1, moves(walk_up poryswitch(GAME) { } walk_down))\n}\n",
	} {
		p := parser.New(lexer.New(src), parser.CommandConfig{}, "", "", 0, map[string]string{"GAME": "RUBY"})
		program, err := p.ParseProgram()
		if err == nil {
			out, _ := emitter.New(program, false, false, "").Emit()
			t.Errorf("no case matches GAME=RUBY and there is no '_' case: compilation must fail, but it produced:\n%s", out)
		}
	}
}
