// place at: parser/redteam5_c07_3_test.go
package parser_test

import (
	"testing"

	"github.com/huderlem/poryscript/parser"
)

// C07: format() "keeps all words and explicit break codes in order - nothing is lost, duplicated or
// split - and only chooses where lines end"; scope "control codes in braces, explicit \n \l \p \N
// anywhere". A brace group is one unbreakable word: a backslash inside it is part of the code's
// text, not the start of a break code, so no line may end inside the braces.
func TestRedTeam5C07_3_BackslashInsideBraces(t *testing.T) {
	fc := parser.FontConfig{}
	tests := []struct{ text, want string }{
		{`ab {STR_VAR\n1} cd`, `ab {STR_VAR\n1} cd`},
		{`ab {X\pY Z} cd ef`, `ab {X\pY Z} cd ef`},
	}
	for _, tt := range tests {
		got, err := fc.FormatText(tt.text, 1000, 0, "TEST", 2)
		if err != nil {
			t.Fatal(err)
		}
		if got != tt.want {
			t.Errorf("FormatText(%q): got %q, want %q (a line ends inside the braces)", tt.text, got, tt.want)
		}
	}
}
