// place at: emitter/c10_1_demo_test.go
package emitter

import (
	"testing"

	"github.com/huderlem/poryscript/lexer"
	"github.com/huderlem/poryscript/parser"
)

// C10: every command statement reaches the output as one line; commands are never dropped.
func TestC10_1_CommandsAfterEndAreKept(t *testing.T) {
	input := `
script Foo {
	goto(Foo_Skip)
	end
Foo_Skip:
	release
	setflag(FLAG_DONE)
	end
}
`
	for _, optimize := range []bool{false, true} {
		l := lexer.New(input)
		p := parser.New(l, parser.CommandConfig{}, "", "", 0, nil)
		program, err := p.ParseProgram()
		if err != nil {
			t.Fatal(err)
		}
		out, err := New(program, optimize, false, "").Emit()
		if err != nil {
			t.Fatal(err)
		}
		expected := "Foo::\n\tgoto Foo_Skip\n\tend\nFoo_Skip:\n\trelease\n\tsetflag FLAG_DONE\n\tend\n\n"
		if out != expected {
			t.Errorf("optimize=%v: commands were dropped.\nexpected:\n%s\ngot:\n%s", optimize, expected, out)
		}
	}
}
