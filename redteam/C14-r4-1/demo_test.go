// place at: emitter/redteam_c14_1_test.go
package emitter

import (
	"strings"
	"testing"

	"github.com/huderlem/poryscript/lexer"
	"github.com/huderlem/poryscript/parser"
)

func compileC14x1(input string, switches map[string]string) (string, error) {
	p := parser.New(lexer.New(input), parser.CommandConfig{}, "../font_config.json", "", 0, switches)
	program, err := p.ParseProgram()
	if err != nil {
		return "", err
	}
	return New(program, false, false, "").Emit()
}

// C14: a movement block - statement or moves() - emits its steps in source order and ends with
// exactly one step_end, for step lists of any length, poryswitch-selected parts included.
func TestRedteamC14_1_MovesWithoutSteps(t *testing.T) {
	// Only the RUBY version moves the object; every other version gets an empty (but valid) list.
	input := `
script MyScript {
	applymovement(2, moves(poryswitch(GAME) {
		RUBY { walk_up * 2 }
		_ { }
	}))
	waitmovement(0)
}
`
	out, err := compileC14x1(input, map[string]string{"GAME": "SAPPHIRE"})
	if err != nil {
		t.Fatalf("a moves() whose selected steps are none is a step list of length 0, not an error: %v", err)
	}
	want := "MyScript_Movement_0:\n\tstep_end\n"
	if !strings.Contains(out, "\tapplymovement 2, MyScript_Movement_0\n") || !strings.HasSuffix(out, want) {
		t.Fatalf("expected the hoisted movement to be its label and one step_end.\ngot:\n%s", out)
	}

	out, err = compileC14x1("script S { applymovement(1, moves()) }", nil)
	if err != nil {
		t.Fatalf("moves() with no steps: %v", err)
	}
	if !strings.HasSuffix(out, "S_Movement_0:\n\tstep_end\n") {
		t.Fatalf("got:\n%s", out)
	}
}
