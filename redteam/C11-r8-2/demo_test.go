// place at: emitter/c11_2_demo_test.go
package emitter

import (
	"strings"
	"testing"

	"github.com/huderlem/poryscript/lexer"
	"github.com/huderlem/poryscript/parser"
)

// The compared var of a position-configured AutoVar command is the argument at that position,
// exactly as the command itself is rendered with it - also when the argument is written with
// more than one token.
func TestC11Demo_ArgumentVerbatim(t *testing.T) {
	zero := 0
	input := `
script S {
	if (specialvar(VAR_BASE + 1, GetThing) == 2) {
		foo
	}
	switch (specialvar(VAR_BASE + 2, GetOther)) {
		case 5: bar
	}
}
`
	p := parser.New(lexer.New(input), parser.CommandConfig{
		AutoVarCommands: map[string]parser.AutoVarCommand{"specialvar": {VarNameArgPosition: &zero}},
	}, "", "", 0, nil)
	program, err := p.ParseProgram()
	if err != nil {
		t.Fatal(err)
	}
	for _, optimize := range []bool{false, true} {
		result, err := New(program, optimize, false, "").Emit()
		if err != nil {
			t.Fatal(err)
		}
		if !strings.Contains(result, "\tspecialvar VAR_BASE + 1, GetThing\n\tcompare VAR_BASE + 1, 2\n") {
			t.Errorf("optimize=%v: the command writes 'VAR_BASE + 1', so that is what must be compared:\n%s", optimize, result)
		}
		if !strings.Contains(result, "\tswitch VAR_BASE + 2\n") {
			t.Errorf("optimize=%v: the command writes 'VAR_BASE + 2', so that is what must be switched on:\n%s", optimize, result)
		}
	}
}
