// place at: lexer/c19_demo1_test.go
package lexer_test

import (
	"testing"

	"github.com/huderlem/poryscript/lexer"
	"github.com/huderlem/poryscript/token"
)

// C19: a token's literal is what the source spells, and for a single-line token the end column
// is the start column plus the literal's length (in bytes and in characters).
func TestC19DemoIdentifierEndingInMultiByteLetter(t *testing.T) {
	for _, src := range []string{"café", "café ", "script Café { talé(1) }", "x_ß\n"} {
		l := lexer.New(src)
		for {
			tok := l.NextToken()
			if tok.Type == token.EOF {
				break
			}
			if tok.Type != token.IDENT && tok.Type != token.SCRIPT {
				continue
			}
			if got := src[tok.StartCharIndex:tok.EndCharIndex]; got != tok.Literal {
				t.Errorf("input %q: token literal %q, but the source between its columns %d..%d spells %q", src, tok.Literal, tok.StartCharIndex, tok.EndCharIndex, got)
			}
			if tok.EndCharIndex != tok.StartCharIndex+len(tok.Literal) {
				t.Errorf("input %q: token %q: end byte column %d != start %d + length %d", src, tok.Literal, tok.EndCharIndex, tok.StartCharIndex, len(tok.Literal))
			}
			if n := len([]rune(tok.Literal)); tok.EndUtf8CharIndex != tok.StartUtf8CharIndex+n {
				t.Errorf("input %q: token %q: end character column %d != start %d + %d characters", src, tok.Literal, tok.EndUtf8CharIndex, tok.StartUtf8CharIndex, n)
			}
		}
	}
}
