// place at: emitter/red_c14_1_test.go
package emitter

import (
	"strings"
	"testing"

	"github.com/huderlem/poryscript/lexer"
	"github.com/huderlem/poryscript/parser"
)

func redC14_1Compile(t *testing.T, input string) string {
	t.Helper()
	p := parser.New(lexer.New(input), parser.CommandConfig{}, "", "", 0, nil)
	program, err := p.ParseProgram()
	if err != nil {
		t.Fatalf("parse error: %s", err.Error())
	}
	out, err := New(program, false, false, "").Emit()
	if err != nil {
		t.Fatalf("emit error: %s", err.Error())
	}
	return out
}

// C14: a movement block ends with exactly one step_end - also when it has no steps.
func TestRedC14_1_EmptyMovementStatement(t *testing.T) {
	out := redC14_1Compile(t, `
movement Empty {
}
`)
	expected := "Empty:\n\tstep_end\n"
	if out != expected {
		t.Fatalf("empty movement statement: expected %q, got %q", expected, out)
	}
}

// C14/C06: an empty moves() is a movement block too; its hoisted label must be defined.
func TestRedC14_1_EmptyMoves(t *testing.T) {
	out := redC14_1Compile(t, `
script S {
	applymovement(0, moves())
}
`)
	if !strings.Contains(out, "applymovement 0, S_Movement_0\n") {
		t.Fatalf("label not referenced: %q", out)
	}
	if !strings.Contains(out, "S_Movement_0:\n\tstep_end\n") {
		t.Fatalf("hoisted movement S_Movement_0 is referenced but not defined with one step_end: %q", out)
	}
}
