// place at: emitter/redteam_c02_3_test.go
package emitter

import (
	"strings"
	"testing"

	"github.com/huderlem/poryscript/lexer"
	"github.com/huderlem/poryscript/parser"
)

// value(N) forces a raw-value comparison (compare_var_to_value), whatever N looks like.
func TestRedteamC02ValueForcesRawComparison(t *testing.T) {
	for _, v := range []string{"0x4001", "(0x4000 + 1)", "(0x4000) + 1"} {
		src := "script S {\n\tif (var(VAR_X) == value(" + v + ")) {\n\t\tyes\n\t}\n}\n"
		p := parser.New(lexer.New(src), parser.CommandConfig{}, "", "", 0, nil)
		program, err := p.ParseProgram()
		if err != nil {
			t.Fatalf("value(%s): parse error: %s", v, err)
		}
		out, err := New(program, false, false, "").Emit()
		if err != nil {
			t.Fatalf("value(%s): emit error: %s", v, err)
		}
		if !strings.Contains(out, "\tcompare_var_to_value VAR_X, ") || strings.Contains(out, "\tcompare VAR_X, ") {
			t.Errorf("value(%s) must be compared with compare_var_to_value:\n%s", v, out)
		}
	}
}
