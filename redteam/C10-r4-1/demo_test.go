// place at: emitter/redteam_c10_1_test.go
package emitter

import (
	"testing"

	"github.com/huderlem/poryscript/lexer"
	"github.com/huderlem/poryscript/parser"
)

// C10: a command reaches the output with exactly its source argument tokens.
func TestRedteamC10_1_NumberTokensVerbatim(t *testing.T) {
	input := `
script S {
	setvar(VAR_TEMP_1, 010)
	setfieldeffectargument(0, 0755)
	special(007)
	end
}
`
	expected := `S::
	setvar VAR_TEMP_1, 010
	setfieldeffectargument 0, 0755
	special 007
	end

`
	for _, optimize := range []bool{false, true} {
		l := lexer.New(input)
		p := parser.New(l, parser.CommandConfig{}, "", "", 0, nil)
		program, err := p.ParseProgram()
		if err != nil {
			t.Fatalf("unexpected parse error: %s", err.Error())
		}
		got, err := New(program, optimize, false, "").Emit()
		if err != nil {
			t.Fatalf("unexpected emit error: %s", err.Error())
		}
		if got != expected {
			t.Errorf("optimize=%v: command arguments were not passed through verbatim\n--- expected\n%s\n--- got\n%s", optimize, expected, got)
		}
	}
}
