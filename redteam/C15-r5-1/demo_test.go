// place at: emitter/redteam5_c15_1_test.go
package emitter

import (
	"strings"
	"testing"

	"github.com/huderlem/poryscript/lexer"
	"github.com/huderlem/poryscript/parser"
)

// C15: "A top-level name is exported ('::') or file-local (':') exactly as its scope modifier says,
// and by the documented default when there is none: ... text ... global".
func TestRedTeam5C15_1_TextScopeIsItsOwn(t *testing.T) {
	input := `
text(local) Private {
	"Hello"
}

text Public {
	"Hello"
}

text(global) Exported {
	"Bye"
}

text(local) Hidden {
	"Bye"
}
`
	p := parser.New(lexer.New(input), parser.CommandConfig{}, "", "", 0, nil)
	program, err := p.ParseProgram()
	if err != nil {
		t.Fatal(err)
	}
	out, err := New(program, false, false, "").Emit()
	if err != nil {
		t.Fatal(err)
	}
	for _, want := range []string{"Private:\n", "Public::\n", "Exported::\n", "Hidden:\n"} {
		if !strings.Contains(out, "\n"+want) && !strings.HasPrefix(out, want) {
			t.Errorf("expected label line %q in output:\n%s", want, out)
		}
	}
}
