// place at: emitter/redteam_c13_3_test.go
package emitter

import (
	"testing"

	"github.com/huderlem/poryscript/lexer"
	"github.com/huderlem/poryscript/parser"
)

func compileC13x3(t *testing.T, src string) string {
	t.Helper()
	p := parser.New(lexer.New(src), parser.CommandConfig{}, "", "", 0, nil)
	program, err := p.ParseProgram()
	if err != nil {
		t.Fatalf("parse error: %s", err.Error())
	}
	out, err := New(program, false, false, "").Emit()
	if err != nil {
		t.Fatalf("emit error: %s", err.Error())
	}
	return out
}

// C13: using a constant is the same as writing its value (the value of a constant ends at
// the next top-level keyword).
func TestRedteamC13x3ConstantValueEndsAtNextTopLevelStatement(t *testing.T) {
	withConst := `
const PRICE = 100
mart M {
	ITEM_POTION
}
script S {
	setvar(VAR_PRICE, PRICE)
	pokemart(M)
}
`
	writtenOut := `
mart M {
	ITEM_POTION
}
script S {
	setvar(VAR_PRICE, 100)
	pokemart(M)
}
`
	a := compileC13x3(t, withConst)
	b := compileC13x3(t, writtenOut)
	if a != b {
		t.Fatalf("constant use and written-out value compile differently.\n--- with constant:\n%s\n--- written out:\n%s", a, b)
	}
}
