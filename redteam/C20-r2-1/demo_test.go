// place at: emitter/redteam_c20_1_test.go
package emitter_test

import (
	"strings"
	"testing"

	"github.com/huderlem/poryscript/emitter"
	"github.com/huderlem/poryscript/lexer"
	"github.com/huderlem/poryscript/parser"
)

// C20: a program containing "a script label equal to one of that script's generated labels ... is
// rejected with an error reported on the line of the offending construct. It is never compiled
// into something else."
func TestRedTeamC20_1_LabelEqualToGeneratedLabelIsRejected(t *testing.T) {
	input := `
script MyScript {
	lock
	if (flag(FLAG_1)) {
		message()
	}
MyScript_2:
	release
	goto(MyScript_2)
}
`
	p := parser.New(lexer.New(input), parser.CommandConfig{}, "", "", 0, nil)
	program, err := p.ParseProgram()
	if err != nil {
		t.Fatal(err)
	}
	out, err := emitter.New(program, false, false, "").Emit()
	if err == nil {
		t.Fatalf("label MyScript_2 clashes with a generated label of MyScript, but the program was compiled into:\n%s", out)
	}
	pe, ok := err.(parser.ParseError)
	if !ok {
		t.Fatalf("expected a ParseError, got %T: %v", err, err)
	}
	if pe.LineNumberStart != 7 || !strings.Contains(pe.Message, "duplicate script label 'MyScript_2'") {
		t.Fatalf("expected 'duplicate script label' on line 7, got line %d: %s", pe.LineNumberStart, pe.Message)
	}
}
