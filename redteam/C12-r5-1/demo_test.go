// place at: emitter/redteam_c12_1_test.go
package emitter

import (
	"testing"

	"github.com/huderlem/poryscript/lexer"
	"github.com/huderlem/poryscript/parser"
)

func c12r5Compile(t *testing.T, src string, switches map[string]string) string {
	t.Helper()
	p := parser.New(lexer.New(src), parser.CommandConfig{}, "", "", 0, switches)
	program, err := p.ParseProgram()
	if err != nil {
		t.Fatalf("program does not compile: %s\n%s", err.Error(), src)
	}
	out, err := New(program, false, false, "").Emit()
	if err != nil {
		t.Fatalf("program does not emit: %s", err.Error())
	}
	return out
}

// C12: a poryswitch equals the content of the case that matches the -s value. Case labels
// may be numbers (-s LEVEL=2), in all four positions of poryswitch.
func TestRedteamC12NumericCaseLabels(t *testing.T) {
	switches := map[string]string{"LEVEL": "2"}
	withSwitch := `
script S {
	poryswitch(LEVEL) {
		1: msgbox("one")
		2 { msgbox("two") }
		_: msgbox("other")
	}
	applymovement(1, moves(poryswitch(LEVEL) { 1: walk_up 2 { walk_down * 2 } _: walk_left }))
}
text T {
	poryswitch(LEVEL) { 1: "a" 2: ascii"b" _: "c" }
}
mart M {
	poryswitch(LEVEL) { 1: ITEM_A 2 { ITEM_B ITEM_C } _: ITEM_D }
}
`
	replaced := `
script S {
	msgbox("two")
	applymovement(1, moves(walk_down * 2))
}
text T {
	ascii"b"
}
mart M {
	ITEM_B ITEM_C
}
`
	got := c12r5Compile(t, withSwitch, switches)
	want := c12r5Compile(t, replaced, switches)
	if got != want {
		t.Fatalf("poryswitch with numeric case labels differs from the selected content.\n--- got\n%s\n--- want\n%s", got, want)
	}
}
