// place at: emitter/redteam_c05_2_test.go
package emitter

import (
	"regexp"
	"strings"
	"testing"

	"github.com/huderlem/poryscript/lexer"
	"github.com/huderlem/poryscript/parser"
)

// C05: in either form ... no generated sub-label is emitted that nothing refers to.
func TestRedteamC05_2_NoUnreferencedSubLabels(t *testing.T) {
	input := `
script Clerk {
	lock
	if (flag(FLAG_SOLD_OUT)) {
		msgbox("Sorry, we're sold out.")
		release
		end
	} else {
		// nothing special to do yet
	}
	pokemart(Clerk_Items)
	release
}
`
	labelRE := regexp.MustCompile(`^(Clerk_\d+):$`)
	for _, optimize := range []bool{false, true} {
		p := parser.New(lexer.New(input), parser.CommandConfig{}, "", "", 0, nil)
		program, err := p.ParseProgram()
		if err != nil {
			t.Fatalf("optimize=%v: unexpected parse error: %s", optimize, err)
		}
		out, err := New(program, optimize, false, "").Emit()
		if err != nil {
			t.Fatalf("optimize=%v: unexpected emit error: %s", optimize, err)
		}
		lines := strings.Split(out, "\n")
		for _, line := range lines {
			m := labelRE.FindStringSubmatch(line)
			if m == nil {
				continue
			}
			ref := regexp.MustCompile(`\b` + m[1] + `\b`)
			referenced := false
			for _, other := range lines {
				if strings.HasPrefix(other, "\t") && ref.MatchString(other) {
					referenced = true
				}
			}
			if !referenced {
				t.Errorf("optimize=%v: generated sub-label %s is emitted but nothing refers to it:\n%s", optimize, m[1], out)
			}
		}
	}
}
