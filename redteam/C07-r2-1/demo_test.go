// place at: parser/redteam_c07_1_test.go
package parser_test

import (
	"testing"

	"github.com/huderlem/poryscript/parser"
)

// C07: "Every produced line is at most maxLineLength pixels wide, including the cursor overlap on
// lines where the continue-prompt is shown". In a one-line box (numLines=1) every line that is
// followed by more text shows the prompt, so the cursor overlap has to be reserved on each of them.
// TEST font: every character (and the space) is 10 px wide.
func TestRedTeamC07_1_CursorRoomInOneLineBox(t *testing.T) {
	fc := parser.FontConfig{}
	// "aaaa bbbb" is 90 px; with the 20 px cursor overlap it is 110 px > 100, so "bbbb" must wrap.
	got, err := fc.FormatText("aaaa bbbb cc", 100, 20, "TEST", 1)
	if err != nil {
		t.Fatal(err)
	}
	want := "aaaa\\l\nbbbb cc"
	if got != want {
		t.Fatalf("numLines=1, maxLineLength=100, cursorOverlapWidth=20:\n got %q\nwant %q\n(the first line plus the cursor is 110 px wide in a 100 px box)", got, want)
	}
	// the same text in a two-line box is unaffected: second line is the last line of the box
	got2, _ := fc.FormatText("x aaaa bbbb cc", 100, 20, "TEST", 2)
	want2 := "x aaaa\\n\nbbbb cc"
	if got2 != want2 {
		t.Fatalf("numLines=2: got %q want %q", got2, want2)
	}
}
