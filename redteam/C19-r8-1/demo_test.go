// place at: emitter/y5_c19_1_demo_test.go
package emitter

import (
	"testing"

	"github.com/huderlem/poryscript/lexer"
	"github.com/huderlem/poryscript/parser"
)

func y5c19Compile(t *testing.T, src string) string {
	t.Helper()
	p := parser.New(lexer.New(src), parser.CommandConfig{}, "", "", 0, nil)
	program, err := p.ParseProgram()
	if err != nil {
		t.Fatalf("layout variant %q is turned away: %v", src, err)
	}
	out, err := New(program, false, false, "").Emit()
	if err != nil {
		t.Fatalf("layout variant %q is not emitted: %v", src, err)
	}
	return out
}

// C19: inserting a newline between two tokens changes neither the token
// sequence nor the compiled output (no line markers).
func TestY5C19_1_NewlineBeforeParenthesis(t *testing.T) {
	oneLine := "script S { setvar(VAR_1, 2) release }"
	spread := "script S { setvar\n(VAR_1, 2) release }"
	// the token types and literals are the same ...
	a, b := lexer.New(oneLine), lexer.New(spread)
	for {
		x, y := a.NextToken(), b.NextToken()
		if x.Type != y.Type || x.Literal != y.Literal {
			t.Fatalf("token sequences differ: %v / %v", x, y)
		}
		if x.Type == "EOF" {
			break
		}
	}
	// ... and so is what is compiled
	want := y5c19Compile(t, oneLine)
	got := y5c19Compile(t, spread)
	if got != want {
		t.Fatalf("a newline between 'setvar' and '(' changes the output\nwant:\n%s\ngot:\n%s", want, got)
	}
}
