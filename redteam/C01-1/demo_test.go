// place at: emitter/redteam_c01_1_test.go
package emitter

import (
	"regexp"
	"strings"
	"testing"

	"github.com/huderlem/poryscript/lexer"
	"github.com/huderlem/poryscript/parser"
)

// A 'break' out of a loop that is the last statement of its script must leave the
// script (return), exactly like falling out of the loop does. Every label that is
// jumped to must exist, and the last emitted line of a script must not fall off its end.
func TestRedteamC01BreakOutOfLastLoop(t *testing.T) {
	input := `
script MyScript {
	while (flag(FLAG_A)) {
		if (flag(FLAG_B)) {
			break
		}
		foo
	}
}
`
	for _, optimize := range []bool{false, true} {
		l := lexer.New(input)
		p := parser.New(l, parser.CommandConfig{}, "", "", 0, nil)
		program, err := p.ParseProgram()
		if err != nil {
			t.Fatalf("optimize=%v: %s", optimize, err.Error())
		}
		e := New(program, optimize, false, "")
		result, err := e.Emit()
		if err != nil {
			t.Fatalf("optimize=%v: %s", optimize, err.Error())
		}
		checkClosedAndTerminated(t, optimize, result)
	}
}

func checkClosedAndTerminated(t *testing.T, optimize bool, result string) {
	t.Helper()
	defined := map[string]bool{}
	lines := strings.Split(result, "\n")
	for _, line := range lines {
		if m := regexp.MustCompile(`^(\w+):{1,2}$`).FindStringSubmatch(line); m != nil {
			defined[m[1]] = true
		}
	}
	for _, line := range lines {
		if m := regexp.MustCompile(`^\t(?:goto|goto_if_\w+ \w+,|goto_if_\w+|goto_if \d,|case \w+,) ?(\S+)$`).FindStringSubmatch(line); m != nil {
			if !defined[m[1]] {
				t.Errorf("optimize=%v: jump to undefined label %q in line %q\n%s", optimize, m[1], line, result)
			}
		}
	}
	// last instruction must not fall off the end of the script
	last := ""
	for _, line := range lines {
		if strings.TrimSpace(line) != "" {
			last = strings.TrimSpace(line)
		}
	}
	if last != "return" && last != "end" && !strings.HasPrefix(last, "goto ") {
		t.Errorf("optimize=%v: script falls off its end after %q\n%s", optimize, last, result)
	}
}
