// place at: parser/redteam_c18_1_test.go
package parser

import (
	"testing"

	"github.com/huderlem/poryscript/lexer"
)

// C18: "lint mode accepts every program normal mode accepts and never fails because switches or
// fonts are missing."
func TestRedteamC18_1_LintModeNeverFailsForMissingFonts(t *testing.T) {
	for _, input := range []string{
		`text MyText { format("Hello, I am a text that is long enough to be wrapped onto a second line") }`,
		`script S { msgbox(format("Hello there")) }`,
		`script S { msgbox(format("Hello there", maxLineLength=100, numLines=3)) }`,
	} {
		// normal mode, as the command line runs it: the shipped font config, no -f option
		if _, err := New(lexer.New(input), CommandConfig{}, "../font_config.json", "", 0, nil).ParseProgram(); err != nil {
			t.Fatalf("normal mode rejects %q: %v", input, err)
		}
		// lint mode: no font config at all
		if _, err := NewLintParser(lexer.New(input), CommandConfig{}).ParseProgram(); err != nil {
			t.Errorf("lint mode rejects a program that normal mode accepts\n  input: %s\n  error: %v", input, err)
		}
	}
}
