// place at: redteam_c16_1_test.go
package main

import (
	"fmt"
	"os"
	"path/filepath"
	"regexp"
	"strconv"
	"strings"
	"testing"

	"github.com/huderlem/poryscript/emitter"
	"github.com/huderlem/poryscript/lexer"
	"github.com/huderlem/poryscript/parser"
)

// C16: "every marker names the input file and a line number between 1 and the number of source
// lines on which the construct that follows it ... was written" - for programs in any layout
// (comments and blank lines anywhere). The pipeline is the one of main().
func TestRedteamC16_1_MarkersNameTheLineOfTheSourceFile(t *testing.T) {
	source := "\n\n# Route 101 scripts\n\nscript Route101_EventScript_Start {\n\tlock\n\tfaceplayer\n\trelease\n}\n\nmovement Route101_Movement_Flee {\n\twalk_fast_up\n}\n"
	path := filepath.Join(t.TempDir(), "scripts.pory")
	if err := os.WriteFile(path, []byte(source), 0o644); err != nil {
		t.Fatal(err)
	}
	input, err := getInput(path)
	if err != nil {
		t.Fatal(err)
	}
	p := parser.New(lexer.New(input), parser.CommandConfig{}, "", "", 0, nil)
	program, err := p.ParseProgram()
	if err != nil {
		t.Fatal(err)
	}
	out, err := emitter.New(program, false, true, path).Emit()
	if err != nil {
		t.Fatal(err)
	}
	sourceLines := strings.Split(source, "\n")
	marker := regexp.MustCompile(`^# (\d+) "`)
	outLines := strings.Split(out, "\n")
	checked := 0
	for i, l := range outLines {
		m := marker.FindStringSubmatch(l)
		if m == nil || i+1 >= len(outLines) {
			continue
		}
		n, _ := strconv.Atoi(m[1])
		construct := strings.TrimSuffix(strings.TrimSpace(outLines[i+1]), ":") // command, step or label that follows the marker
		if n < 1 || n > len(sourceLines) {
			t.Errorf("marker %q: the file has %d lines", l, len(sourceLines))
			continue
		}
		checked++
		if !strings.Contains(sourceLines[n-1], construct) {
			t.Errorf("marker names line %d for %q, but line %d of the file reads %q", n, construct, n, sourceLines[n-1])
		}
	}
	if checked < 5 {
		t.Fatalf("only %d markers found in\n%s", checked, out)
	}
	_ = fmt.Sprint
}
