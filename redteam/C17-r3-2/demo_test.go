// place at: parser/redteam_c17_2_test.go
package parser

import (
	"runtime/debug"
	"testing"

	"github.com/huderlem/poryscript/lexer"
)

// C17: compiling the same input with the same options always yields byte-identical output,
// or the same error, no matter how many compilations ran before in the same process.
func TestRedteamC17_2_SameErrorEveryTime(t *testing.T) {
	// keep the collector from handing the same addresses out again (only matters for the
	// reliability of this demonstration)
	defer debug.SetGCPercent(debug.SetGCPercent(-1))

	const input = `
script Clerk {
	lock
	poryswitch(GAME_VERSION) {
		RUBY { msgbox("Ruby$") }
		SAPPHIRE { msgbox("Sapphire$") }
	}
	release
}
`
	compile := func() string {
		p := New(lexer.New(input), CommandConfig{}, "", "", 0, map[string]string{"GAME_VERSION": "EMERALD"})
		_, err := p.ParseProgram()
		if err == nil {
			t.Fatal("expected the missing poryswitch case to be reported")
		}
		return err.Error()
	}
	first := compile()
	for i := 0; i < 3; i++ {
		if again := compile(); again != first {
			t.Fatalf("the same input with the same options was rejected with different errors:\n  first: %s\n  later: %s", first, again)
		}
	}
}
