// place at: emitter/redteam_c20_2_test.go
package emitter_test

import (
	"strings"
	"testing"

	"github.com/huderlem/poryscript/emitter"
	"github.com/huderlem/poryscript/lexer"
	"github.com/huderlem/poryscript/parser"
)

// C20: a program containing "a script label equal to one of that script's generated labels ... is
// rejected with an error reported on the line of the offending construct. It is never compiled
// into something else." The entry label (the script's name) is the label of chunk 0.
func TestRedTeamC20_2_LabelEqualToEntryLabelIsRejected(t *testing.T) {
	for _, input := range []string{`
script MyScript {
	lock
MyScript:
	release
}
`, `
mapscripts MyMapScripts {
	MAP_SCRIPT_ON_LOAD {
		lock
MyMapScripts_MAP_SCRIPT_ON_LOAD:
		release
	}
}
`} {
		p := parser.New(lexer.New(input), parser.CommandConfig{}, "", "", 0, nil)
		program, err := p.ParseProgram()
		if err != nil {
			t.Fatal(err)
		}
		out, err := emitter.New(program, false, false, "").Emit()
		if err == nil {
			t.Errorf("a label equal to the script's entry label was accepted; the label is now defined twice:\n%s", out)
			continue
		}
		pe, ok := err.(parser.ParseError)
		if !ok || pe.LineNumberStart != 4 && pe.LineNumberStart != 5 || !strings.Contains(pe.Message, "duplicate script label") {
			t.Errorf("expected 'duplicate script label' at the label, got %v", err)
		}
	}
}
