// place at: parser/x4_c07_4_demo_test.go
package parser

import (
	"io/ioutil"
	"os"
	"path/filepath"
	"testing"
)

// C07: a glyph or control code is as wide as the font config says - also when it says 0;
// the font's "default" width is only for entries the table does not list.
func TestX4C07_4_LoadedTableKeepsZeroWidthEntries(t *testing.T) {
	dir, err := ioutil.TempDir("", "x4c07")
	if err != nil {
		t.Fatal(err)
	}
	defer os.RemoveAll(dir)
	path := filepath.Join(dir, "fonts.json")
	cfg := `{"defaultFontId": "f", "fonts": {"f": {"maxLineLength": 60, "numLines": 2, "cursorOverlapWidth": 0,
		"widths": {"default": 10, " ": 10, "{KUN}": 0, "$": 0}}}}`
	if err := ioutil.WriteFile(path, []byte(cfg), 0644); err != nil {
		t.Fatal(err)
	}
	fc, err := LoadFontConfig(path)
	if err != nil {
		t.Fatal(err)
	}
	// 30 + 10 + 20 (+0 +0) = 60: fits a 60 pixel line
	got, err := fc.FormatText("aaa {KUN}aa$", 60, 0, "f", 2)
	if err != nil {
		t.Fatal(err)
	}
	if got != "aaa {KUN}aa$" {
		t.Errorf("FormatText = %q, expected one line: {KUN} and $ are listed with width 0", got)
	}
}
