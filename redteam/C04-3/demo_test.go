// place at: emitter/c04_3_demo_test.go
package emitter

import (
	"regexp"
	"strings"
	"testing"

	"github.com/huderlem/poryscript/lexer"
	"github.com/huderlem/poryscript/parser"
)

// C04: every label used by a hoisted text/movement argument is defined in the output.
func TestC04HoistedLabelsAreDefined(t *testing.T) {
	input := `
script Guard {
	lock
	applymovement(OBJ_EVENT_ID_GUARD, moves(
		poryswitch(GAME_VERSION) {
			RUBY { walk_left * 2 }
			_ { }
		}
	))
	waitmovement(0)
	msgbox("Move along.")
	release
}`
	labelDef := regexp.MustCompile(`^([A-Za-z_][A-Za-z0-9_]*)::?$`)
	hoistedRef := regexp.MustCompile(`\b[A-Za-z_][A-Za-z0-9_]*_(?:Text|Movement)_[0-9]+\b`)
	for _, version := range []string{"RUBY", "SAPPHIRE"} {
		for _, optimize := range []bool{false, true} {
			p := parser.New(lexer.New(input), parser.CommandConfig{}, "", "", 0, map[string]string{"GAME_VERSION": version})
			program, err := p.ParseProgram()
			if err != nil {
				t.Fatal(err)
			}
			out, err := New(program, optimize, false, "").Emit()
			if err != nil {
				t.Fatal(err)
			}
			defined := map[string]bool{}
			for _, line := range strings.Split(out, "\n") {
				if m := labelDef.FindStringSubmatch(line); m != nil {
					defined[m[1]] = true
				}
			}
			for _, line := range strings.Split(out, "\n") {
				if !strings.HasPrefix(line, "\t") {
					continue
				}
				for _, ref := range hoistedRef.FindAllString(line, -1) {
					if !defined[ref] {
						t.Errorf("GAME_VERSION=%s optimize=%v: %q uses the hoisted label %s, which the output never defines:\n%s", version, optimize, strings.TrimSpace(line), ref, out)
					}
				}
			}
		}
	}
}
