// place at: emitter/redteam_c18_3_test.go
package emitter

import (
	"strings"
	"testing"

	"github.com/huderlem/poryscript/lexer"
	"github.com/huderlem/poryscript/parser"
)

// C18: "compilation terminates promptly and returns either output or an error value ... A returned
// error carries a line range inside the input with start not after end".
func TestRedteamC18_3_EmitterErrorsAreLocated(t *testing.T) {
	for _, input := range []string{
		// a user label that clashes with a generated chunk label
		"script MyScript {\n\tlock\n\tif (flag(FLAG_A)) {\n\t\trelease\n\t}\nMyScript_1:\n\tend\n}\n",
		// a user label that clashes with a generated text label
		"script MyScript {\n\tmsgbox(\"Hello\")\n\n\nMyScript_Text_0:\n\tend\n}\n",
	} {
		numLines := strings.Count(input, "\n") + 1
		for _, optimize := range []bool{false, true} {
			p := parser.New(lexer.New(input), parser.CommandConfig{}, "", "", 0, nil)
			program, err := p.ParseProgram()
			if err != nil {
				t.Fatalf("parse: %v", err)
			}
			_, err = New(program, optimize, false, "").Emit()
			if err == nil {
				t.Fatalf("expected a label clash to be rejected:\n%s", input)
			}
			pe, ok := err.(parser.ParseError)
			if !ok {
				t.Errorf("the error %q (%T) carries no line range", err.Error(), err)
				continue
			}
			if pe.LineNumberStart < 1 || pe.LineNumberStart > pe.LineNumberEnd || pe.LineNumberEnd > numLines {
				t.Errorf("the error %q has line range %d..%d, input has %d lines", err.Error(), pe.LineNumberStart, pe.LineNumberEnd, numLines)
			}
		}
	}
}
