// place at: parser/redteam_c07_5_test.go
package parser_test

import (
	"testing"

	"github.com/huderlem/poryscript/parser"
)

// C07: "Every produced line is at most maxLineLength pixels wide ... unless it consists of a single
// unbreakable word; a word moves to a new line only when it does not fit".
// TEST font: 10 px per character. "Hello Bulbasaur-sama" is 200 px; the box is 140 px wide.
func TestRedTeamC07_5_LongWordsWrapToo(t *testing.T) {
	fc := parser.FontConfig{}
	got, err := fc.FormatText("Hello Bulbasaur-sama now", 140, 0, "TEST", 2)
	if err != nil {
		t.Fatal(err)
	}
	want := "Hello\\n\nBulbasaur-sama\\l\nnow"
	if got != want {
		t.Fatalf("got %q, want %q (a 200 px line of two words in a 140 px box)", got, want)
	}
}
