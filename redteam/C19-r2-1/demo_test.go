// place at: lexer/redteam_c19_1_test.go
package lexer

import (
	"testing"
	"unicode/utf8"

	"github.com/huderlem/poryscript/token"
)

// C19: "for single-line tokens other than raw strings the end column is start plus length"
// (in bytes and in characters), and the start of the following token is where the previous one
// ended when nothing is written between them.
func TestRedteamC19_1_NumberEndColumnInCharacters(t *testing.T) {
	for _, input := range []string{
		"setvar(VAR_X, ٣٤)",  // ARABIC-INDIC digits: unicode.IsDigit, two bytes each
		"walk_up * ٣\n",
		"x(-１２,0x1F)", // FULLWIDTH digits, three bytes each
	} {
		l := New(input)
		var prev token.Token
		for i := 0; ; i++ {
			tok := l.NextToken()
			if tok.Type == token.EOF {
				break
			}
			if tok.LineNumber == tok.EndLineNumber && tok.Type != token.RAWSTRING && tok.Type != token.STRING {
				if want := tok.StartCharIndex + len(tok.Literal); tok.EndCharIndex != want {
					t.Errorf("%q token %d %q: end byte column %d, want start %d + length %d", input, i, tok.Literal, tok.EndCharIndex, tok.StartCharIndex, len(tok.Literal))
				}
				if want := tok.StartUtf8CharIndex + utf8.RuneCountInString(tok.Literal); tok.EndUtf8CharIndex != want {
					t.Errorf("%q token %d %q: end character column %d, want start %d + length %d", input, i, tok.Literal, tok.EndUtf8CharIndex, tok.StartUtf8CharIndex, utf8.RuneCountInString(tok.Literal))
				}
			}
			// a token that directly follows another one starts where that one ended
			if i > 0 && prev.EndCharIndex == tok.StartCharIndex && prev.EndLineNumber == tok.LineNumber && prev.EndUtf8CharIndex != tok.StartUtf8CharIndex {
				t.Errorf("%q token %d %q: starts at character %d but the token before it ends at character %d (same byte column %d)", input, i, tok.Literal, tok.StartUtf8CharIndex, prev.EndUtf8CharIndex, tok.StartCharIndex)
			}
			prev = tok
		}
	}
}
