// place at: emitter/zz_c06_3_demo_test.go
package emitter_test

import (
	"strings"
	"testing"

	"github.com/huderlem/poryscript/emitter"
	"github.com/huderlem/poryscript/lexer"
	"github.com/huderlem/poryscript/parser"
)

// C06: identical content of the same string type shares one label across the WHOLE FILE —
// scripts, inline map scripts, in whatever order they are written. The same for moves().
func TestC06_3_SharedAcrossScriptsAndMapScripts(t *testing.T) {
	src := `
script A {
	msgbox("Hi$")
	applymovement(1, moves(walk_up walk_down))
}
mapscripts M {
	MAP_SCRIPT_ON_LOAD {
		msgbox("Hi$")
	}
}
script B {
	msgbox("Hi$")
	applymovement(2, moves(walk_up walk_down))
}
`
	p := parser.New(lexer.New(src), parser.CommandConfig{}, "", "", 0, nil)
	program, err := p.ParseProgram()
	if err != nil {
		t.Fatalf("unexpected parse error: %v", err)
	}
	out, err := emitter.New(program, false, false, "").Emit()
	if err != nil {
		t.Fatalf("unexpected emit error: %v", err)
	}
	if n := strings.Count(out, `.string "Hi$"`); n != 1 {
		t.Errorf("the text \"Hi$\" is defined %d times, expected exactly once:\n%s", n, out)
	}
	if n := strings.Count(out, "\tmsgbox A_Text_0\n"); n != 3 {
		t.Errorf("all three msgbox commands must refer to A_Text_0 (found %d):\n%s", n, out)
	}
	if n := strings.Count(out, "_Movement_0:\n"); n != 1 {
		t.Errorf("the movement (walk_up walk_down) is defined %d times, expected exactly once:\n%s", n, out)
	}
	if !strings.Contains(out, "\tapplymovement 2, A_Movement_0\n") {
		t.Errorf("script B must reuse the label A_Movement_0:\n%s", out)
	}
}
