// place at: parser/x4_c07_3_demo_test.go
package parser

import "testing"

// C07: a word moves to a new line only when it does not fit, and a glyph is as wide as
// the font table says - also when the table says 0 (the shipped tables list "$": 0 and
// "{KUN}": 0).
func TestX4C07_3_ZeroWidthGlyphsTakeNoRoom(t *testing.T) {
	fc := FontConfig{Fonts: map[string]Fonts{"f": {Widths: map[string]int{"$": 0, "^": 0, "a": 10, " ": 10}}}}
	tests := []struct {
		in   string
		max  int
		want string
	}{
		{"aaa aa$", 60, "aaa aa$"},                   // 30 + 10 + 20 + 0 = 60: fits
		{"a^a a^^a", 50, "a^a a^^a"},                 // 20 + 10 + 20 = 50: fits
		{"aaa aa$ aaaa", 60, "aaa aa$\\n\naaaa"},     // the third word is the one that wraps
	}
	for _, tt := range tests {
		got, err := fc.FormatText(tt.in, tt.max, 0, "f", 2)
		if err != nil {
			t.Fatal(err)
		}
		if got != tt.want {
			t.Errorf("FormatText(%q, %d) = %q, expected %q", tt.in, tt.max, got, tt.want)
		}
	}
}
