// place at: lexer/c19_demo3_test.go
package lexer_test

import (
	"testing"
	"unicode/utf8"

	"github.com/huderlem/poryscript/lexer"
	"github.com/huderlem/poryscript/token"
)

// C19: each token's columns, in bytes and in characters, locate it in the source; for a
// single-line token the end column is the start column plus its length.
func TestC19DemoEmptyStringAfterMultiByteCharacters(t *testing.T) {
	for _, src := range []string{
		`setname(Pokémon, "")`,
		`メッセージ("")`,
		`msgbox("") # ascii only`,
	} {
		l := lexer.New(src)
		seen := false
		for tok := l.NextToken(); tok.Type != token.EOF; tok = l.NextToken() {
			if tok.Type != token.STRING {
				continue
			}
			seen = true
			if tok.EndCharIndex-tok.StartCharIndex != 2 {
				t.Errorf("%s: the empty literal spans bytes %d..%d, expected a length of 2", src, tok.StartCharIndex, tok.EndCharIndex)
			}
			if tok.EndUtf8CharIndex-tok.StartUtf8CharIndex != 2 {
				t.Errorf("%s: the empty literal spans characters %d..%d, expected a length of 2", src, tok.StartUtf8CharIndex, tok.EndUtf8CharIndex)
			}
			if want := utf8.RuneCountInString(src[:tok.EndCharIndex]); tok.EndUtf8CharIndex != want {
				t.Errorf("%s: the literal ends behind character %d of the line, the token says %d", src, want, tok.EndUtf8CharIndex)
			}
		}
		if !seen {
			t.Fatalf("%s: no STRING token", src)
		}
	}
}
