// place at: emitter/w5_c16_2_demo_test.go
package emitter

import (
	"strings"
	"testing"

	"github.com/huderlem/poryscript/lexer"
	"github.com/huderlem/poryscript/parser"
)

// The marker in front of a map script table entry names the line on which the entry
// (its condition operand) was written, wherever the '{' or ':' that follows it stands.
func TestW5C16_2_MarkerOfTableEntryNamesTheLineOfItsCondition(t *testing.T) {
	input := "mapscripts M {\n" + // 1
		"\tMAP_SCRIPT_ON_FRAME_TABLE [\n" + // 2
		"\t\tVAR_TEMP_0, 0\n" + // 3: first entry
		"\t\t{\n" + // 4
		"\t\t\tlock\n" + // 5
		"\t\t}\n" + // 6
		"\t\tVAR_TEMP_1, 1\n" + // 7: second entry
		"\t\t\t: Other\n" + // 8
		"\t]\n" +
		"}\n"
	p := parser.New(lexer.New(input), parser.CommandConfig{}, "", "", 0, nil)
	program, err := p.ParseProgram()
	if err != nil {
		t.Fatal(err)
	}
	out, err := New(program, false, true, "test.pory").Emit()
	if err != nil {
		t.Fatal(err)
	}
	lines := strings.Split(out, "\n")
	want := map[string]string{
		"\tmap_script_2 VAR_TEMP_0, 0, M_MAP_SCRIPT_ON_FRAME_TABLE_0": "# 3 \"test.pory\"",
		"\tmap_script_2 VAR_TEMP_1, 1, Other":                         "# 7 \"test.pory\"",
	}
	found := 0
	for i, ln := range lines {
		if w, ok := want[ln]; ok {
			found++
			if i == 0 || lines[i-1] != w {
				t.Errorf("marker before %q is %q, want %q", ln, lines[i-1], w)
			}
		}
	}
	if found != 2 {
		t.Fatalf("entries not found in output:\n%s", out)
	}
}
