// place at: emitter/z4_c09_1_demo_test.go
package emitter_test

import (
	"strings"
	"testing"

	"github.com/huderlem/poryscript/emitter"
	"github.com/huderlem/poryscript/lexer"
	"github.com/huderlem/poryscript/parser"
	"github.com/huderlem/poryscript/token"
)

// C09: a text is emitted as one directive per source line and the lines concatenate to the source
// text - for all string contents, multi-part literals included. A part that starts with a blank
// (the usual way to continue a sentence in the next part) keeps that blank.
func TestZ4C09_1_LeadingBlanksOfAStringPartAreKept(t *testing.T) {
	src := `
script MyScript {
	msgbox("Hello,"
	       " world!")
	bufferstring(0, ascii"  padded")
}

text MyText {
	"Total:"
	"  100"
}
`
	// the lexer: the literal is what is written between the quotes
	l := lexer.New(src)
	var lits []string
	for tok := l.NextToken(); tok.Type != token.EOF; tok = l.NextToken() {
		if tok.Type == token.STRING {
			lits = append(lits, tok.Literal)
		}
	}
	wantLits := []string{"Hello,\n world!", "  padded", "Total:\n  100"}
	if strings.Join(lits, "|") != strings.Join(wantLits, "|") {
		t.Errorf("string literals: got %q, want %q", lits, wantLits)
	}

	p := parser.New(lexer.New(src), parser.CommandConfig{}, "", "", 0, nil)
	prog, err := p.ParseProgram()
	if err != nil {
		t.Fatal(err)
	}
	out, err := emitter.New(prog, false, false, "").Emit()
	if err != nil {
		t.Fatal(err)
	}
	for _, want := range []string{
		"\t.string \"Hello,\"\n\t.string \" world!$\"\n",
		"\t.ascii \"  padded\\0\"\n",
		"\t.string \"Total:\"\n\t.string \"  100$\"\n",
	} {
		if !strings.Contains(out, want) {
			t.Errorf("output lacks %q:\n%s", want, out)
		}
	}
}
