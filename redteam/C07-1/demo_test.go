// place at: parser/c07_1_demo_test.go
package parser

import "testing"

// C07: every produced line is at most maxLineLength pixels wide, and a word moves to a
// new line only when it does not fit - for multi-byte characters too.
func TestC07Demo1MultiByteWidths(t *testing.T) {
	// (a) built-in TEST font: every character is 10 pixels wide.
	// "ééé ééé" is 30 + 10 + 30 = 70 pixels wide and fits on one 70-pixel line.
	fc := FontConfig{}
	got, err := fc.FormatText("ééé ééé", 70, 0, "TEST", 2)
	if err != nil {
		t.Fatal(err)
	}
	if want := "ééé ééé"; got != want {
		t.Errorf("TEST font: second word was moved to a new line although it fits: got %q, want %q", got, want)
	}

	// (b) a font table that lists a wide multi-byte glyph.
	// Each word is 4*12 = 48 pixels; two words and a space are 98 > 60 pixels, so they must be split.
	fc2 := FontConfig{
		DefaultFontID: "f",
		Fonts: map[string]Fonts{
			"f": {Widths: map[string]int{"あ": 12, " ": 2, "default": 2}, MaxLineLength: 60, NumLines: 2},
		},
	}
	got, err = fc2.FormatText("ああああ ああああ", 60, 0, "f", 2)
	if err != nil {
		t.Fatal(err)
	}
	if want := "ああああ\\n\nああああ"; got != want {
		t.Errorf("font f: line of 98 pixels produced for maxLineLength 60: got %q, want %q", got, want)
	}
}
