// place at: emitter/zz_c11_3_demo_test.go
package emitter

// Demo for C11-3: an AutoVar command in the condition of do...while appears with the same
// rendering it would have as a statement - including an inline text argument, which is replaced
// by the label of a text that is emitted.

import (
	"strings"
	"testing"

	"github.com/huderlem/poryscript/lexer"
	"github.com/huderlem/poryscript/parser"
)

func TestC11_3_AutoVarCommandInDoWhileConditionKeepsItsText(t *testing.T) {
	zero := 0
	cfg := parser.CommandConfig{AutoVarCommands: map[string]parser.AutoVarCommand{
		"yesnomsg":   {VarName: "VAR_RESULT"},
		"specialvar": {VarNameArgPosition: &zero},
	}}
	compile := func(src string) string {
		p := parser.New(lexer.New(src), cfg, "", "", 0, nil)
		program, err := p.ParseProgram()
		if err != nil {
			t.Fatalf("parse error: %v", err)
		}
		out, err := New(program, false, false, "").Emit()
		if err != nil {
			t.Fatalf("emit error: %v", err)
		}
		return out
	}
	asStatement := compile(`
script MyScript {
    yesnomsg("Again?")
}`)
	if !strings.Contains(asStatement, "\tyesnomsg MyScript_Text_0\n") || !strings.Contains(asStatement, "MyScript_Text_0:\n\t.string \"Again?$\"\n") {
		t.Fatalf("demo broken: the statement form renders as\n%s", asStatement)
	}
	inCondition := compile(`
script MyScript {
    do {
        step
    } while (yesnomsg("Again?") == YES && specialvar(VAR_TEMP_1, AskAgain, "Really?"))
}`)
	for _, want := range []string{
		"\tyesnomsg MyScript_Text_0\n\tcompare VAR_RESULT, YES\n",
		"\tspecialvar VAR_TEMP_1, AskAgain, MyScript_Text_1\n\tcompare VAR_TEMP_1, 0\n",
		"MyScript_Text_0:\n\t.string \"Again?$\"\n",
		"MyScript_Text_1:\n\t.string \"Really?$\"\n",
	} {
		if !strings.Contains(inCondition, want) {
			t.Errorf("the emitted script does not contain %q:\n%s", want, inCondition)
		}
	}
}
