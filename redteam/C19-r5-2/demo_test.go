// place at: lexer/c19_demo2_test.go
package lexer_test

import (
	"strings"
	"testing"

	"github.com/huderlem/poryscript/lexer"
	"github.com/huderlem/poryscript/token"
)

// C19: each token's reported line locates its first character in the source, whatever comments
// and blank lines stand in front of it.
func TestC19DemoLineOfATokenAfterAComment(t *testing.T) {
	src := "# header comment\n" + // line 1
		"script Foo {\n" + // line 2
		"\t// what follows is a command\n" + // line 3
		"\tlock # trailing\n" + // line 4
		"\t# two\n\t// comment lines\n" + // lines 5, 6
		"\tsetvar(VAR_X, 12)\n" + // line 7
		"\t# before a hex number\n" + // line 8
		"\t0x1F\n" + // line 9
		"\t// before a raw block\n" + // line 10
		"\t`rawtext`\n" + // line 11
		"}\n" + // line 12
		"# last line, no line feed" // line 13
	want := map[string]int{"script": 2, "Foo": 2, "lock": 4, "setvar": 7, "VAR_X": 7, "12": 7, "0x1F": 9, "rawtext": 11}
	lines := strings.Split(src, "\n")
	l := lexer.New(src)
	for {
		tok := l.NextToken()
		if line, ok := want[tok.Literal]; ok {
			if tok.LineNumber != line {
				t.Errorf("token %q is written on line %d (%q) but reports line %d", tok.Literal, line, lines[line-1], tok.LineNumber)
			}
			delete(want, tok.Literal)
		}
		if tok.Type == token.EOF {
			if tok.LineNumber != 13 {
				t.Errorf("the end-of-input token reports line %d, the input ends on line 13", tok.LineNumber)
			}
			break
		}
	}
	if len(want) != 0 {
		t.Fatalf("tokens not seen: %v", want)
	}
}
