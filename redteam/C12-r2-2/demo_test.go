// place at: zz_c12_2_demo_test.go
package main

import (
	"strings"
	"testing"

	"github.com/huderlem/poryscript/emitter"
	"github.com/huderlem/poryscript/lexer"
	"github.com/huderlem/poryscript/parser"
)

// C12: a poryswitch contributes exactly the case that matches the -s value of ITS
// switch. The switches are taken from the command line through mapOption.Set, the
// flag.Value behind every '-s NAME=VALUE'.
func TestC12_2_SwitchValueIsTheOneGivenForThatSwitch(t *testing.T) {
	// poryscript -s GAME=SAPPHIRE -s game=RUBY
	switches := make(mapOption)
	for _, arg := range []string{"GAME=SAPPHIRE", "game=RUBY"} {
		if err := switches.Set(arg); err != nil {
			t.Fatalf("-s %s rejected: %v", arg, err)
		}
	}
	src := `
script S {
	poryswitch(GAME) {
		RUBY: ruby_command
		SAPPHIRE: sapphire_command
	}
	poryswitch(game) {
		RUBY: lower_ruby_command
		SAPPHIRE: lower_sapphire_command
	}
}
`
	p := parser.New(lexer.New(src), parser.CommandConfig{}, "", "", 0, switches)
	program, err := p.ParseProgram()
	if err != nil {
		t.Fatalf("unexpected parse error: %v", err)
	}
	out, err := emitter.New(program, false, false, "").Emit()
	if err != nil {
		t.Fatalf("unexpected emit error: %v", err)
	}
	if !strings.Contains(out, "\tsapphire_command\n") || strings.Contains(out, "\truby_command\n") {
		t.Errorf("GAME=SAPPHIRE was given: poryswitch(GAME) must contribute the SAPPHIRE case only; output:\n%s", out)
	}
	if !strings.Contains(out, "\tlower_ruby_command\n") {
		t.Errorf("game=RUBY was given: poryswitch(game) must contribute the RUBY case; output:\n%s", out)
	}

	// poryscript -s game=RUBY : the switch GAME was never given, so poryswitch(GAME) cannot be compiled
	only := make(mapOption)
	only.Set("game=RUBY")
	p = parser.New(lexer.New("script S {\n\tporyswitch(GAME) {\n\t\tRUBY: ruby_command\n\t\t_: other_command\n\t}\n}\n"), parser.CommandConfig{}, "", "", 0, only)
	if _, err := p.ParseProgram(); err == nil {
		t.Errorf("no value was given for switch GAME (only for 'game'): compilation must fail")
	}
}
