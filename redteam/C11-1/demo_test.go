// place at: redteam_c11_1_test.go
package main

import (
	"strings"
	"testing"

	"github.com/huderlem/poryscript/emitter"
	"github.com/huderlem/poryscript/lexer"
	"github.com/huderlem/poryscript/parser"
)

// The command config is read the way the command line tool reads it (-cc command_config.json,
// the file shipped with poryscript and documented in the README). An AutoVar condition must
// compare the configured var: the fixed "var_name", or the argument at "var_name_arg_position".
func TestRedteamC11ConfiguredResultVar(t *testing.T) {
	config := readCommandConfig("command_config.json")
	if len(config.AutoVarCommands) == 0 {
		t.Fatalf("no autovar commands loaded from command_config.json")
	}
	input := `
script MyScript {
	if (checkitem(ITEM_POTION, 1) == TRUE) {
		first
	}
	while (specialvar(VAR_TEMP_3, GetThing) > 2) {
		second
	}
	switch (specialvar(VAR_TEMP_4, GetOther)) {
		case 1: third
	}
}
`
	p := parser.New(lexer.New(input), config, "", "", 0, nil)
	program, err := p.ParseProgram()
	if err != nil {
		t.Fatalf("%s", err.Error())
	}
	result, err := emitter.New(program, false, false, "").Emit()
	if err != nil {
		t.Fatalf("%s", err.Error())
	}
	for _, want := range []string{
		"\tcheckitem ITEM_POTION, 1\n\tcompare VAR_RESULT, TRUE\n",
		"\tspecialvar VAR_TEMP_3, GetThing\n\tcompare VAR_TEMP_3, 2\n",
		"\tspecialvar VAR_TEMP_4, GetOther\n",
		"\tswitch VAR_TEMP_4\n",
	} {
		if !strings.Contains(result, want) {
			t.Errorf("missing %q in\n%s", want, result)
		}
	}
}
