// place at: emitter/redteam_c14_1_test.go
package emitter

import (
	"strings"
	"testing"

	"github.com/huderlem/poryscript/lexer"
	"github.com/huderlem/poryscript/parser"
)

// C14: a movement block - statement or moves() - ends with exactly one step_end, nothing
// being emitted after the first step_end.
func TestRedteamC14x1NothingAfterFirstStepEndInMoves(t *testing.T) {
	src := `
script S {
	applymovement(2, moves(walk_up step_end walk_down))
}
`
	p := parser.New(lexer.New(src), parser.CommandConfig{}, "", "", 0, nil)
	program, err := p.ParseProgram()
	if err != nil {
		t.Fatalf("parse error: %s", err.Error())
	}
	out, err := New(program, false, false, "").Emit()
	if err != nil {
		t.Fatalf("emit error: %s", err.Error())
	}
	want := "S_Movement_0:\n\twalk_up\n\tstep_end\n"
	if !strings.HasSuffix(out, want) {
		t.Errorf("the hoisted movement is not cut at its first step_end.\nwant suffix:\n%s\ngot:\n%s", want, out)
	}
	if strings.Contains(out, "walk_down") {
		t.Errorf("a step written after the first step_end was emitted:\n%s", out)
	}
	// the same list as a movement statement, for comparison
	src2 := `
movement M {
	walk_up step_end walk_down
}
`
	p2 := parser.New(lexer.New(src2), parser.CommandConfig{}, "", "", 0, nil)
	program2, err := p2.ParseProgram()
	if err != nil {
		t.Fatalf("parse error: %s", err.Error())
	}
	out2, err := New(program2, false, false, "").Emit()
	if err != nil {
		t.Fatalf("emit error: %s", err.Error())
	}
	if out2 != "M:\n\twalk_up\n\tstep_end\n" {
		t.Errorf("movement statement: got %q", out2)
	}
}
