// place at: emitter/x4_c15_1_demo_test.go
package emitter

import (
	"strings"
	"testing"

	"github.com/huderlem/poryscript/lexer"
	"github.com/huderlem/poryscript/parser"
)

// C15: a text statement without a scope modifier is exported ('::'), one marked
// (global) is exported, one marked (local) is not - whatever it is called.
func TestX4C15_1_TextScopeAsWritten(t *testing.T) {
	input := `
text _Greeting {
	"Hello$"
}

text(global) _Farewell {
	"Bye$"
}

text(local) _Private {
	"psst$"
}
`
	for _, optimize := range []bool{false, true} {
		p := parser.New(lexer.New(input), parser.CommandConfig{}, "", "", 0, nil)
		program, err := p.ParseProgram()
		if err != nil {
			t.Fatal(err)
		}
		out, err := New(program, optimize, false, "").Emit()
		if err != nil {
			t.Fatal(err)
		}
		for _, want := range []string{"_Greeting::\n", "_Farewell::\n", "_Private:\n"} {
			if !strings.Contains(out, want) {
				t.Errorf("optimize=%v: expected label line %q in output:\n%s", optimize, want, out)
			}
		}
	}
}
