// place at: parser/redteam_c07_2_test.go
package parser_test

import (
	"testing"

	"github.com/huderlem/poryscript/lexer"
	"github.com/huderlem/poryscript/parser"
)

// C07: "Every produced line is at most maxLineLength pixels wide" for maxLineLength values "given
// positionally, by name or through the font config". The -l command-line value (5th argument of
// parser.New) is only the default for format() calls that do not say otherwise.
// TEST font: every character (and the space) is 10 px wide; "aaaa bbbb" = 90 px.
func TestRedTeamC07_2_ExplicitMaxLineLengthBeatsCommandLineDefault(t *testing.T) {
	input := `
text ByName {
	format("aaaa bbbb cccc dddd", "TEST", maxLineLength=90)
}
text ByPosition {
	format("aaaa bbbb cccc dddd", "TEST", 90)
}
text Default {
	format("aaaa bbbb cccc dddd", "TEST")
}
`
	// poryscript -l 200
	p := parser.New(lexer.New(input), parser.CommandConfig{}, "../font_config.json", "", 200, nil)
	program, err := p.ParseProgram()
	if err != nil {
		t.Fatal(err)
	}
	want := map[string]string{
		"ByName":     "aaaa bbbb\\n\ncccc dddd$",
		"ByPosition": "aaaa bbbb\\n\ncccc dddd$",
		"Default":    "aaaa bbbb cccc dddd$",
	}
	for _, text := range program.Texts {
		if text.Value != want[text.Name] {
			t.Errorf("%s: got %q, want %q (a 190 px line in a box the author limited to 90 px)", text.Name, text.Value, want[text.Name])
		}
	}
}
