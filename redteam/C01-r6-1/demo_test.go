// place at: emitter/redteam_c01_1_test.go
package emitter

import (
	"strings"
	"testing"

	"github.com/huderlem/poryscript/lexer"
	"github.com/huderlem/poryscript/parser"
)

// Every command of the source is performed exactly as often as the structured source says:
// a command in front of a 'break' in a switch inside a loop runs once.
func TestRedteamC01_1_CommandBeforeBreakRunsOnce(t *testing.T) {
	input := `
script MyScript {
	while (flag(FLAG_GO)) {
		switch (var(VAR_1)) {
			case 1:
				additem(ITEM_POTION, 1)
				break
			case 2:
				other
		}
	}
}
`
	for _, optimize := range []bool{false, true} {
		p := parser.New(lexer.New(input), parser.CommandConfig{}, "", "", 0, nil)
		program, err := p.ParseProgram()
		if err != nil {
			t.Fatalf("unexpected parse error: %s", err.Error())
		}
		result, err := New(program, optimize, false, "").Emit()
		if err != nil {
			t.Fatalf("unexpected emit error: %s", err.Error())
		}
		if n := strings.Count(result, "\tadditem ITEM_POTION, 1\n"); n != 1 {
			t.Errorf("optimize=%v: 'additem ITEM_POTION, 1' is emitted %d times in the case body, expected once. Got:\n%s", optimize, n, result)
		}
	}
}
