// place at: emitter/c20_3_demo_test.go
package emitter

import (
	"strings"
	"testing"

	"github.com/huderlem/poryscript/lexer"
	"github.com/huderlem/poryscript/parser"
)

// C20: a script label equal to a text label is rejected at the line of the label - in scripts that
// are written inline inside a mapscripts statement too.
func TestC20Demo3LabelEqualsTextLabelInInlineMapScript(t *testing.T) {
	inputs := []struct {
		src  string
		line int
	}{
		{`mapscripts MyMapScripts {
	MAP_SCRIPT_ON_LOAD {
		lock
MyMapScripts_MAP_SCRIPT_ON_LOAD_Text_0:
		msgbox("Hello")
		release
	}
}
`, 4},
		{`mapscripts MyMapScripts {
	MAP_SCRIPT_ON_FRAME_TABLE [
		VAR_TEMP_0, 0 {
			lock
MyText:
			msgbox(MyText)
		}
	]
}

text MyText {
	"Hello"
}
`, 5},
	}
	for i, in := range inputs {
		l := lexer.New(in.src)
		p := parser.New(l, parser.CommandConfig{}, "", "", 0, nil)
		program, err := p.ParseProgram()
		if err != nil {
			t.Fatalf("%d: unexpected parse error: %v", i, err)
		}
		out, err := New(program, false, false, "").Emit()
		if err == nil {
			t.Errorf("%d: label equal to a text label was compiled:\n%s", i, out)
			continue
		}
		pe, ok := err.(parser.ParseError)
		if !ok || pe.LineNumberStart != in.line || !strings.Contains(pe.Message, "duplicate text label") {
			t.Errorf("%d: expected 'duplicate text label' at line %d, got %#v", i, in.line, err)
		}
	}
}
