// place at: parser/redteam5_c20_1_test.go
package parser_test

import (
	"strings"
	"testing"

	"github.com/huderlem/poryscript/lexer"
	"github.com/huderlem/poryscript/parser"
)

// C20: "A program containing ... a text or movement name equal to a generated one ... is rejected with
// an error reported on the line of the offending construct." The lint parser (what the language
// server runs on every keystroke) exists to report exactly these errors.
func TestRedTeam5C20_1_LintParserReportsTextNameClash(t *testing.T) {
	input := `
script Script1 {
	msgbox("Hello")
}
text Script1_Text_0 {
	"MyText$"
}`
	for name, p := range map[string]*parser.Parser{
		"New":           parser.New(lexer.New(input), parser.CommandConfig{}, "", "", 0, nil),
		"NewLintParser": parser.NewLintParser(lexer.New(input), parser.CommandConfig{}),
	} {
		_, err := p.ParseProgram()
		if err == nil {
			t.Errorf("%s: program with a text named like the generated label Script1_Text_0 was accepted", name)
			continue
		}
		pe, ok := err.(parser.ParseError)
		if !ok || pe.LineNumberStart != 5 || !strings.Contains(pe.Message, "duplicate text label 'Script1_Text_0'") {
			t.Errorf("%s: expected the duplicate text label error on line 5, got %v", name, err)
		}
	}
}
