// place at: lexer/redteam_c19_2_test.go
package lexer

import (
	"fmt"
	"strings"
	"testing"

	"github.com/huderlem/poryscript/token"
)

func redteamC19_2Tokens(input string) string {
	l := New(input)
	var sb strings.Builder
	for i := 0; i < 1000; i++ {
		tok := l.NextToken()
		sb.WriteString(fmt.Sprintf("%s(%s) ", tok.Type, tok.Literal))
		if tok.Type == token.EOF {
			break
		}
	}
	return sb.String()
}

// C19: "Inserting or removing spaces, tabs, newlines and '#' or '//' comments between tokens
// never changes the sequence of token types and literals".
func TestRedteamC19_2_CommentsBetweenTokensAreTransparent(t *testing.T) {
	plain := "script S {\n\tlock\n\tsetvar(VAR_DIR, 3)\n\trelease\n}\n"
	want := redteamC19_2Tokens(plain)
	for _, commented := range []string{
		// the same tokens with comments put between them
		"script S {\n\tlock # sprites come from C:\\graphics\\\n\tsetvar(VAR_DIR, 3)\n\trelease\n}\n",
		"script S { // begin \\\n\tlock\n\tsetvar(VAR_DIR, 3) // set \\\n\trelease\n}\n",
		"# +--------+ \\\nscript S {\n\tlock\n\tsetvar(VAR_DIR, 3)\n\trelease\n}\n",
	} {
		if got := redteamC19_2Tokens(commented); got != want {
			t.Errorf("comments between tokens changed the token sequence\n input: %q\n  got: %s\n want: %s", commented, got, want)
		}
	}
}
