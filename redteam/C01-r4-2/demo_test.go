// place at: emitter/zz_c01_2_demo_test.go
package emitter

// Demo for C01-2: an elif whose body is empty still has a condition: when it is true nothing of
// the remaining chain (later elifs, else) may run. Runs the emitted script under every assignment
// of the flags and compares the executed commands with what the structured source does.

import (
	"strconv"
	"strings"
	"testing"

	"github.com/huderlem/poryscript/lexer"
	"github.com/huderlem/poryscript/parser"
)

func TestC01_2_EmptyElifBodyStillGuardsTheRestOfTheChain(t *testing.T) {
	src := `
script MyScript {
    if (flag(FLAG_A)) {
        first
    } elif (flag(FLAG_B)) {
    } elif (flag(FLAG_C)) {
        third
    } else {
        fourth
    }
    after
}`
	for _, optimize := range []bool{false, true} {
		asm := compileC012(t, src, optimize)
		for m := 0; m < 8; m++ {
			a, b, c := m&1 != 0, m&2 != 0, m&4 != 0
			want := "fourth "
			switch {
			case a:
				want = "first "
			case b:
				want = ""
			case c:
				want = "third "
			}
			s := &stateC012{flags: map[string]bool{"FLAG_A": a, "FLAG_B": b, "FLAG_C": c}}
			got := strings.Join(runC012(asm, "MyScript", s), " ")
			exp := want + "after <return>"
			if got != exp {
				t.Errorf("optimize=%v A=%v B=%v C=%v: executed %q, the source executes %q\n%s", optimize, a, b, c, got, exp, asm)
			}
		}
	}
}

// ---- a tiny interpreter for the emitted assembly (demo helper) -------------------------------
// stateC012: the game state the script runs in. Commands listed in onCmd may change it.
type stateC012 struct {
	flags    map[string]bool
	vars     map[string]int
	trainers map[string]bool
	onCmd    func(s *stateC012, line string)
}

// compileC012 compiles src with the given optimize setting.
func compileC012(t *testing.T, src string, optimize bool) string {
	t.Helper()
	zero := 0
	cfg := parser.CommandConfig{AutoVarCommands: map[string]parser.AutoVarCommand{
		"getpartysize": {VarName: "VAR_SIZE"},
		"checkitem":    {VarName: "VAR_RESULT"},
		"specialvar":   {VarNameArgPosition: &zero},
	}}
	p := parser.New(lexer.New(src), cfg, "", "", 0, nil)
	program, err := p.ParseProgram()
	if err != nil {
		t.Fatalf("parse error: %v", err)
	}
	out, err := New(program, optimize, false, "").Emit()
	if err != nil {
		t.Fatalf("emit error: %v", err)
	}
	return out
}

// runC012 executes the assembly from label entry and returns the trace of executed commands
// followed by how the script finished ("<return>", "<end>", "<goto X>" for a jump out of the file,
// "<fell off>" when execution runs past the last line, "<loop>" after 1000 steps).
func runC012(asm, entry string, s *stateC012) []string {
	var lines []string
	labels := map[string]int{}
	for _, l := range strings.Split(asm, "\n") {
		if strings.HasSuffix(l, ":") && !strings.HasPrefix(l, "\t") {
			labels[strings.TrimRight(l, ":")] = len(lines)
			continue
		}
		if strings.TrimSpace(l) != "" {
			lines = append(lines, strings.TrimSpace(l))
		}
	}
	var trace []string
	pc, ok := labels[entry]
	if !ok {
		return []string{"<no entry label>"}
	}
	cmp := 0 // -1, 0, 1: result of the last compare
	flagRes := false
	switchVal := 0
	num := func(x string) int {
		x = strings.TrimSpace(x)
		if v, ok := s.vars[x]; ok {
			return v
		}
		n, _ := strconv.ParseInt(x, 0, 64)
		return int(n)
	}
	jump := func(l string) bool {
		if to, ok := labels[l]; ok {
			pc = to
			return true
		}
		trace = append(trace, "<goto "+l+">")
		return false
	}
	for steps := 0; steps < 1000; steps++ {
		if pc >= len(lines) {
			return append(trace, "<fell off>")
		}
		line := lines[pc]
		pc++
		f := strings.SplitN(line, " ", 2)
		args := []string{}
		if len(f) > 1 {
			for _, a := range strings.Split(f[1], ",") {
				args = append(args, strings.TrimSpace(a))
			}
		}
		cond := false
		isCondGoto := true
		switch f[0] {
		case "return":
			return append(trace, "<return>")
		case "end":
			return append(trace, "<end>")
		case "goto":
			if !jump(args[0]) {
				return trace
			}
			continue
		case "goto_if_set":
			if s.flags[args[0]] && !jump(args[1]) {
				return trace
			}
			continue
		case "goto_if_unset":
			if !s.flags[args[0]] && !jump(args[1]) {
				return trace
			}
			continue
		case "compare", "compare_var_to_value":
			a, b := s.vars[args[0]], num(args[1])
			if f[0] == "compare_var_to_value" {
				n, _ := strconv.ParseInt(args[1], 0, 64)
				b = int(n)
			}
			switch {
			case a < b:
				cmp = -1
			case a > b:
				cmp = 1
			default:
				cmp = 0
			}
			continue
		case "checktrainerflag":
			flagRes = s.trainers[args[0]]
			continue
		case "goto_if":
			if (args[0] == "1") == flagRes && !jump(args[1]) {
				return trace
			}
			continue
		case "switch":
			switchVal = s.vars[args[0]]
			continue
		case "case":
			if num(args[0]) == switchVal && !jump(args[1]) {
				return trace
			}
			continue
		case "goto_if_eq":
			cond = cmp == 0
		case "goto_if_ne":
			cond = cmp != 0
		case "goto_if_lt":
			cond = cmp < 0
		case "goto_if_le":
			cond = cmp <= 0
		case "goto_if_gt":
			cond = cmp > 0
		case "goto_if_ge":
			cond = cmp >= 0
		default:
			isCondGoto = false
		}
		if isCondGoto {
			if cond && !jump(args[0]) {
				return trace
			}
			continue
		}
		trace = append(trace, line)
		if s.onCmd != nil {
			s.onCmd(s, line)
		}
	}
	return append(trace, "<loop>")
}
