// place at: emitter/redteam_v1_c11_2_test.go
package emitter_test

import (
	"encoding/json"
	"io/ioutil"
	"strings"
	"testing"

	"github.com/huderlem/poryscript/emitter"
	"github.com/huderlem/poryscript/lexer"
	"github.com/huderlem/poryscript/parser"
)

// The shipped command_config.json, read the way main.go reads it (-cc): specialvar and
// checkcoins name their result var by argument position 0.
func TestRedteamV1C11_2_ShippedConfigArgPosition(t *testing.T) {
	data, err := ioutil.ReadFile("../command_config.json")
	if err != nil {
		t.Fatal(err)
	}
	var cc parser.CommandConfig
	if err := json.Unmarshal(data, &cc); err != nil {
		t.Fatal(err)
	}
	src := `
script MyScript {
	if (specialvar(VAR_TEMP_3, GetThing) > 2) {
		many
	}
	switch (checkcoins(VAR_TEMP_4)) {
		case 0: broke
	}
}`
	p := parser.New(lexer.New(src), cc, "", "", 0, nil)
	program, err := p.ParseProgram()
	if err != nil {
		t.Fatalf("parse error: %v", err)
	}
	for _, optimize := range []bool{false, true} {
		out, err := emitter.New(program, optimize, false, "").Emit()
		if err != nil {
			t.Fatalf("emit error: %v", err)
		}
		for _, want := range []string{"\tspecialvar VAR_TEMP_3, GetThing\n\tcompare VAR_TEMP_3, 2\n\tgoto_if_gt ", "\tcheckcoins VAR_TEMP_4\n", "\tswitch VAR_TEMP_4\n"} {
			if !strings.Contains(out, want) {
				t.Errorf("optimize=%v: output lacks %q:\n%s", optimize, want, out)
			}
		}
	}
}
