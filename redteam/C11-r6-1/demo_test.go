// place at: emitter/redteam_c11_1_test.go
package emitter

import (
	"strings"
	"testing"

	"github.com/huderlem/poryscript/lexer"
	"github.com/huderlem/poryscript/parser"
)

// A switch written on an AutoVar command runs the command once, immediately before the
// switch compares the result var - also when the switch has nothing but a default case
// (the command, here 'additem', changes the game state).
func TestRedteamC11_1_AutoVarSwitchDefaultOnlyKeepsCommand(t *testing.T) {
	input := `
script MyScript {
	lock
	switch (additem(ITEM_POTION, 2)) {
		default:
			msg
	}
	release
}
`
	for _, optimize := range []bool{false, true} {
		p := parser.New(lexer.New(input), parser.CommandConfig{
			AutoVarCommands: map[string]parser.AutoVarCommand{
				"additem": {VarName: "VAR_RESULT"},
			},
		}, "", "", 0, nil)
		program, err := p.ParseProgram()
		if err != nil {
			t.Fatalf("unexpected parse error: %s", err.Error())
		}
		result, err := New(program, optimize, false, "").Emit()
		if err != nil {
			t.Fatalf("unexpected emit error: %s", err.Error())
		}
		if n := strings.Count(result, "\tadditem ITEM_POTION, 2\n"); n != 1 {
			t.Errorf("optimize=%v: the AutoVar command 'additem ITEM_POTION, 2' is emitted %d times, expected once. Got:\n%s", optimize, n, result)
			continue
		}
		iCmd := strings.Index(result, "\tadditem ITEM_POTION, 2\n")
		iLock := strings.Index(result, "\tlock\n")
		iSwitch := strings.Index(result, "\tswitch VAR_RESULT\n")
		if !(iLock >= 0 && iLock < iCmd && iCmd < iSwitch) {
			t.Errorf("optimize=%v: expected lock, additem, switch VAR_RESULT in this order. Got:\n%s", optimize, result)
		}
	}
}
