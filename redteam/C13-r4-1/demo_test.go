// place at: emitter/redteam_c13_1_test.go
package emitter

import (
	"testing"

	"github.com/huderlem/poryscript/lexer"
	"github.com/huderlem/poryscript/parser"
)

func compileC13x1(input string) (string, error) {
	p := parser.New(lexer.New(input), parser.CommandConfig{}, "../font_config.json", "", 0, nil)
	program, err := p.ParseProgram()
	if err != nil {
		return "", err
	}
	return New(program, false, false, "").Emit()
}

// C13: compiling a program with const definitions yields the same output as the program with every
// later use replaced by the constant's fully expanded value - also in switch case values.
func TestRedteamC13_1_CaseValueWrittenOut(t *testing.T) {
	withConst := `
const WEEKEND = SATURDAY + 1
script MyScript {
	switch (var(VAR_DAY)) {
	case WEEKEND:
		foo()
	case MONDAY:
		bar()
	}
}
`
	writtenOut := `
script MyScript {
	switch (var(VAR_DAY)) {
	case SATURDAY + 1:
		foo()
	case MONDAY:
		bar()
	}
}
`
	a, errA := compileC13x1(withConst)
	if errA != nil {
		t.Fatalf("program with the constant does not compile: %v", errA)
	}
	b, errB := compileC13x1(writtenOut)
	if errB != nil {
		t.Fatalf("the program with the constant compiles, but the same program with the constant's value written out does not: %v", errB)
	}
	if a != b {
		t.Fatalf("outputs differ.\nwith constant:\n%s\nwritten out:\n%s", a, b)
	}
}
