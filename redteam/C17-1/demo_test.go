// place at: parser/c17_1_demo_test.go
package parser

import (
	"io/ioutil"
	"os"
	"path/filepath"
	"testing"

	"github.com/huderlem/poryscript/lexer"
)

// C17: the output of a compilation must not depend on the compilations that ran
// before it in the same process.
func TestC17FontConfigIndependentOfEarlierCompilations(t *testing.T) {
	dir, err := ioutil.TempDir("", "c17demo")
	if err != nil {
		t.Fatal(err)
	}
	defer os.RemoveAll(dir)
	fc := filepath.Join(dir, "fonts.json")
	narrow := `{"defaultFontId":"f","fonts":{"f":{"widths":{"default":1},"maxLineLength":100,"numLines":2}}}`
	wide := `{"defaultFontId":"f","fonts":{"f":{"widths":{"default":30},"maxLineLength":100,"numLines":2}}}`
	input := `text T { format("aaa bbb ccc ddd") }`

	compile := func() string {
		p := New(lexer.New(input), CommandConfig{}, fc, "", 0, nil)
		prog, err := p.ParseProgram()
		if err != nil {
			t.Fatal(err)
		}
		return prog.Texts[0].Value
	}

	// What a fresh process yields for the wide font: computed without going through
	// any process-wide state.
	if err := ioutil.WriteFile(fc, []byte(wide), 0644); err != nil {
		t.Fatal(err)
	}
	cfg := FontConfig{DefaultFontID: "f", Fonts: map[string]Fonts{"f": {Widths: map[string]int{"default": 30}, MaxLineLength: 100, NumLines: 2}}}
	want, err := cfg.FormatText("aaa bbb ccc ddd", 100, 0, "f", 2)
	if err != nil {
		t.Fatal(err)
	}
	want += "$"

	// An earlier compilation in this process, with the same option values but a
	// narrow font behind the -fc path.
	if err := ioutil.WriteFile(fc, []byte(narrow), 0644); err != nil {
		t.Fatal(err)
	}
	_ = compile()

	// The compilation under test.
	if err := ioutil.WriteFile(fc, []byte(wide), 0644); err != nil {
		t.Fatal(err)
	}
	got := compile()
	if got != want {
		t.Fatalf("output depends on an earlier compilation in the process:\n got %q\nwant %q", got, want)
	}
}
