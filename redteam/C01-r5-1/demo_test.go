// place at: emitter/redteam_c01_1_test.go
package emitter

import (
	"testing"

	"github.com/huderlem/poryscript/lexer"
	"github.com/huderlem/poryscript/parser"
)

// Commands that follow a global label in a block are part of the script: they must be
// emitted, in order, after the label (optimize on and off).
func TestRedteamC01CommandsAfterGlobalLabel(t *testing.T) {
	src := "script S {\n\tlock\nEntry(global):\n\tfoo\n\tif (flag(FLAG_A)) {\n\t\tyes\n\t}\n\tbar\n}\n"
	expected := `S::
	lock
Entry::
	foo
	goto_if_set FLAG_A, S_2
S_1:
	bar
	return

S_2:
	yes
	goto S_1

`
	p := parser.New(lexer.New(src), parser.CommandConfig{}, "", "", 0, nil)
	program, err := p.ParseProgram()
	if err != nil {
		t.Fatalf("parse error: %s", err)
	}
	out, err := New(program, true, false, "").Emit()
	if err != nil {
		t.Fatalf("emit error: %s", err)
	}
	if out != expected {
		t.Errorf("optimized output differs.\nExpected:\n%s\nGot:\n%s", expected, out)
	}
}
