// place at: parser/z4_c07_2_demo_test.go
package parser_test

import (
	"os"
	"path/filepath"
	"strings"
	"testing"

	"github.com/huderlem/poryscript/parser"
)

// C07: every produced line is at most maxLineLength pixels wide (unless it is one unbreakable word),
// measured with the widths the font table gives - for every glyph the table lists, '$' included.
func TestZ4C07_2_EveryGlyphOfTheWordIsMeasured(t *testing.T) {
	// built-in TEST font: every character is 10 pixels wide
	fc := parser.FontConfig{}
	got, err := fc.FormatText("aaaa bbbb$", 90, 0, "TEST", 2)
	if err != nil {
		t.Fatal(err)
	}
	// "aaaa bbbb$" is 10 characters = 100 pixels: it does not fit into 90
	if want := "aaaa\\n\nbbbb$"; got != want {
		t.Errorf("TEST font, 90 pixels: got %q, want %q (a line of 100 pixels was produced for a 90 pixel box)", got, want)
	}

	// a font table of its own, loaded from a file
	dir := t.TempDir()
	path := filepath.Join(dir, "fonts.json")
	cfg := `{"defaultFontId":"f","fonts":{"f":{"widths":{"a":6,"b":6," ":3,"$":6},"maxLineLength":50,"numLines":2,"cursorOverlapWidth":0}}}`
	if err := os.WriteFile(path, []byte(cfg), 0o644); err != nil {
		t.Fatal(err)
	}
	loaded, err := parser.LoadFontConfig(path)
	if err != nil {
		t.Fatal(err)
	}
	// "aaaa bbb$" = 24 + 3 + 18 + 6 = 51 pixels > 50
	got, err = loaded.FormatText("aaaa bbb$", 50, 0, "f", 2)
	if err != nil {
		t.Fatal(err)
	}
	for _, line := range strings.Split(got, "\n") {
		line = strings.TrimSuffix(strings.TrimSuffix(line, `\n`), `\l`)
		w := 0
		for _, r := range line {
			w += map[rune]int{'a': 6, 'b': 6, ' ': 3, '$': 6}[r]
		}
		if w > 50 && strings.Contains(line, " ") {
			t.Errorf("line %q is %d pixels wide, the box is 50 (whole text: %q)", line, w, got)
		}
	}
}
