// place at: emitter/z4_c09_2_demo_test.go
package emitter_test

import (
	"strings"
	"testing"

	"github.com/huderlem/poryscript/emitter"
	"github.com/huderlem/poryscript/lexer"
	"github.com/huderlem/poryscript/parser"
)

// C09: a text is emitted as one assembler directive per source line, in order. An empty part ("")
// is a source line of its own.
func TestZ4C09_2_EmptyPartIsALineOfItsOwn(t *testing.T) {
	src := `
text MyText {
	"first"
	""
	"third"
}
`
	p := parser.New(lexer.New(src), parser.CommandConfig{}, "", "", 0, nil)
	prog, err := p.ParseProgram()
	if err != nil {
		t.Fatal(err)
	}
	if got, want := prog.Texts[0].Value, "first\n\nthird$"; got != want {
		t.Errorf("text value: got %q, want %q", got, want)
	}
	out, err := emitter.New(prog, false, false, "").Emit()
	if err != nil {
		t.Fatal(err)
	}
	want := "MyText::\n\t.string \"first\"\n\t.string \"\"\n\t.string \"third$\"\n"
	if !strings.Contains(out, want) {
		t.Errorf("got:\n%s\nwant:\n%s", out, want)
	}
}
