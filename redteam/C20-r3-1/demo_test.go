// place at: parser/x4_c20_1_demo_test.go
package parser

import (
	"strings"
	"testing"

	"github.com/huderlem/poryscript/lexer"
)

// C20: ill-formed control flow is rejected with an error reported on the line of the
// offending construct - also when the construct sits in a poryswitch case.
func TestX4C20_1_ErrorOnTheOffendingLine(t *testing.T) {
	tests := []struct {
		name, input string
		line        int
	}{
		{"break outside a loop", `
script S {
	poryswitch(GAME) {
		RUBY {
			lock
			break
		}
		_ {
			release
		}
	}
}`, 6},
		{"continue not last in its block", `
script S {
	while (flag(FLAG_A)) {
		poryswitch(GAME) {
			RUBY {
				lock
				continue
				release
			}
			_: release
		}
	}
}`, 7},
		{"duplicate case", `
script S {
	poryswitch(GAME) {
		_ {
			switch (var(VAR_X)) {
			case 1:
				lock
			case 2:
				release
			case 1:
				end
			}
		}
	}
}`, 10},
		{"second default", `
script S {
	poryswitch(GAME) {
		SAPPHIRE: lock
		RUBY {
			switch (var(VAR_X)) {
			default:
				lock
			case 2:
				release
			default:
				end
			}
		}
	}
}`, 11},
	}
	for _, tt := range tests {
		p := New(lexer.New(tt.input), CommandConfig{}, "", "", 0, map[string]string{"GAME": "RUBY"})
		_, err := p.ParseProgram()
		if err == nil {
			t.Errorf("%s: accepted", tt.name)
			continue
		}
		pe, ok := err.(ParseError)
		if !ok {
			t.Errorf("%s: error %q carries no source position", tt.name, err.Error())
			continue
		}
		if pe.LineNumberStart != tt.line || !strings.HasPrefix(err.Error(), "line "+itoa(tt.line)+":") {
			t.Errorf("%s: reported on line %d (%q), expected line %d", tt.name, pe.LineNumberStart, err.Error(), tt.line)
		}
	}
}

func itoa(n int) string {
	s := ""
	for ; n > 0; n /= 10 {
		s = string(rune('0'+n%10)) + s
	}
	return s
}
