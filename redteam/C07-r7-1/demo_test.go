// place at: parser/c07_1_demo_test.go
package parser

import (
	"strings"
	"testing"

	"github.com/huderlem/poryscript/lexer"
)

// C07: format() keeps all words in order, nothing is lost. A backslash that is
// not part of a break code (\n \l \p \N) is ordinary text and must survive.
func TestC07_1_BackslashKept(t *testing.T) {
	fc := FontConfig{}
	for _, text := range []string{`abc \xyz def`, `\hello`, `a \. b`} {
		got, err := fc.FormatText(text, 1000, 0, "TEST", 2)
		if err != nil {
			t.Fatal(err)
		}
		if got != text {
			t.Errorf("FormatText(%q) = %q: characters were lost", text, got)
		}
	}
	// through the parser
	src := `script S { msgbox(format("Open \xDoor now")) }`
	p := New(lexer.New(src), CommandConfig{}, "../font_config.json", "TEST", 1000, nil)
	prog, err := p.ParseProgram()
	if err != nil {
		t.Fatal(err)
	}
	if len(prog.Texts) != 1 || !strings.Contains(prog.Texts[0].Value, `\xDoor`) {
		t.Errorf("formatted text lost its backslash: %+v", prog.Texts)
	}
}
