// place at: emitter/redteam_c08_1_test.go
package emitter

import (
	"strings"
	"testing"

	"github.com/huderlem/poryscript/lexer"
	"github.com/huderlem/poryscript/parser"
)

// C08: every table lists its var, value, script triples (as written) in source order.
func TestRedteamC08x1TableEntryValueIsWhatWasWritten(t *testing.T) {
	src := `
mapscripts M {
	MAP_SCRIPT_ON_FRAME_TABLE [
		VAR_STATE, State_Intro: M_OnIntro
		VAR_STATE, 0x1f {
			lock
			release
		}
	]
}
`
	p := parser.New(lexer.New(src), parser.CommandConfig{}, "", "", 0, nil)
	program, err := p.ParseProgram()
	if err != nil {
		t.Fatalf("parse error: %s", err.Error())
	}
	out, err := New(program, false, false, "").Emit()
	if err != nil {
		t.Fatalf("emit error: %s", err.Error())
	}
	want := "M_MAP_SCRIPT_ON_FRAME_TABLE:\n" +
		"\tmap_script_2 VAR_STATE, State_Intro, M_OnIntro\n" +
		"\tmap_script_2 VAR_STATE, 0x1f, M_MAP_SCRIPT_ON_FRAME_TABLE_1\n" +
		"\t.2byte 0\n"
	if !strings.Contains(out, want) {
		t.Errorf("table rows are not the written (var, value, script) triples.\nwant:\n%s\ngot:\n%s", want, out)
	}
}
