// place at: emitter/c10_1_demo_test.go
package emitter

import (
	"strings"
	"testing"

	"github.com/huderlem/poryscript/lexer"
	"github.com/huderlem/poryscript/parser"
)

// A command whose argument holds an empty pair of parentheses inside a nested
// pair must reach the output with all of its tokens, in order.
func TestC10_1_NestedEmptyParens(t *testing.T) {
	input := "script S {\n\tsetvar(VAR_X, max(rand(), 3))\n\tnop\n}"
	p := parser.New(lexer.New(input), parser.CommandConfig{}, "", "", 0, nil)
	program, err := p.ParseProgram()
	if err != nil {
		t.Fatalf("program is rejected: %s", err)
	}
	for _, optimize := range []bool{false, true} {
		out, err := New(program, optimize, false, "").Emit()
		if err != nil {
			t.Fatalf("emit: %s", err)
		}
		want := "S::\n\tsetvar VAR_X, max ( rand ( ), 3 )\n\tnop\n\treturn\n"
		if !strings.HasPrefix(out, want) {
			t.Fatalf("optimize=%v\nwant:\n%s\ngot:\n%s", optimize, want, out)
		}
	}
}
