// place at: emitter/redteam_c12_1_test.go
package emitter

import (
	"testing"

	"github.com/huderlem/poryscript/lexer"
	"github.com/huderlem/poryscript/parser"
)

func compileC12x1(t *testing.T, src string, switches map[string]string) string {
	t.Helper()
	p := parser.New(lexer.New(src), parser.CommandConfig{}, "../font_config.json", "1_latin_frlg", 100, switches)
	program, err := p.ParseProgram()
	if err != nil {
		t.Fatalf("parse error: %s", err.Error())
	}
	out, err := New(program, false, false, "").Emit()
	if err != nil {
		t.Fatalf("emit error: %s", err.Error())
	}
	return out
}

// C12: compiling a program equals compiling the same program with every poryswitch replaced
// by the content of the selected case: no token of any other case influences the output.
func TestRedteamC12x1UnselectedCaseDoesNotInfluenceOutput(t *testing.T) {
	withSwitch := `
script S {
	poryswitch(GAME) {
		RUBY {
			msgbox(format("Redteam c12 one two three four five six seven eight nine ten eleven twelve", numLines=3))
		}
		_ {
			nop
		}
	}
	msgbox(format("Redteam c12 one two three four five six seven eight nine ten eleven twelve", numLines=2))
}
`
	// the same program with the poryswitch replaced by the content of the '_' case
	replaced := `
script S {
	nop
	msgbox(format("Redteam c12 one two three four five six seven eight nine ten eleven twelve", numLines=2))
}
`
	// the literal expectation is computed by hand from the layout rules: two-line boxes scroll
	// with \l from the third line on
	want := "S::\n\tnop\n\tmsgbox S_Text_0\n\treturn\n\n\nS_Text_0:\n" +
		"\t.string \"Redteam c12 one\\n\"\n" +
		"\t.string \"two three four\\l\"\n" +
		"\t.string \"five six seven\\l\"\n" +
		"\t.string \"eight nine ten\\l\"\n" +
		"\t.string \"eleven twelve$\"\n"
	got := compileC12x1(t, withSwitch, map[string]string{"GAME": "SAPPHIRE"})
	if got != want {
		t.Errorf("output with the poryswitch (GAME=SAPPHIRE selects '_') differs from the expected output of the '_' content.\nwant:\n%s\ngot:\n%s", want, got)
	}
	if rep := compileC12x1(t, replaced, map[string]string{"GAME": "SAPPHIRE"}); rep != want {
		t.Errorf("replaced program: want:\n%s\ngot:\n%s", want, rep)
	}
}
