// place at: emitter/redteam_c12_1_test.go
package emitter

import (
	"testing"

	"github.com/huderlem/poryscript/lexer"
	"github.com/huderlem/poryscript/parser"
)

func compileC12x1(t *testing.T, input string, switches map[string]string) (string, error) {
	t.Helper()
	p := parser.New(lexer.New(input), parser.CommandConfig{}, "../font_config.json", "", 0, switches)
	program, err := p.ParseProgram()
	if err != nil {
		return "", err
	}
	return New(program, false, false, "").Emit()
}

// C12: compiling a program equals compiling the same program with every poryswitch replaced by
// the content of the selected case: no token of any other case influences the output.
func TestRedteamC12_1_LabelInUnselectedCase(t *testing.T) {
	withSwitch := `
script MyScript {
	lock
	poryswitch(GAME) {
		RUBY {
			goto(MyScript_Done)
		MyScript_Done:
			release
		}
		_ {
			msgbox("Hi")
		MyScript_Done:
			release
		}
	}
	end
}
`
	replaced := `
script MyScript {
	lock
	msgbox("Hi")
MyScript_Done:
	release
	end
}
`
	switches := map[string]string{"GAME": "SAPPHIRE"}
	want, err := compileC12x1(t, replaced, switches)
	if err != nil {
		t.Fatalf("the program with the poryswitch replaced by its selected case does not compile: %v", err)
	}
	got, err := compileC12x1(t, withSwitch, switches)
	if err != nil {
		t.Fatalf("a label inside the case that is NOT selected makes compilation fail: %v", err)
	}
	if got != want {
		t.Fatalf("output differs from the program with the poryswitch replaced by the selected case.\nwant:\n%s\ngot:\n%s", want, got)
	}
}
