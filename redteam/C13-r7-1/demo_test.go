// place at: emitter/c13_redteam_demo_test.go
package emitter

import (
	"testing"

	"github.com/huderlem/poryscript/lexer"
	"github.com/huderlem/poryscript/parser"
)

func c13Compile(t *testing.T, input string) string {
	p := parser.New(lexer.New(input), parser.CommandConfig{}, "../font_config.json", "", 0, nil)
	program, err := p.ParseProgram()
	if err != nil {
		t.Fatalf("valid program was rejected: %s", err.Error())
	}
	out, err := New(program, false, false, "").Emit()
	if err != nil {
		t.Fatalf("emit failed: %s", err.Error())
	}
	return out
}

// A constant whose value is spelled like its own name (it forwards to the C macro of
// the same name) is an ordinary definition: using it is the same as writing its value.
func TestC13RedteamConstNamedLikeItsValue(t *testing.T) {
	with := c13Compile(t, `
const FLAG_DONE = FLAG_DONE
const LIMIT = 3
script S {
	setflag(FLAG_DONE)
	if (var(VAR_X) == LIMIT) {
		nop
	}
}
`)
	expanded := c13Compile(t, `
script S {
	setflag(FLAG_DONE)
	if (var(VAR_X) == 3) {
		nop
	}
}
`)
	if with != expanded {
		t.Fatalf("output with constants differs from the expanded program.\nwith:\n%s\nexpanded:\n%s", with, expanded)
	}
}
