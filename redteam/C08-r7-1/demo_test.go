// place at: emitter/c08_redteam_demo_test.go
package emitter

import (
	"strings"
	"testing"

	"github.com/huderlem/poryscript/lexer"
	"github.com/huderlem/poryscript/parser"
)

// A map script table whose condition (the var operand) is written with a single
// character - directly, or through a one-letter name - is a perfectly valid table
// entry: the table must list the triple and end with '.2byte 0'.
func TestC08RedteamSingleCharTableCondition(t *testing.T) {
	input := `
mapscripts M {
	MAP_SCRIPT_ON_FRAME_TABLE [
		v, 1: M_Label
		VAR_TEMP_1, 0 {
			lock
		}
	]
}
`
	p := parser.New(lexer.New(input), parser.CommandConfig{}, "../font_config.json", "", 0, nil)
	program, err := p.ParseProgram()
	if err != nil {
		t.Fatalf("valid mapscripts statement was rejected: %s", err.Error())
	}
	out, err := New(program, false, false, "").Emit()
	if err != nil {
		t.Fatalf("emit failed: %s", err.Error())
	}
	want := "M_MAP_SCRIPT_ON_FRAME_TABLE:\n" +
		"\tmap_script_2 v, 1, M_Label\n" +
		"\tmap_script_2 VAR_TEMP_1, 0, M_MAP_SCRIPT_ON_FRAME_TABLE_1\n" +
		"\t.2byte 0\n"
	if !strings.Contains(out, want) {
		t.Fatalf("table not emitted as written.\nwant fragment:\n%s\ngot:\n%s", want, out)
	}
}
