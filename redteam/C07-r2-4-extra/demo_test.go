// place at: parser/redteam_c07_4_test.go
package parser_test

import (
	"os"
	"path/filepath"
	"testing"

	"github.com/huderlem/poryscript/lexer"
	"github.com/huderlem/poryscript/parser"
)

// C07: breaks are "'\n' for the first numLines-1 breaks of a paragraph and '\l' after that" for
// numLines values "given positionally, by name or through the font config". A font whose config
// says numLines = 1 describes a one-line box: every break scrolls ('\l').
func TestRedTeamC07_4_FontConfigNumLinesOne(t *testing.T) {
	cfg := `{
	"defaultFontId": "sign",
	"fonts": {
		"sign": {
			"widths": {"default": 10},
			"maxLineLength": 50,
			"numLines": 1,
			"cursorOverlapWidth": 0
		}
	}
}`
	path := filepath.Join(t.TempDir(), "font_config.json")
	if err := os.WriteFile(path, []byte(cfg), 0o644); err != nil {
		t.Fatal(err)
	}
	input := `
text MyText {
	format("aaa bbb ccc")
}
`
	p := parser.New(lexer.New(input), parser.CommandConfig{}, path, "", 0, nil)
	program, err := p.ParseProgram()
	if err != nil {
		t.Fatal(err)
	}
	got := program.Texts[0].Value
	want := "aaa\\l\nbbb\\l\nccc$"
	if got != want {
		t.Fatalf("font with numLines=1: got %q, want %q (formatted as if the box had 2 lines)", got, want)
	}
}
