// place at: emitter/redteam_c06_1_test.go
package emitter

import (
	"testing"

	"github.com/huderlem/poryscript/lexer"
	"github.com/huderlem/poryscript/parser"
)

// C06: every inline string argument of a command is replaced by a local label that is defined
// exactly once with exactly that content (after terminator processing) - also the empty string,
// whose content is just the terminator. Constants never rewrite text content (C13) either.
func TestRedteamC06EmptyInlineString(t *testing.T) {
	src := `
script S {
	msgbox("", MSGBOX_DEFAULT)
	msgbox("hi")
	message("")
}
`
	p := parser.New(lexer.New(src), parser.CommandConfig{}, "", "", 0, nil)
	program, err := p.ParseProgram()
	if err != nil {
		t.Fatal(err)
	}
	out, err := New(program, false, false, "").Emit()
	if err != nil {
		t.Fatal(err)
	}
	want := `S::
	msgbox S_Text_0, MSGBOX_DEFAULT
	msgbox S_Text_1
	message S_Text_0
	return


S_Text_0:
	.string "$"

S_Text_1:
	.string "hi$"
`
	if out != want {
		t.Fatalf("unexpected output\n--- got\n%s\n--- want\n%s", out, want)
	}
}
