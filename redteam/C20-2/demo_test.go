// place at: parser/c20_2_demo_test.go
package parser

import (
	"testing"

	"github.com/huderlem/poryscript/lexer"
)

// C20: duplicate case values in one switch are rejected at the offending line. Case values are
// compared as they are compiled, i.e. after constant substitution.
func TestC20Demo2DuplicateCaseThroughConstant(t *testing.T) {
	input := `const FOO = 1
script MyScript {
	switch (var(VAR_1)) {
	case 1:
		first()
	case FOO:
		second()
	case FOO:
		third()
	}
}
`
	l := lexer.New(input)
	p := New(l, CommandConfig{}, "", "", 0, nil)
	_, err := p.ParseProgram()
	if err == nil {
		t.Fatalf("a switch with three cases that all compile to 'case 1' was accepted")
	}
	pe, ok := err.(ParseError)
	if !ok || pe.LineNumberStart != 6 {
		t.Fatalf("expected the duplicate to be reported at line 6, got %#v", err)
	}
}
