// place at: parser/redteam_c18_1_test.go
package parser

import (
	"runtime"
	"testing"
	"time"

	"github.com/huderlem/poryscript/lexer"
)

// C18: "compilation terminates promptly ... never ... grows without bound".
// A movement multiplier is a number written in the source. It must be rejected before it sizes
// anything. Here 300,000 stands in for 4000000000000 (which would take the machine down):
// the work done before the error is returned must not be proportional to the number.
func TestRedteamC18MultiplierRejectedBeforeExpansion(t *testing.T) {
	for _, lint := range []bool{false, true} {
		src := "movement M {\n\twalk_up * 300000\n}\n"
		var p *Parser
		if lint {
			p = NewLintParser(lexer.New(src), CommandConfig{})
		} else {
			p = New(lexer.New(src), CommandConfig{}, "", "", 0, nil)
		}
		var before, after runtime.MemStats
		runtime.GC()
		runtime.ReadMemStats(&before)
		start := time.Now()
		_, err := p.ParseProgram()
		elapsed := time.Since(start)
		runtime.ReadMemStats(&after)
		if err == nil {
			t.Fatalf("lint=%v: expected the multiplier to be rejected", lint)
		}
		allocated := after.TotalAlloc - before.TotalAlloc
		// the clean tree allocates a few kilobytes here
		if allocated > 8<<20 {
			t.Errorf("lint=%v: %d MB were allocated (in %v) before '%v' was returned: the multiplier sizes the list before it is range-checked, so 'walk_up * 4000000000000' exhausts memory instead of being answered promptly", lint, allocated>>20, elapsed, err)
		}
	}
}
