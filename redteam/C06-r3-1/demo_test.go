// place at: emitter/redteam_c06_1_test.go
package emitter

import (
	"strings"
	"testing"

	"github.com/huderlem/poryscript/lexer"
	"github.com/huderlem/poryscript/parser"
)

// C06: generated names are '<script>_Text_<n>' numbered per owning script in order of
// first appearance.
func TestRedteamC06x1TextsNumberedInOrderOfAppearance(t *testing.T) {
	src := `
script S {
	twotexts("first", "second")
}
`
	p := parser.New(lexer.New(src), parser.CommandConfig{}, "", "", 0, nil)
	program, err := p.ParseProgram()
	if err != nil {
		t.Fatalf("parse error: %s", err.Error())
	}
	out, err := New(program, false, false, "").Emit()
	if err != nil {
		t.Fatalf("emit error: %s", err.Error())
	}
	if !strings.Contains(out, "\ttwotexts S_Text_0, S_Text_1\n") {
		t.Errorf("arguments are not the labels in order of appearance:\n%s", out)
	}
	if !strings.Contains(out, "S_Text_0:\n\t.string \"first$\"\n") {
		t.Errorf("S_Text_0 does not denote the text that appears first:\n%s", out)
	}
	if !strings.Contains(out, "S_Text_1:\n\t.string \"second$\"\n") {
		t.Errorf("S_Text_1 does not denote the text that appears second:\n%s", out)
	}
}
