// place at: emitter/redteam_c17_3_test.go
package emitter

import (
	"fmt"
	"testing"

	"github.com/huderlem/poryscript/lexer"
	"github.com/huderlem/poryscript/parser"
)

// C17: compiling the same input with the same options yields the same output, or the same
// error, no matter how many compilations ran before in the same process.
func TestRedteamC17_3_ResultDoesNotDependOnEarlierCompilations(t *testing.T) {
	// The command configuration is loaded once by the caller (main.go, a language server) and
	// handed to every parser.
	newConfig := func() parser.CommandConfig {
		pos := -1
		return parser.CommandConfig{AutoVarCommands: map[string]parser.AutoVarCommand{
			"specialvar": {VarNameArgPosition: &pos},
		}}
	}
	compile := func(input string, config parser.CommandConfig) (result string) {
		defer func() {
			if r := recover(); r != nil {
				result = fmt.Sprintf("panic: %v", r)
			}
		}()
		p := parser.New(lexer.New(input), config, "", "", 0, nil)
		program, err := p.ParseProgram()
		if err != nil {
			return "error: " + err.Error()
		}
		out, err := New(program, true, false, "").Emit()
		if err != nil {
			return "error: " + err.Error()
		}
		return out
	}
	first := `
script First {
	if (specialvar(SPECIAL_A, 1, VAR_RESULT) == 1) {
		foo
	}
}
`
	subject := `
script Subject {
	if (specialvar(SPECIAL_B, VAR_0x8004) == 1) {
		bar
	}
}
`
	fresh := compile(subject, newConfig())

	shared := newConfig()
	compile(first, shared)
	afterAnother := compile(subject, shared)

	if fresh != afterAnother {
		t.Fatalf("the same input compiled with the same options gives a different result after another file was compiled in the same process\n--- compiled first\n%s\n--- compiled after another file\n%s", fresh, afterAnother)
	}
}
