// place at: emitter/red_c08_3_test.go
package emitter

import (
	"strings"
	"testing"

	"github.com/huderlem/poryscript/lexer"
	"github.com/huderlem/poryscript/parser"
)

func redC08_3Compile(t *testing.T, input string) (string, error) {
	t.Helper()
	p := parser.New(lexer.New(input), parser.CommandConfig{}, "", "", 0, nil)
	program, err := p.ParseProgram()
	if err != nil {
		t.Fatalf("parse error: %s", err.Error())
	}
	return New(program, false, false, "").Emit()
}

// C08: an inline map script behaves like the same body written as a script statement.
// A label in the body that clashes with a text label is an error in a script statement,
// so it is one in an inline script of a table entry.
func TestRedC08_3_InlineTableScriptLabelClash(t *testing.T) {
	_, errScript := redC08_3Compile(t, `
text Greeting {
	"Hi"
}
script MyMap_OnFrame_0 {
	lock
Greeting:
	release
}
`)
	if errScript == nil || !strings.Contains(errScript.Error(), "Greeting") {
		t.Fatalf("sanity: the script statement form must be rejected because of the label 'Greeting', got %v", errScript)
	}
	out, errInline := redC08_3Compile(t, `
text Greeting {
	"Hi"
}
mapscripts MyMap_MapScripts {
	MAP_SCRIPT_ON_FRAME_TABLE [
		VAR_TEMP_0, 0 {
			lock
		Greeting:
			release
		}
	]
}
`)
	if errInline == nil {
		t.Fatalf("the same body as an inline table script was accepted (script statement: %q); output defines 'Greeting' twice:\n%s", errScript.Error(), out)
	}
	// same message apart from the position
	strip := func(s string) string { return s[strings.Index(s, ":")+1:] }
	if strip(errInline.Error()) != strip(errScript.Error()) {
		t.Fatalf("different errors: script statement %q, inline script %q", errScript.Error(), errInline.Error())
	}
}
