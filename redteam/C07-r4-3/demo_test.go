// place at: parser/z4_c07_3_demo_test.go
package parser_test

import (
	"os"
	"path/filepath"
	"testing"

	"github.com/huderlem/poryscript/lexer"
	"github.com/huderlem/poryscript/parser"
)

// C07: lines are at most maxLineLength pixels wide, measured with the table of the font that was
// asked for: a glyph that font does not list has the font's "default" width.
func TestZ4C07_3_WidthsComeFromTheSelectedFont(t *testing.T) {
	dir := t.TempDir()
	path := filepath.Join(dir, "fonts.json")
	cfg := `{"defaultFontId":"small","fonts":{
		"small":{"widths":{"x":2," ":2},"maxLineLength":60,"numLines":2,"cursorOverlapWidth":0},
		"big":{"widths":{"default":10," ":10},"maxLineLength":60,"numLines":2,"cursorOverlapWidth":0}}}`
	if err := os.WriteFile(path, []byte(cfg), 0o644); err != nil {
		t.Fatal(err)
	}
	src := `text T { format("xxxx xxxx", "big") }`
	p := parser.New(lexer.New(src), parser.CommandConfig{}, path, "", 0, nil)
	prog, err := p.ParseProgram()
	if err != nil {
		t.Fatal(err)
	}
	// in font "big" every x is 10 pixels: "xxxx xxxx" = 90 pixels, the box is 60
	if got, want := prog.Texts[0].Value, "xxxx\\n\nxxxx$"; got != want {
		t.Errorf("got %q, want %q: a 90 pixel line in a 60 pixel box", got, want)
	}
}
