// place at: lexer/redteam_c19_2_test.go
package lexer

import (
	"fmt"
	"strings"
	"testing"

	"github.com/huderlem/poryscript/token"
)

func redteamTokens(src string) string {
	var sb strings.Builder
	l := New(src)
	for {
		tok := l.NextToken()
		sb.WriteString(fmt.Sprintf("%s %q | ", tok.Type, tok.Literal))
		if tok.Type == token.EOF {
			return sb.String()
		}
	}
}

// C19: "Inserting or removing spaces, tabs, newlines and '#' or '//' comments between tokens
// never changes the sequence of token types and literals."
// The layouts below differ only in the white space between the same lexemes, and no comment
// stands between the string literals.
func TestRedteamC19WhitespaceKindBetweenLiteralsDoesNotMatter(t *testing.T) {
	lexemes := []string{"msgbox", "(", `"Hello\n"`, `"World$"`, ",", "MSGBOX_DEFAULT", ")"}
	separators := []string{" ", "\t", "\n", "\r\n", " \n\t", "   "}
	want := redteamTokens(strings.Join(lexemes, "\n"))
	for _, sep := range separators {
		got := redteamTokens(strings.Join(lexemes, sep))
		if got != want {
			t.Errorf("lexemes separated by %q:\n  %s\nlexemes separated by \"\\n\":\n  %s", sep, got, want)
		}
	}
}
