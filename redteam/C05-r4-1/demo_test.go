// place at: emitter/redteam_c05_1_test.go
package emitter

import (
	"strings"
	"testing"

	"github.com/huderlem/poryscript/lexer"
	"github.com/huderlem/poryscript/parser"
)

// C05: the optimized and the unoptimized output behave identically; -optimize only reorders
// code and removes jumps. A switch tests the same values in both forms.
func TestRedteamC05_1_SwitchTestsTheSameValuesInBothForms(t *testing.T) {
	input := `
script S {
	lock
	switch (var(VAR_STARTER)) {
		default:
			msgbox(Text_Other)
		case 1:
		case 2:
	}
	release
}
`
	compile := func(optimize bool) string {
		l := lexer.New(input)
		p := parser.New(l, parser.CommandConfig{}, "", "", 0, nil)
		program, err := p.ParseProgram()
		if err != nil {
			t.Fatalf("unexpected parse error: %s", err.Error())
		}
		out, err := New(program, optimize, false, "").Emit()
		if err != nil {
			t.Fatalf("unexpected emit error: %s", err.Error())
		}
		return out
	}
	caseValues := func(out string) []string {
		var values []string
		for _, line := range strings.Split(out, "\n") {
			if strings.HasPrefix(line, "\tcase ") {
				values = append(values, strings.SplitN(strings.TrimPrefix(line, "\tcase "), ",", 2)[0])
			}
		}
		return values
	}
	plain, optimized := compile(false), compile(true)
	// Values 1 and 2 do nothing (they leave the switch); every other value shows the text.
	// Both forms must therefore test for 1 and 2 before falling into the default body.
	if got := strings.Join(caseValues(plain), " "); got != "1 2" {
		t.Errorf("unoptimized output tests the values [%s], expected [1 2]\n%s", got, plain)
	}
	if got := strings.Join(caseValues(optimized), " "); got != "1 2" {
		t.Errorf("optimized output tests the values [%s], expected [1 2] as in the unoptimized output: with VAR_STARTER == 1 the optimized script shows the text, the unoptimized one does not\n--- unoptimized\n%s\n--- optimized\n%s", got, plain, optimized)
	}
}
