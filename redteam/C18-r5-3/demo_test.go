// place at: emitter/c18_demo3_test.go
package emitter_test

import (
	"errors"
	"testing"

	"github.com/huderlem/poryscript/emitter"
	"github.com/huderlem/poryscript/lexer"
	"github.com/huderlem/poryscript/parser"
)

// C18: compilation returns either output or an error value, and a returned error carries a line
// range inside the input with start not after end.
func TestC18DemoContinueInDoWhile(t *testing.T) {
	input := "script S {\n\tdo {\n\t\tfirst\n\t\tif (flag(FLAG_1)) {\n\t\t\tcontinue\n\t\t}\n\t\tlast\n\t} while (flag(FLAG_2))\n}\n"
	numLines := 9
	for _, optimize := range []bool{false, true} {
		program, err := parser.New(lexer.New(input), parser.CommandConfig{}, "", "", 0, nil).ParseProgram()
		if err == nil {
			_, err = emitter.New(program, optimize, false, "").Emit()
		}
		if err == nil {
			continue // output: fine
		}
		var pe parser.ParseError
		if !errors.As(err, &pe) {
			t.Errorf("optimize=%v: the returned error carries no line range at all: %q", optimize, err.Error())
			continue
		}
		if pe.LineNumberStart < 1 || pe.LineNumberStart > pe.LineNumberEnd || pe.LineNumberEnd > numLines {
			t.Errorf("optimize=%v: error range %d..%d is not inside the %d input lines", optimize, pe.LineNumberStart, pe.LineNumberEnd, numLines)
		}
	}
}
