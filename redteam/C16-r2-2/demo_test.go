// place at: emitter/redteam_c16_2_test.go
package emitter

import (
	"regexp"
	"strconv"
	"strings"
	"testing"

	"github.com/huderlem/poryscript/lexer"
	"github.com/huderlem/poryscript/parser"
)

// C16: "every marker names the input file and a line number between 1 and the number of source
// lines on which the construct that follows it ... was written", and removing the markers gives
// the -lm=false output.
func TestRedteamC16_2_EveryMarkerNamesALineOfTheSource(t *testing.T) {
	input := `script MyScript {
	lock
	switch (var(VAR_STARTER)) {
		case 0:
			msgbox(Text_Treecko)
		case 1:
			msgbox(Text_Torchic)
		default:
			msgbox(Text_Mudkip)
	}
	release
}
`
	numLines := strings.Count(input, "\n") + 1
	marker := regexp.MustCompile(`^# (-?\d+) "test\.pory"$`)
	for _, optimize := range []bool{false, true} {
		parse := func() string {
			t.Helper()
			p := parser.New(lexer.New(input), parser.CommandConfig{}, "", "", 0, nil)
			program, err := p.ParseProgram()
			if err != nil {
				t.Fatal(err)
			}
			out, err := New(program, optimize, true, "test.pory").Emit()
			if err != nil {
				t.Fatal(err)
			}
			return out
		}
		out := parse()
		n := 0
		for _, l := range strings.Split(out, "\n") {
			if !strings.HasPrefix(l, "# ") {
				continue
			}
			m := marker.FindStringSubmatch(l)
			if m == nil {
				t.Errorf("optimize=%v: malformed marker %q", optimize, l)
				continue
			}
			n++
			if line, _ := strconv.Atoi(m[1]); line < 1 || line > numLines {
				t.Errorf("optimize=%v: marker %q names a line outside the source (1..%d)\n%s", optimize, l, numLines, out)
			}
		}
		if n < 5 {
			t.Fatalf("optimize=%v: only %d markers in\n%s", optimize, n, out)
		}
	}
}
