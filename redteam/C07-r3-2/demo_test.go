// place at: parser/x4_c07_2_demo_test.go
package parser

import (
	"strings"
	"testing"
)

// C07: every produced line is at most maxLineLength pixels wide unless it is a
// single unbreakable word. The separating space counts, also when the words in
// front of it have no width (the shipped font config lists "{KUN}": 0).
func TestX4C07_2_SpaceAfterZeroWidthWordIsCounted(t *testing.T) {
	fc := FontConfig{Fonts: map[string]Fonts{"f": {Widths: map[string]int{"{KUN}": 0, "default": 10}}}}
	const max = 40
	width := func(line string) int {
		line = strings.ReplaceAll(line, "{KUN}", "")
		return 10 * len([]rune(line))
	}
	for _, in := range []string{"{KUN} abcd", "ab cd\\p{KUN} abcd ef"} {
		got, err := fc.FormatText(in, max, 0, "f", 2)
		if err != nil {
			t.Fatal(err)
		}
		for _, line := range strings.Split(got, "\n") {
			for _, code := range []string{`\n`, `\l`, `\p`} {
				line = strings.TrimSuffix(line, code)
			}
			if w := width(line); w > max && strings.Contains(line, " ") {
				t.Errorf("FormatText(%q, %d): line %q is %d pixels wide and is not a single word (whole result %q)", in, max, line, w, got)
			}
		}
	}
	if got, _ := fc.FormatText("{KUN} abcd", max, 0, "f", 2); got != "{KUN}\\n\nabcd" {
		t.Errorf("expected the second word to move to the next line, got %q", got)
	}
}
