// place at: main_test.go
package main

import (
	"os"
	"strings"
	"testing"

	"github.com/huderlem/poryscript/emitter"
	"github.com/huderlem/poryscript/lexer"
	"github.com/huderlem/poryscript/parser"
)

// C16: "Without an input path no markers are emitted."
// The program text comes from standard input (no -i option); -lm is on (its default).
// The options are obtained exactly as main() obtains them and handed to the emitter
// exactly as main() hands them on.
func TestRedteamC16NoMarkersWithoutInputPath(t *testing.T) {
	oldArgs := os.Args
	defer func() { os.Args = oldArgs }()
	os.Args = []string{"poryscript", "-lm=true", "-optimize=false"}
	opts := parseOptions()

	src := "script S {\n\tlock\n\tmsgbox(\"Hi\")\n\trelease\n}\n\nraw `\nfoo:\n\t.byte 0`\n"
	compile := func(lm bool, path string) string {
		p := parser.New(lexer.New(src), parser.CommandConfig{}, "", "", 0, nil)
		program, err := p.ParseProgram()
		if err != nil {
			t.Fatal(err)
		}
		out, err := emitter.New(program, opts.optimize, lm, path).Emit()
		if err != nil {
			t.Fatal(err)
		}
		return out
	}
	withMarkers := compile(opts.enableLineMarkers, opts.inputFilepath)
	plain := compile(false, "")
	if withMarkers != plain {
		t.Errorf("no -i option was given, but the -lm output differs from the -lm=false output.\ninput path handed to the emitter: %q\n-lm output:\n%s", opts.inputFilepath, withMarkers)
	}
	for _, line := range strings.Split(withMarkers, "\n") {
		if strings.HasPrefix(line, "# ") {
			t.Errorf("marker emitted without an input path: %s", line)
		}
	}
}
