// place at: emitter/zz_c11_1_demo_test.go
package emitter

// Demo for C11-1: a switch written on an AutoVar command runs that command once before the
// comparison - whatever the cases contain. (The command is the point of such a statement:
// 'switch (yesnobox(20, 8)) { case YES: case NO: }' shows the box.) The same script written with
// the command as a statement of its own must execute the same commands.

import (
	"strconv"
	"strings"
	"testing"

	"github.com/huderlem/poryscript/lexer"
	"github.com/huderlem/poryscript/parser"
)

func TestC11_1_AutoVarSwitchRunsItsCommandOnce(t *testing.T) {
	autoVar := `
script MyScript {
    before
    switch (getpartysize) {
        case 1:
        case 2:
    }
    while (flag(FLAG_A)) {
        switch (specialvar(VAR_RESULT, ShowBox)) {
            case 0:
        }
        clearflag(FLAG_A)
    }
    after
}`
	written := `
script MyScript {
    before
    getpartysize
    switch (var(VAR_SIZE)) {
        case 1:
        case 2:
    }
    while (flag(FLAG_A)) {
        specialvar(VAR_RESULT, ShowBox)
        switch (var(VAR_RESULT)) {
            case 0:
        }
        clearflag(FLAG_A)
    }
    after
}`
	for _, optimize := range []bool{false, true} {
		for _, a := range []bool{false, true} {
			mk := func() *stateC111 {
				return &stateC111{flags: map[string]bool{"FLAG_A": a}, vars: map[string]int{}, onCmd: func(s *stateC111, line string) {
					if line == "clearflag FLAG_A" {
						s.flags["FLAG_A"] = false
					}
				}}
			}
			got := strings.Join(runC111(compileC111(t, autoVar, optimize), "MyScript", mk()), " | ")
			want := strings.Join(runC111(compileC111(t, written, optimize), "MyScript", mk()), " | ")
			if !strings.Contains(want, "getpartysize") {
				t.Fatalf("demo broken: %q", want)
			}
			if got != want {
				t.Errorf("optimize=%v FLAG_A=%v: the AutoVar form executes %q, the written-out form executes %q", optimize, a, got, want)
			}
		}
	}
}

// ---- a tiny interpreter for the emitted assembly (demo helper) -------------------------------
// stateC111: the game state the script runs in. Commands listed in onCmd may change it.
type stateC111 struct {
	flags    map[string]bool
	vars     map[string]int
	trainers map[string]bool
	onCmd    func(s *stateC111, line string)
}

// compileC111 compiles src with the given optimize setting.
func compileC111(t *testing.T, src string, optimize bool) string {
	t.Helper()
	zero := 0
	cfg := parser.CommandConfig{AutoVarCommands: map[string]parser.AutoVarCommand{
		"getpartysize": {VarName: "VAR_SIZE"},
		"checkitem":    {VarName: "VAR_RESULT"},
		"specialvar":   {VarNameArgPosition: &zero},
	}}
	p := parser.New(lexer.New(src), cfg, "", "", 0, nil)
	program, err := p.ParseProgram()
	if err != nil {
		t.Fatalf("parse error: %v", err)
	}
	out, err := New(program, optimize, false, "").Emit()
	if err != nil {
		t.Fatalf("emit error: %v", err)
	}
	return out
}

// runC111 executes the assembly from label entry and returns the trace of executed commands
// followed by how the script finished ("<return>", "<end>", "<goto X>" for a jump out of the file,
// "<fell off>" when execution runs past the last line, "<loop>" after 1000 steps).
func runC111(asm, entry string, s *stateC111) []string {
	var lines []string
	labels := map[string]int{}
	for _, l := range strings.Split(asm, "\n") {
		if strings.HasSuffix(l, ":") && !strings.HasPrefix(l, "\t") {
			labels[strings.TrimRight(l, ":")] = len(lines)
			continue
		}
		if strings.TrimSpace(l) != "" {
			lines = append(lines, strings.TrimSpace(l))
		}
	}
	var trace []string
	pc, ok := labels[entry]
	if !ok {
		return []string{"<no entry label>"}
	}
	cmp := 0 // -1, 0, 1: result of the last compare
	flagRes := false
	switchVal := 0
	num := func(x string) int {
		x = strings.TrimSpace(x)
		if v, ok := s.vars[x]; ok {
			return v
		}
		n, _ := strconv.ParseInt(x, 0, 64)
		return int(n)
	}
	jump := func(l string) bool {
		if to, ok := labels[l]; ok {
			pc = to
			return true
		}
		trace = append(trace, "<goto "+l+">")
		return false
	}
	for steps := 0; steps < 1000; steps++ {
		if pc >= len(lines) {
			return append(trace, "<fell off>")
		}
		line := lines[pc]
		pc++
		f := strings.SplitN(line, " ", 2)
		args := []string{}
		if len(f) > 1 {
			for _, a := range strings.Split(f[1], ",") {
				args = append(args, strings.TrimSpace(a))
			}
		}
		cond := false
		isCondGoto := true
		switch f[0] {
		case "return":
			return append(trace, "<return>")
		case "end":
			return append(trace, "<end>")
		case "goto":
			if !jump(args[0]) {
				return trace
			}
			continue
		case "goto_if_set":
			if s.flags[args[0]] && !jump(args[1]) {
				return trace
			}
			continue
		case "goto_if_unset":
			if !s.flags[args[0]] && !jump(args[1]) {
				return trace
			}
			continue
		case "compare", "compare_var_to_value":
			a, b := s.vars[args[0]], num(args[1])
			if f[0] == "compare_var_to_value" {
				n, _ := strconv.ParseInt(args[1], 0, 64)
				b = int(n)
			}
			switch {
			case a < b:
				cmp = -1
			case a > b:
				cmp = 1
			default:
				cmp = 0
			}
			continue
		case "checktrainerflag":
			flagRes = s.trainers[args[0]]
			continue
		case "goto_if":
			if (args[0] == "1") == flagRes && !jump(args[1]) {
				return trace
			}
			continue
		case "switch":
			switchVal = s.vars[args[0]]
			continue
		case "case":
			if num(args[0]) == switchVal && !jump(args[1]) {
				return trace
			}
			continue
		case "goto_if_eq":
			cond = cmp == 0
		case "goto_if_ne":
			cond = cmp != 0
		case "goto_if_lt":
			cond = cmp < 0
		case "goto_if_le":
			cond = cmp <= 0
		case "goto_if_gt":
			cond = cmp > 0
		case "goto_if_ge":
			cond = cmp >= 0
		default:
			isCondGoto = false
		}
		if isCondGoto {
			if cond && !jump(args[0]) {
				return trace
			}
			continue
		}
		trace = append(trace, line)
		if s.onCmd != nil {
			s.onCmd(s, line)
		}
	}
	return append(trace, "<loop>")
}
