// place at: emitter/redteam_c10_3_test.go
package emitter

import (
	"strings"
	"testing"

	"github.com/huderlem/poryscript/lexer"
	"github.com/huderlem/poryscript/parser"
)

// C10: every command statement reaches the output as one line ...; commands are never
// dropped, duplicated, merged or reordered relative to each other within a straight-line
// stretch of code. `goto` is a command like any other when the author writes it.
func TestRedteamC10_3_AuthorsGotoIsKept(t *testing.T) {
	input := `
script Gate {
	lock
	goto_if_set(FLAG_GATE_OPEN, Gate_Open)
	msgbox("The gate is locked.")
	goto(Gate_Done)
Gate_Done:
	release
	end
Gate_Open:
	opendoor(3, 4)
	goto(Gate_Done)
}
`
	for _, optimize := range []bool{false, true} {
		p := parser.New(lexer.New(input), parser.CommandConfig{}, "", "", 0, nil)
		program, err := p.ParseProgram()
		if err != nil {
			t.Fatalf("optimize=%v: unexpected parse error: %s", optimize, err)
		}
		out, err := New(program, optimize, false, "").Emit()
		if err != nil {
			t.Fatalf("optimize=%v: unexpected emit error: %s", optimize, err)
		}
		if n := strings.Count(out, "\tgoto Gate_Done\n"); n != 2 {
			t.Errorf("optimize=%v: the script has two goto(Gate_Done) commands, the output has %d:\n%s", optimize, n, out)
		}
		if !strings.Contains(out, "\tmsgbox Gate_Text_0\n\tgoto Gate_Done\nGate_Done:\n\trelease\n") {
			t.Errorf("optimize=%v: commands of the straight-line stretch msgbox / goto / Gate_Done: / release are not all there, in order:\n%s", optimize, out)
		}
	}
}
