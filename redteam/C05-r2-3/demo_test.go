// place at: emitter/zz_demo_test.go
package emitter

import (
	"strings"
	"testing"

	"github.com/huderlem/poryscript/lexer"
	"github.com/huderlem/poryscript/parser"
)

// follow executes the emitted script from its entry label with the given flag value and
// returns the commands executed, including the terminator that ends it.
func follow(t *testing.T, out string, entry string, flagSet bool) string {
	t.Helper()
	lines := strings.Split(out, "\n")
	labels := map[string]int{}
	for i, l := range lines {
		if l != "" && !strings.HasPrefix(l, "\t") {
			labels[strings.TrimRight(l, ":")] = i
		}
	}
	var trace []string
	pc, ok := labels[entry]
	if !ok {
		t.Fatalf("entry %s not found", entry)
	}
	for steps := 0; steps < 1000 && pc < len(lines); steps++ {
		l := lines[pc]
		pc++
		if !strings.HasPrefix(l, "\t") {
			continue
		}
		f := strings.Fields(strings.ReplaceAll(l, ",", " "))
		switch f[0] {
		case "goto":
			pc = labels[f[1]]
		case "goto_if_set":
			if flagSet {
				pc = labels[f[2]]
			}
		case "goto_if_unset":
			if !flagSet {
				pc = labels[f[2]]
			}
		case "end", "return":
			trace = append(trace, f[0])
			return strings.Join(trace, " ")
		default:
			trace = append(trace, f[0])
		}
	}
	return strings.Join(trace, " ") + " <ran off>"
}

// The optimized and unoptimized outputs behave identically from every script entry.
func TestDemoOptimizedBehavesLikeUnoptimized(t *testing.T) {
	input := `
script Door {
	lock
	if (flag(FLAG_KEY)) {
		playse(SE_DOOR)
	}
	release
	if (flag(FLAG_KEY)) {
		warp(MAP_INSIDE)
	}
	end
}
`
	compile := func(opt bool) string {
		l := lexer.New(input)
		p := parser.New(l, parser.CommandConfig{}, "", "", 0, nil)
		program, err := p.ParseProgram()
		if err != nil {
			t.Fatalf("parse: %v", err)
		}
		out, err := New(program, opt, false, "").Emit()
		if err != nil {
			t.Fatalf("emit: %v", err)
		}
		return out
	}
	plain, opt := compile(false), compile(true)
	for _, flag := range []bool{false, true} {
		a, b := follow(t, plain, "Door", flag), follow(t, opt, "Door", flag)
		if a != b {
			t.Errorf("FLAG_KEY=%v: unoptimized executes [%s], optimized executes [%s]\n--- optimized:\n%s", flag, a, b, opt)
		}
	}
}
