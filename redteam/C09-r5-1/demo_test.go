// place at: emitter/redteam5_c09_1_test.go
package emitter

import (
	"strings"
	"testing"

	"github.com/huderlem/poryscript/lexer"
	"github.com/huderlem/poryscript/parser"
)

// C09: "Every text - inline or from a text statement - is emitted under its label as one assembler
// directive per source line ... The directive is .string unless a string-type prefix names another;
// ... none [no terminator] added for other types". An empty literal of a custom string type is a
// text like any other: its label must be defined (a script may refer to it).
func TestRedTeam5C09_1_EmptyTextOfCustomTypeIsEmitted(t *testing.T) {
	input := `
script S {
	loadword(0, Placeholder)
	msgbox(Greeting)
}

text Placeholder {
	name""
}

text Greeting {
	"Hello"
}
`
	p := parser.New(lexer.New(input), parser.CommandConfig{}, "", "", 0, nil)
	program, err := p.ParseProgram()
	if err != nil {
		t.Fatal(err)
	}
	out, err := New(program, false, false, "").Emit()
	if err != nil {
		t.Fatal(err)
	}
	for _, want := range []string{"Placeholder::\n\t.name \"\"\n", "Greeting::\n\t.string \"Hello$\"\n"} {
		if !strings.Contains(out, want) {
			t.Errorf("expected %q in the output, got:\n%s", want, out)
		}
	}
}
