// place at: parser/redteam_c18_3_test.go
package parser

import (
	"testing"
	"time"

	"github.com/huderlem/poryscript/lexer"
)

// C18: "for every input text ... in normal and in lint mode, compilation terminates promptly and
// returns either output or an error value; it never panics, hangs or grows without bound."
func TestRedteamC18FormatLeadingLineBreakTerminates(t *testing.T) {
	for _, tc := range []struct {
		name string
		lint bool
		src  string
	}{
		{"normal, TEST font", false, "script S {\n\tmsgbox(format(\"\\pHello there\", \"TEST\", 100))\n}\n"},
		{"lint, no fonts", true, "text T {\n\tformat(\"\\nWelcome to the world of POKeMON!\")\n}\n"},
	} {
		done := make(chan error, 1)
		go func() {
			var p *Parser
			if tc.lint {
				p = NewLintParser(lexer.New(tc.src), CommandConfig{})
			} else {
				p = New(lexer.New(tc.src), CommandConfig{}, "", "", 0, nil)
			}
			_, err := p.ParseProgram()
			done <- err
		}()
		select {
		case err := <-done:
			if err != nil {
				t.Errorf("%s: unexpected error %v", tc.name, err)
			}
		case <-time.After(3 * time.Second):
			t.Fatalf("%s: ParseProgram did not return within 3s for\n%s(format() of a text that starts with a line break never terminates)", tc.name, tc.src)
		}
	}
}
