// place at: emitter/c04_2_demo_test.go
package emitter

import (
	"regexp"
	"strings"
	"testing"

	"github.com/huderlem/poryscript/lexer"
	"github.com/huderlem/poryscript/parser"
)

// C04: in the output of every accepted program every label is defined exactly once.
func TestC04EntryLabelDefinedOnce(t *testing.T) {
	input := `
script Shop {
	lock
	goto(Shop)
Shop:
	release
	end
}`
	labelDef := regexp.MustCompile(`^([A-Za-z_][A-Za-z0-9_]*)::?$`)
	for _, optimize := range []bool{false, true} {
		p := parser.New(lexer.New(input), parser.CommandConfig{}, "", "", 0, nil)
		program, err := p.ParseProgram()
		if err != nil {
			continue // not accepted: nothing to check
		}
		out, err := New(program, optimize, false, "").Emit()
		if err != nil {
			continue // not accepted: nothing to check
		}
		defs := map[string]int{}
		for _, line := range strings.Split(out, "\n") {
			if m := labelDef.FindStringSubmatch(line); m != nil {
				defs[m[1]]++
			}
		}
		for label, n := range defs {
			if n != 1 {
				t.Errorf("optimize=%v: program accepted, but label %q is defined %d times in the output:\n%s", optimize, label, n, out)
			}
		}
	}
}
