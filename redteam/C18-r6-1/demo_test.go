// place at: parser/c18_1_demo_test.go
package parser

import (
	"strings"
	"testing"

	"github.com/huderlem/poryscript/lexer"
)

// C18: a returned error carries a line range inside the input (1..number of lines), start not after end.
func TestC18_1_UnclosedInlineMapScriptErrorIsLocated(t *testing.T) {
	input := "mapscripts MyMap_MapScripts {\n\tMAP_SCRIPT_ON_LOAD {\n\t\tlock\n\t\trelease\n"
	numLines := strings.Count(input, "\n") + 1
	for _, lint := range []bool{false, true} {
		var p *Parser
		if lint {
			p = NewLintParser(lexer.New(input), CommandConfig{})
		} else {
			p = New(lexer.New(input), CommandConfig{}, "", "", 0, nil)
		}
		_, err := p.ParseProgram()
		if err == nil {
			t.Fatalf("lint=%v: expected an error for the unclosed map script body", lint)
		}
		pe, ok := err.(ParseError)
		if !ok {
			t.Fatalf("lint=%v: expected a ParseError, got %T: %v", lint, err, err)
		}
		if pe.LineNumberStart < 1 || pe.LineNumberEnd > numLines || pe.LineNumberStart > pe.LineNumberEnd {
			t.Errorf("lint=%v: error %q has line range %d..%d, which is not inside the input (lines 1..%d)", lint, pe.Error(), pe.LineNumberStart, pe.LineNumberEnd, numLines)
		}
		if pe.LineNumberStart != 2 {
			t.Errorf("lint=%v: error %q starts on line %d, expected line 2 (the opening brace of the map script body)", lint, pe.Error(), pe.LineNumberStart)
		}
	}
}
