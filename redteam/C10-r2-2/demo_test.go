// place at: emitter/zz_demo_test.go
package emitter

import (
	"strings"
	"testing"

	"github.com/huderlem/poryscript/lexer"
	"github.com/huderlem/poryscript/parser"
)

// A command reaches the output as its name followed by exactly its source argument tokens
// (identifiers, numbers, operators, keywords, nested parentheses), spacing normalised.
func TestDemoKeywordTokensInArguments(t *testing.T) {
	input := `
script Calc {
	setvar(VAR_RESULT, value(3) + 1)
	callnative(Compute, value(VAR_RESULT), true)
	special(value)
}
`
	want := []string{
		"\tsetvar VAR_RESULT, value ( 3 ) + 1",
		"\tcallnative Compute, value ( VAR_RESULT ), true",
		"\tspecial value",
	}
	l := lexer.New(input)
	p := parser.New(l, parser.CommandConfig{}, "", "", 0, nil)
	program, err := p.ParseProgram()
	if err != nil {
		t.Fatalf("parse: %v", err)
	}
	out, err := New(program, false, false, "").Emit()
	if err != nil {
		t.Fatalf("emit: %v", err)
	}
	for _, line := range want {
		if !strings.Contains(out, line+"\n") {
			t.Errorf("missing command line %q in output:\n%s", line, out)
		}
	}
}
