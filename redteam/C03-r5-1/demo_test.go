// place at: emitter/redteam_c03_1_test.go
package emitter

import (
	"strings"
	"testing"

	"github.com/huderlem/poryscript/lexer"
	"github.com/huderlem/poryscript/parser"
)

// 'case 1: case 2: body' - both values select the body; every listed case needs its
// own 'case' line in the rendered switch, whatever the chunk layout is.
func TestRedteamC03EveryCaseHasItsLine(t *testing.T) {
	src := "script S {\n\tswitch (var(VAR_X)) {\n\t\tcase 1:\n\t\tcase 2:\n\t\t\tfoo\n\t}\n\tafter\n}\n"
	p := parser.New(lexer.New(src), parser.CommandConfig{}, "", "", 0, nil)
	program, err := p.ParseProgram()
	if err != nil {
		t.Fatalf("parse error: %s", err)
	}
	expected := `S::
	goto S_2

S_1:
	after
	return

S_2:
	switch VAR_X
	case 1, S_3
	case 2, S_3
	goto S_1

S_3:
	foo
	goto S_1

`
	out, err := New(program, false, false, "").Emit()
	if err != nil {
		t.Fatalf("emit error: %s", err)
	}
	if out != expected {
		t.Errorf("unoptimized output differs.\nExpected:\n%s\nGot:\n%s", expected, out)
	}
	for _, optimize := range []bool{false, true} {
		out, _ := New(program, optimize, false, "").Emit()
		for _, line := range []string{"\tcase 1, S_3\n", "\tcase 2, S_3\n"} {
			if !strings.Contains(out, line) {
				t.Errorf("optimize=%v: missing %q: that value no longer runs the body\n%s", optimize, line, out)
			}
		}
	}
}
