// place at: parser/redteam_c18_2_test.go
package parser

import (
	"testing"

	"github.com/huderlem/poryscript/lexer"
)

// C18: "lint mode accepts every program normal mode accepts and never fails because switches
// or fonts are missing."
func TestRedteamC18LintAcceptsTextPoryswitchWithoutFallback(t *testing.T) {
	src := `
text Greeting {
	poryswitch(LANGUAGE) {
		ENGLISH: "Hello$"
		GERMAN { "Hallo$" }
	}
}

script S {
	msgbox(Greeting)
}
`
	normal := New(lexer.New(src), CommandConfig{}, "", "", 0, map[string]string{"LANGUAGE": "GERMAN"})
	program, err := normal.ParseProgram()
	if err != nil {
		t.Fatalf("normal mode (-s LANGUAGE=GERMAN) rejects the program: %v", err)
	}
	if len(program.Texts) != 1 || program.Texts[0].Value != "Hallo$" {
		t.Fatalf("normal mode: unexpected texts %v", program.Texts)
	}
	lint := NewLintParser(lexer.New(src), CommandConfig{})
	if _, err := lint.ParseProgram(); err != nil {
		t.Errorf("lint mode rejects a program that normal mode accepts (it has no switches, so no case of the poryswitch is chosen): %v", err)
	}
}
