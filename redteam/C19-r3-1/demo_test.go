// place at: lexer/x5_c19_1_demo_test.go
package lexer

import (
	"fmt"
	"strings"
	"testing"

	"github.com/huderlem/poryscript/token"
)

func x5c19_1Tokens(input string) []string {
	l := New(input)
	var out []string
	for {
		tok := l.NextToken()
		out = append(out, fmt.Sprintf("%s %q", tok.Type, tok.Literal))
		if tok.Type == token.EOF || len(out) > 1000 {
			return out
		}
	}
}

// Replacing the white space between two tokens by other white space (blank <-> newline,
// tab, several blanks) must not change the sequence of token types and literals.
func TestX5C19_1_WhitespaceKindBetweenTokensDoesNotMatter(t *testing.T) {
	base := `script S { msgbox("Hello\n"<WS>"World") lock<WS>release format("a"<WS>"TEST") }`
	want := x5c19_1Tokens(strings.ReplaceAll(base, "<WS>", "\n"))
	for _, ws := range []string{" ", "\t", "   ", " \n ", "\r\n", "\n\n\t"} {
		got := x5c19_1Tokens(strings.ReplaceAll(base, "<WS>", ws))
		if strings.Join(got, "|") != strings.Join(want, "|") {
			t.Errorf("layout %q between the tokens changes the token sequence:\n got  %v\n want %v", ws, got, want)
		}
	}
}
