// place at: emitter/redteam_c06_2_test.go
package emitter

import (
	"strings"
	"testing"

	"github.com/huderlem/poryscript/lexer"
	"github.com/huderlem/poryscript/parser"
)

// C06: every inline string of a command is replaced by a local label '<script>_Text_<n>' (numbered
// per owning script in order of first appearance) that is defined with exactly that content.
func TestRedteamC06_2_InlineTextNextToExplicitText(t *testing.T) {
	input := `
text Route1_Text_Greeting {
	"Hello"
}

script MyScript {
	msgbox("Hello")
	msgbox("Goodbye")
}
`
	p := parser.New(lexer.New(input), parser.CommandConfig{}, "../font_config.json", "", 0, nil)
	program, err := p.ParseProgram()
	if err != nil {
		t.Fatal(err)
	}
	out, err := New(program, false, false, "").Emit()
	if err != nil {
		t.Fatal(err)
	}
	for _, want := range []string{
		"MyScript::\n\tmsgbox MyScript_Text_0\n\tmsgbox MyScript_Text_1\n",
		"MyScript_Text_0:\n\t.string \"Hello$\"\n",
		"MyScript_Text_1:\n\t.string \"Goodbye$\"\n",
		"Route1_Text_Greeting::\n\t.string \"Hello$\"\n",
	} {
		if !strings.Contains(out, want) {
			t.Errorf("missing %q in\n%s", want, out)
		}
	}
}
