// place at: emitter/zz_demo_test.go
package emitter

import (
	"strings"
	"testing"

	"github.com/huderlem/poryscript/lexer"
	"github.com/huderlem/poryscript/parser"
)

// Every label used by a hoisted movement argument is defined in the output; so is the label
// of every mart statement.
func TestDemoEmptyListsStillDefineTheirLabels(t *testing.T) {
	input := `
script Guard {
	lock
	applymovement(OBJ_EVENT_ID_GUARD, moves( poryswitch(GAME_VERSION) { RUBY { walk_left * 2 } _ { } } ))
	waitmovement(0)
	pokemart(Guard_Wares)
	release
}

mart Guard_Wares {
	poryswitch(GAME_VERSION) {
		RUBY { ITEM_POTION }
		_ { }
	}
}
`
	for _, version := range []string{"RUBY", "SAPPHIRE"} {
		l := lexer.New(input)
		p := parser.New(l, parser.CommandConfig{}, "", "", 0, map[string]string{"GAME_VERSION": version})
		program, err := p.ParseProgram()
		if err != nil {
			t.Fatalf("parse: %v", err)
		}
		out, err := New(program, true, false, "").Emit()
		if err != nil {
			t.Fatalf("emit: %v", err)
		}
		if !strings.Contains(out, "\tapplymovement OBJ_EVENT_ID_GUARD, Guard_Movement_0\n") {
			t.Fatalf("GAME_VERSION=%s: unexpected command line\n%s", version, out)
		}
		for _, label := range []string{"Guard_Movement_0:", "Guard_Wares:"} {
			n := 0
			for _, line := range strings.Split(out, "\n") {
				if line == label {
					n++
				}
			}
			if n != 1 {
				t.Errorf("GAME_VERSION=%s: label %s defined %d times, want 1\n%s", version, label, n, out)
			}
		}
	}
}
