// place at: emitter/zz_demo_test.go
package emitter

import (
	"sort"
	"strings"
	"testing"

	"github.com/huderlem/poryscript/lexer"
	"github.com/huderlem/poryscript/parser"
)

func compileDemoC05(t *testing.T, input string, optimize bool) string {
	t.Helper()
	l := lexer.New(input)
	p := parser.New(l, parser.CommandConfig{}, "", "", 0, nil)
	program, err := p.ParseProgram()
	if err != nil {
		t.Fatalf("parse: %v", err)
	}
	out, err := New(program, optimize, false, "").Emit()
	if err != nil {
		t.Fatalf("emit: %v", err)
	}
	return out
}

// labels that are not generated sub-labels (<script>_<n>)
func userVisibleLabels(out string, scripts ...string) []string {
	var labels []string
	for _, line := range strings.Split(out, "\n") {
		if line == "" || strings.HasPrefix(line, "\t") || !strings.HasSuffix(line, ":") {
			continue
		}
		name := strings.TrimRight(line, ":")
		generated := false
		for _, s := range scripts {
			if strings.HasPrefix(name, s+"_") && strings.Trim(strings.TrimPrefix(name, s+"_"), "0123456789") == "" {
				generated = true
			}
		}
		if !generated {
			labels = append(labels, name)
		}
	}
	sort.Strings(labels)
	return labels
}

func commandLines(out string) []string {
	var cmds []string
	for _, line := range strings.Split(out, "\n") {
		if strings.HasPrefix(line, "\t") && !strings.HasPrefix(line, "\tgoto ") && !strings.HasPrefix(line, "\t.") {
			cmds = append(cmds, line)
		}
	}
	sort.Strings(cmds)
	return cmds
}

// The optimized and unoptimized outputs define the same user-visible labels; optimisation only
// reorders code and removes jumps.
func TestDemoOptimizeKeepsUserLabels(t *testing.T) {
	input := `
script Shop {
	lock
	if (flag(FLAG_SOLD_OUT)) {
		call(Shop_SayGoodbye)
		release
		end
	} else {
		pokemart(Shop_Items)
		release
		end
	}
Shop_SayGoodbye:
	msgbox("Come again!")
	return
}
`
	plain := compileDemoC05(t, input, false)
	opt := compileDemoC05(t, input, true)
	if a, b := userVisibleLabels(plain, "Shop"), userVisibleLabels(opt, "Shop"); strings.Join(a, ",") != strings.Join(b, ",") {
		t.Errorf("user-visible labels differ: unoptimized %v, optimized %v\n--- optimized output:\n%s", a, b, opt)
	}
	if a, b := commandLines(plain), commandLines(opt); strings.Join(a, "\n") != strings.Join(b, "\n") {
		t.Errorf("commands differ between unoptimized and optimized output:\n%s\n--- vs ---\n%s", strings.Join(a, "\n"), strings.Join(b, "\n"))
	}
}
