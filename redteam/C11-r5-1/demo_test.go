// place at: emitter/redteam_c11_1_test.go
package emitter

import (
	"strings"
	"testing"

	"github.com/huderlem/poryscript/lexer"
	"github.com/huderlem/poryscript/parser"
)

// '!checkitem(ITEM_POTION)' runs the command and then tests its result var for zero,
// exactly like '!var(VAR_RESULT)' preceded by the command.
func TestRedteamC11NegatedAutoVarLeaf(t *testing.T) {
	cfg := parser.CommandConfig{AutoVarCommands: map[string]parser.AutoVarCommand{
		"checkitem": {VarName: "VAR_RESULT"},
	}}
	emit := func(src string) string {
		p := parser.New(lexer.New(src), cfg, "", "", 0, nil)
		program, err := p.ParseProgram()
		if err != nil {
			t.Fatalf("parse error: %s", err)
		}
		out, err := New(program, false, false, "").Emit()
		if err != nil {
			t.Fatalf("emit error: %s", err)
		}
		return out
	}
	got := emit("script S {\n\tif (!checkitem(ITEM_POTION)) {\n\t\tnone\n\t}\n\tafter\n}\n")
	want := "\tcheckitem ITEM_POTION\n\tcompare VAR_RESULT, 0\n\tgoto_if_eq S_2\n"
	if !strings.Contains(got, want) {
		t.Errorf("negated auto-var leaf is not 'command; compare var, 0; goto_if_eq'.\nwant fragment:\n%s\ngot:\n%s", want, got)
	}
	// and the comparison itself is the one '!var(VAR_RESULT)' gets
	plain := emit("script S {\n\tif (!var(VAR_RESULT)) {\n\t\tnone\n\t}\n\tafter\n}\n")
	if strings.Replace(got, "\tcheckitem ITEM_POTION\n", "", 1) != plain {
		t.Errorf("apart from the command, '!checkitem(..)' must be lowered like '!var(VAR_RESULT)'.\n--- autovar:\n%s\n--- var:\n%s", got, plain)
	}
}
