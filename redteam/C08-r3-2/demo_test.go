// place at: emitter/redteam_c08_2_test.go
package emitter

import (
	"strings"
	"testing"

	"github.com/huderlem/poryscript/lexer"
	"github.com/huderlem/poryscript/parser"
)

// C08: every table lists its var, value, script triples in source order.
func TestRedteamC08x2TableRowsInSourceOrder(t *testing.T) {
	src := `
mapscripts M {
	MAP_SCRIPT_ON_FRAME_TABLE [
		VAR_STORY, 3: M_Cutscene
		VAR_INTRO, 0: M_Intro
		VAR_STORY, 4 {
			lock
			release
		}
		VAR_INTRO, 1: M_Intro2
	]
}
`
	p := parser.New(lexer.New(src), parser.CommandConfig{}, "", "", 0, nil)
	program, err := p.ParseProgram()
	if err != nil {
		t.Fatalf("parse error: %s", err.Error())
	}
	out, err := New(program, false, false, "").Emit()
	if err != nil {
		t.Fatalf("emit error: %s", err.Error())
	}
	want := "M_MAP_SCRIPT_ON_FRAME_TABLE:\n" +
		"\tmap_script_2 VAR_STORY, 3, M_Cutscene\n" +
		"\tmap_script_2 VAR_INTRO, 0, M_Intro\n" +
		"\tmap_script_2 VAR_STORY, 4, M_MAP_SCRIPT_ON_FRAME_TABLE_2\n" +
		"\tmap_script_2 VAR_INTRO, 1, M_Intro2\n" +
		"\t.2byte 0\n"
	if !strings.Contains(out, want) {
		t.Errorf("table rows are not listed in source order.\nwant:\n%s\ngot:\n%s", want, out)
	}
}
