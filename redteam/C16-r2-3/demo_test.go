// place at: emitter/redteam_c16_3_test.go
package emitter

import (
	"strings"
	"testing"

	"github.com/huderlem/poryscript/lexer"
	"github.com/huderlem/poryscript/parser"
)

// C16: every marker names the line on which the construct that follows it was written - for
// programs in any layout (constructs spread over lines arbitrarily).
func TestRedteamC16_3_TableEntryMarkerNamesTheLineOfTheEntry(t *testing.T) {
	input := `mapscripts MyMap_MapScripts {
	MAP_SCRIPT_ON_FRAME_TABLE [
		VAR_TEMP_0, 0
		{
			lock
			release
		}
		VAR_TEMP_1, 1   # second state
			: MyMap_OnFrame_Second
	]
}
`
	p := parser.New(lexer.New(input), parser.CommandConfig{}, "", "", 0, nil)
	program, err := p.ParseProgram()
	if err != nil {
		t.Fatal(err)
	}
	out, err := New(program, false, true, "test.pory").Emit()
	if err != nil {
		t.Fatal(err)
	}
	lines := strings.Split(out, "\n")
	want := map[string]string{
		"\tmap_script_2 VAR_TEMP_0, 0, MyMap_MapScripts_MAP_SCRIPT_ON_FRAME_TABLE_0": `# 3 "test.pory"`,
		"\tmap_script_2 VAR_TEMP_1, 1, MyMap_OnFrame_Second":                         `# 8 "test.pory"`,
	}
	found := 0
	for i, l := range lines {
		if w, ok := want[l]; ok {
			found++
			if i == 0 || lines[i-1] != w {
				t.Errorf("the entry %q was written on the line named by %s, but its marker is %q", strings.TrimSpace(l), w, lines[i-1])
			}
		}
	}
	if found != 2 {
		t.Fatalf("table entries not found in output:\n%s", out)
	}
}
