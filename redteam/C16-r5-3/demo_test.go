// place at: emitter/c16_demo3_test.go
package emitter_test

import (
	"strings"
	"testing"

	"github.com/huderlem/poryscript/emitter"
	"github.com/huderlem/poryscript/lexer"
	"github.com/huderlem/poryscript/parser"
)

// C16: every marker names the line on which the construct that follows it (here: a condition
// operand) was written, in any layout.
func TestC16DemoMarkerOfAConditionOperand(t *testing.T) {
	input := "script S {\n" + // 1
		"\tif (flag(\n" + // 2
		"\t\t\tFLAG_RECEIVED_ITEM\n" + // 3  <- the operand
		"\t\t) && var(\n" + // 4
		"\t\t\tVAR_COUNT\n" + // 5  <- the operand
		"\t\t) > 3) {\n" + // 6
		"\t\tnop\n" + // 7
		"\t}\n" + // 8
		"}\n"
	program, err := parser.New(lexer.New(input), parser.CommandConfig{}, "", "", 0, nil).ParseProgram()
	if err != nil {
		t.Fatal(err)
	}
	out, err := emitter.New(program, false, true, "scripts.pory").Emit()
	if err != nil {
		t.Fatal(err)
	}
	lines := strings.Split(out, "\n")
	check := func(prefix string, wantMarker string) {
		for i, line := range lines {
			if strings.HasPrefix(line, prefix) {
				if i == 0 || lines[i-1] != wantMarker {
					t.Errorf("%q is preceded by %q, expected %q", line, lines[i-1], wantMarker)
				}
				return
			}
		}
		t.Fatalf("no line starting with %q in:\n%s", prefix, out)
	}
	check("\tgoto_if_set FLAG_RECEIVED_ITEM", `# 3 "scripts.pory"`)
	check("\tcompare VAR_COUNT, 3", `# 5 "scripts.pory"`)
}
