// place at: emitter/redteam_c06_1_test.go
package emitter

import (
	"strings"
	"testing"

	"github.com/huderlem/poryscript/lexer"
	"github.com/huderlem/poryscript/parser"
)

// C06: generated names are '<script>_Text_<n>', numbered per owning script in order of first
// appearance - also when one of the texts is an argument of an AutoVar command in a condition.
func TestRedteamC06_1_NumberingWithAutoVarCondition(t *testing.T) {
	input := `
script MyScript {
	msgbox("First")
	if (yesnobox("Second") == 1) {
		msgbox("Third")
	}
}
`
	config := parser.CommandConfig{AutoVarCommands: map[string]parser.AutoVarCommand{
		"yesnobox": {VarName: "VAR_RESULT"},
	}}
	p := parser.New(lexer.New(input), config, "../font_config.json", "", 0, nil)
	program, err := p.ParseProgram()
	if err != nil {
		t.Fatal(err)
	}
	out, err := New(program, false, false, "").Emit()
	if err != nil {
		t.Fatal(err)
	}
	for _, want := range []string{
		"MyScript::\n\tmsgbox MyScript_Text_0\n",
		"\tyesnobox MyScript_Text_1\n",
		"\tmsgbox MyScript_Text_2\n",
		"MyScript_Text_0:\n\t.string \"First$\"\n",
		"MyScript_Text_1:\n\t.string \"Second$\"\n",
		"MyScript_Text_2:\n\t.string \"Third$\"\n",
	} {
		if !strings.Contains(out, want) {
			t.Errorf("inline texts are not numbered in order of first appearance: missing %q in\n%s", want, out)
		}
	}
}
