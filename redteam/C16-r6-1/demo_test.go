// place at: emitter/c16_1_demo_test.go
package emitter

import (
	"strings"
	"testing"

	"github.com/huderlem/poryscript/lexer"
	"github.com/huderlem/poryscript/parser"
)

// C16: removing the marker lines from the -lm output gives exactly the -lm=false output.
func TestC16_1_RawBlockWithEmptyLineIsTransparent(t *testing.T) {
	input := "raw `\nLabelA:\n\t.byte 1\n\nLabelB:\n\t.byte 2\n`\n"
	emit := func(lm bool) string {
		p := parser.New(lexer.New(input), parser.CommandConfig{}, "", "", 0, nil)
		program, err := p.ParseProgram()
		if err != nil {
			t.Fatalf("parse: %v", err)
		}
		out, err := New(program, false, lm, "test.pory").Emit()
		if err != nil {
			t.Fatalf("emit: %v", err)
		}
		return out
	}
	with, without := emit(true), emit(false)
	var kept []string
	for _, line := range strings.SplitAfter(with, "\n") {
		if strings.HasPrefix(line, "# ") && strings.HasSuffix(line, " \"test.pory\"\n") {
			continue
		}
		kept = append(kept, line)
	}
	if got := strings.Join(kept, ""); got != without {
		t.Errorf("-lm output without its marker lines differs from the -lm=false output\nwith markers removed: %q\n-lm=false:            %q", got, without)
	}
}
