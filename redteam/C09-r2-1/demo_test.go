// place at: emitter/redteam_c09_1_test.go
package emitter_test

import (
	"strings"
	"testing"

	"github.com/huderlem/poryscript/emitter"
	"github.com/huderlem/poryscript/lexer"
	"github.com/huderlem/poryscript/parser"
)

// C09: "Every text - inline or from a text statement - is emitted ... as one assembler directive
// per source line, in order, and the lines concatenate to the source text."
func TestRedTeamC09_1_TextStatementKeepsItsBlanks(t *testing.T) {
	input := `
script MyScript {
	msgbox("  You got: ")
}

text MyText {
	"  You got: "
}

text MyPrompt {
	"Your total is: "
	"{STR_VAR_1} "
}
`
	p := parser.New(lexer.New(input), parser.CommandConfig{}, "", "", 0, nil)
	program, err := p.ParseProgram()
	if err != nil {
		t.Fatal(err)
	}
	out, err := emitter.New(program, false, false, "").Emit()
	if err != nil {
		t.Fatal(err)
	}
	for _, want := range []string{
		"MyScript_Text_0:\n\t.string \"  You got: $\"\n",
		"MyText::\n\t.string \"  You got: $\"\n",
		"MyPrompt::\n\t.string \"Your total is: \"\n\t.string \"{STR_VAR_1} $\"\n",
	} {
		if !strings.Contains(out, want) {
			t.Errorf("missing\n%s\nin output\n%s", want, out)
		}
	}
}
