// place at: emitter/z4_c09_3_demo_test.go
package emitter_test

import (
	"strings"
	"testing"

	"github.com/huderlem/poryscript/emitter"
	"github.com/huderlem/poryscript/lexer"
	"github.com/huderlem/poryscript/parser"
)

// C09: the emitted lines concatenate to the source text, for all string contents (any characters
// the lexer accepts). U+00A0 (no-break space) is a character of its own - charmaps map it to a
// glyph of its own, and format() must not break a line at it.
func TestZ4C09_3_NoBreakSpaceInsideATextIsKept(t *testing.T) {
	src := "script S {\n\tmsgbox(\"10\u00a0km\")\n}\ntext T { \"Mr.\u00a0Fuji\" }\n"
	p := parser.New(lexer.New(src), parser.CommandConfig{}, "", "", 0, nil)
	prog, err := p.ParseProgram()
	if err != nil {
		t.Fatal(err)
	}
	out, err := emitter.New(prog, false, false, "").Emit()
	if err != nil {
		t.Fatal(err)
	}
	for _, want := range []string{"\t.string \"10\u00a0km$\"\n", "\t.string \"Mr.\u00a0Fuji$\"\n"} {
		if !strings.Contains(out, want) {
			t.Errorf("output lacks %q:\n%q", want, out)
		}
	}
}
