// place at: emitter/redteam_c03_3_test.go
package emitter

import (
	"strings"
	"testing"

	"github.com/huderlem/poryscript/ast"
	"github.com/huderlem/poryscript/lexer"
	"github.com/huderlem/poryscript/parser"
)

// 'default' - wherever it is written - runs exactly when no case matches; written first and
// without a body it shares the body of the next case that has one.
func TestRedteamC03LeadingEmptyDefault(t *testing.T) {
	src := "script S {\n\tswitch (var(VAR_X)) {\n\t\tdefault:\n\t\tcase 1:\n\t\t\tfoo\n\t\tcase 2:\n\t\t\tbar\n\t}\n\tafter\n}\n"
	p := parser.New(lexer.New(src), parser.CommandConfig{}, "", "", 0, nil)
	program, err := p.ParseProgram()
	if err != nil {
		t.Fatalf("parse error: %s", err)
	}
	sw := program.TopLevelStatements[0].(*ast.ScriptStatement).Body.Statements[0].(*ast.SwitchStatement)
	if !sw.Cases[0].IsDefault {
		t.Errorf("the first entry of the case list is the default case, but IsDefault is false")
	}
	expected := `S::
	goto S_2

S_1:
	after
	return

S_2:
	switch VAR_X
	case 1, S_3
	case 2, S_4
S_3:
	foo
	goto S_1

S_4:
	bar
	goto S_1

`
	out, err := New(program, false, false, "").Emit()
	if err != nil {
		t.Fatalf("emit error: %s", err)
	}
	if out != expected {
		t.Errorf("Expected:\n%s\nGot:\n%s", expected, out)
	}
	if strings.Contains(out, "\tcase , ") {
		t.Errorf("a case line without a value was emitted for the default case:\n%s", out)
	}
}
