// place at: emitter/z4_c15_1_demo_test.go
package emitter_test

import (
	"strings"
	"testing"

	"github.com/huderlem/poryscript/emitter"
	"github.com/huderlem/poryscript/lexer"
	"github.com/huderlem/poryscript/parser"
)

// C15: a text is exported ('::') exactly as its scope modifier says, and by the documented default
// (global) when there is none - whatever string type its content has.
func TestZ4C15_1_TypedTextsKeepTheirScope(t *testing.T) {
	src := `
text Greeting { JPN"ohayou" }
text(global) Farewell { Braille"bye" }
text(local) Secret { JPN"himitsu" }
text Plain { "hello" }
`
	p := parser.New(lexer.New(src), parser.CommandConfig{}, "", "", 0, nil)
	prog, err := p.ParseProgram()
	if err != nil {
		t.Fatal(err)
	}
	for _, text := range prog.Texts {
		if want := text.Name != "Secret"; text.IsGlobal != want {
			t.Errorf("program text %s: IsGlobal = %v, want %v", text.Name, text.IsGlobal, want)
		}
	}
	out, err := emitter.New(prog, false, false, "").Emit()
	if err != nil {
		t.Fatal(err)
	}
	for _, want := range []string{"Greeting::\n", "Farewell::\n", "Secret:\n", "Plain::\n"} {
		if !strings.Contains("\n"+out, "\n"+want) {
			t.Errorf("output lacks the label line %q:\n%s", want, out)
		}
	}
}
