// place at: emitter/redteam_c03_2_test.go
package emitter

import (
	"fmt"
	"strings"
	"testing"

	"github.com/huderlem/poryscript/lexer"
	"github.com/huderlem/poryscript/parser"
)

// runC032 interprets the emitted assembly of one script: switch/case/goto/return/end are
// executed, every other line is recorded as an executed command.
func runC032(t *testing.T, asm string, entry string, vars map[string]string) []string {
	t.Helper()
	lines := strings.Split(asm, "\n")
	labels := map[string]int{}
	for i, l := range lines {
		if strings.HasSuffix(l, ":") && !strings.HasPrefix(l, "\t") {
			labels[strings.TrimRight(l, ":")] = i
		}
	}
	pc, ok := labels[entry]
	if !ok {
		t.Fatalf("entry label %s not found in\n%s", entry, asm)
	}
	var trace []string
	switched := ""
	for steps := 0; steps < 1000; steps++ {
		if pc >= len(lines) {
			return append(trace, "<fell off the end>")
		}
		l := strings.TrimSpace(lines[pc])
		pc++
		if l == "" || strings.HasSuffix(l, ":") {
			continue
		}
		f := strings.Fields(strings.ReplaceAll(l, ",", " "))
		jump := func(label string) {
			p, ok := labels[label]
			if !ok {
				t.Fatalf("jump to undefined label %q in\n%s", label, asm)
			}
			pc = p
		}
		switch f[0] {
		case "switch":
			switched = vars[f[1]]
		case "case":
			if f[1] == switched {
				jump(f[2])
			}
		case "goto":
			jump(f[1])
		case "return", "end":
			return append(trace, "<"+f[0]+">")
		default:
			trace = append(trace, l)
		}
	}
	return append(trace, "<no termination>")
}

// 'default' - wherever it is written - runs exactly when no case matches.
func TestRedteamC03DefaultWrittenFirst(t *testing.T) {
	input := `
script MyScript {
	switch (var(VAR_1)) {
		default:
			other
		case 1:
			one
		case 2:
			two
	}
	after
}
`
	want := map[string]string{
		"1": "[one after <return>]",
		"2": "[two after <return>]",
		"7": "[other after <return>]", // no case matches: the default body runs
	}
	for _, optimize := range []bool{false, true} {
		l := lexer.New(input)
		p := parser.New(l, parser.CommandConfig{}, "", "", 0, nil)
		program, err := p.ParseProgram()
		if err != nil {
			t.Fatalf("%s", err.Error())
		}
		e := New(program, optimize, false, "")
		result, err := e.Emit()
		if err != nil {
			t.Fatalf("%s", err.Error())
		}
		for v, w := range want {
			got := fmt.Sprint(runC032(t, result, "MyScript", map[string]string{"VAR_1": v}))
			if got != w {
				t.Errorf("optimize=%v VAR_1=%s: executed %s, want %s\n%s", optimize, v, got, w, result)
			}
		}
	}
}
