// place at: emitter/redteam_v1_c01_3_test.go
package emitter_test

import (
	"fmt"
	"strconv"
	"strings"
	"testing"

	"github.com/huderlem/poryscript/emitter"
	"github.com/huderlem/poryscript/lexer"
	"github.com/huderlem/poryscript/parser"
)

// An if / elif / elif / else chain tests its conditions in the written order and runs the body of
// the first one that holds.
func TestRedteamV1C01_3_ElifChain(t *testing.T) {
	src := `
script MyScript {
	if (flag(FLAG_A)) {
		first
	} elif (flag(FLAG_B)) {
		second
	} elif (flag(FLAG_C)) {
		third
	} elif (flag(FLAG_D)) {
		fourth
	} else {
		otherwise
	}
	after
}`
	for _, optimize := range []bool{false, true} {
		asm := rtCompileC013(t, src, optimize, parser.CommandConfig{})
		for m := 0; m < 16; m++ {
			a, b, c, d := m&1 != 0, m&2 != 0, m&4 != 0, m&8 != 0
			want := "otherwise"
			switch {
			case a:
				want = "first"
			case b:
				want = "second"
			case c:
				want = "third"
			case d:
				want = "fourth"
			}
			want += " | after => return"
			st := rtStateC013{flags: map[string]bool{"FLAG_A": a, "FLAG_B": b, "FLAG_C": c, "FLAG_D": d}, vars: map[string]int{}, trainers: map[string]bool{}}
			trace, fin := rtRunC013(asm, "MyScript", st, 1000)
			got := strings.Join(trace, " | ") + " => " + fin
			if got != want {
				t.Errorf("optimize=%v A=%v B=%v C=%v D=%v:\n got  %s\n want %s", optimize, a, b, c, d, got, want)
			}
		}
	}
}

var _ = fmt.Sprint
// ---- a small interpreter for the emitted assembly (decomp script macros) ----

type rtStateC013 struct {
	flags    map[string]bool
	vars     map[string]int
	trainers map[string]bool
}

func rtCompileC013(t *testing.T, src string, optimize bool, cc parser.CommandConfig) string {
	t.Helper()
	p := parser.New(lexer.New(src), cc, "", "", 0, nil)
	program, err := p.ParseProgram()
	if err != nil {
		t.Fatalf("parse error: %v", err)
	}
	out, err := emitter.New(program, optimize, false, "").Emit()
	if err != nil {
		t.Fatalf("emit error: %v", err)
	}
	return out
}

// rtRunC013 executes the assembly from label entry. Commands it does not know are recorded in the
// trace; setflag/clearflag/setvar/addvar also change the state. Returns the trace and how the
// script finished ("return", "end", or a description of what went wrong).
func rtRunC013(asm, entry string, st rtStateC013, maxSteps int) ([]string, string) {
	lines := strings.Split(asm, "\n")
	labels := map[string]int{}
	for i, l := range lines {
		if l != "" && !strings.HasPrefix(l, "\t") && !strings.HasPrefix(l, "#") && strings.HasSuffix(l, ":") {
			labels[strings.TrimRight(l, ":")] = i
		}
	}
	val := func(s string) int {
		if n, err := strconv.Atoi(s); err == nil {
			return n
		}
		return st.vars[s]
	}
	pc, ok := labels[entry]
	if !ok {
		return nil, "no entry label " + entry
	}
	trace := []string{}
	cmpL, cmpR, trainer, switchV := 0, 0, false, 0
	jump := func(l string) string {
		i, ok := labels[l]
		if !ok {
			return "jump to undefined label " + l
		}
		pc = i
		return ""
	}
	for steps := 0; steps < maxSteps; steps++ {
		pc++
		if pc >= len(lines) {
			return trace, "ran off the end of the output"
		}
		l := lines[pc]
		if !strings.HasPrefix(l, "\t") {
			if strings.HasPrefix(l, ".") || l == "" || strings.HasSuffix(l, ":") || strings.HasPrefix(l, "#") {
				if l == "" {
					// a blank line separates chunks; falling through it is only legal when the previous
					// chunk fell through, which the emitter never separates by a blank line
					return trace, "ran off the end of a chunk"
				}
				continue
			}
			return trace, "unexpected line " + l
		}
		f := strings.SplitN(strings.TrimSpace(l), " ", 2)
		args := []string{}
		if len(f) == 2 {
			for _, a := range strings.Split(f[1], ",") {
				args = append(args, strings.TrimSpace(a))
			}
		}
		bad := ""
		switch f[0] {
		case "return", "end":
			return trace, f[0]
		case "goto":
			bad = jump(args[0])
		case "goto_if_set":
			if st.flags[args[0]] {
				bad = jump(args[1])
			}
		case "goto_if_unset":
			if !st.flags[args[0]] {
				bad = jump(args[1])
			}
		case "compare", "compare_var_to_value":
			cmpL, cmpR = st.vars[args[0]], val(args[1])
			if f[0] == "compare_var_to_value" {
				cmpR, _ = strconv.Atoi(args[1])
			}
		case "goto_if_eq", "goto_if_ne", "goto_if_lt", "goto_if_le", "goto_if_gt", "goto_if_ge":
			c := map[string]bool{"eq": cmpL == cmpR, "ne": cmpL != cmpR, "lt": cmpL < cmpR, "le": cmpL <= cmpR, "gt": cmpL > cmpR, "ge": cmpL >= cmpR}[strings.TrimPrefix(f[0], "goto_if_")]
			if c {
				bad = jump(args[0])
			}
		case "checktrainerflag":
			trainer = st.trainers[args[0]]
		case "goto_if":
			if (args[0] == "1") == trainer {
				bad = jump(args[1])
			}
		case "switch":
			switchV = st.vars[args[0]]
		case "case":
			if switchV == val(args[0]) {
				bad = jump(args[1])
			}
		case "setflag":
			st.flags[args[0]] = true
			trace = append(trace, strings.TrimSpace(l))
		case "clearflag":
			st.flags[args[0]] = false
			trace = append(trace, strings.TrimSpace(l))
		case "setvar":
			st.vars[args[0]] = val(args[1])
			trace = append(trace, strings.TrimSpace(l))
		case "addvar":
			st.vars[args[0]] += val(args[1])
			trace = append(trace, strings.TrimSpace(l))
		default:
			trace = append(trace, strings.TrimSpace(l))
		}
		if bad != "" {
			return trace, bad
		}
	}
	return trace, "step limit"
}
