// place at: emitter/red_c06_3_test.go
package emitter

import (
	"strings"
	"testing"

	"github.com/huderlem/poryscript/lexer"
	"github.com/huderlem/poryscript/parser"
)

// C06: generated text labels are numbered per owning script in order of first appearance.
// The inline text of the AutoVar command in a switch operand appears before the texts of
// the case bodies, so it is <script>_Text_0.
func TestRedC06_3_NumberingOrderSwitchAutoVar(t *testing.T) {
	input := `
script MyScript {
	switch (askchoice("Pick one")) {
	case 0:
		msgbox("Zero")
	case 1:
		msgbox("One")
	}
}
`
	cc := parser.CommandConfig{AutoVarCommands: map[string]parser.AutoVarCommand{
		"askchoice": {VarName: "VAR_RESULT"},
	}}
	p := parser.New(lexer.New(input), cc, "", "", 0, nil)
	program, err := p.ParseProgram()
	if err != nil {
		t.Fatalf("parse error: %s", err.Error())
	}
	out, err := New(program, false, false, "").Emit()
	if err != nil {
		t.Fatalf("emit error: %s", err.Error())
	}
	for _, want := range []string{
		"\taskchoice MyScript_Text_0\n",
		"MyScript_Text_0:\n\t.string \"Pick one$\"\n",
		"MyScript_Text_1:\n\t.string \"Zero$\"\n",
		"MyScript_Text_2:\n\t.string \"One$\"\n",
	} {
		if !strings.Contains(out, want) {
			t.Errorf("output lacks %q:\n%s", want, out)
		}
	}
}
