// place at: emitter/zz_c14_1_demo_test.go
package emitter_test

import (
	"testing"

	"github.com/huderlem/poryscript/emitter"
	"github.com/huderlem/poryscript/lexer"
	"github.com/huderlem/poryscript/parser"
)

// C14: a mart emits '.align 2', one .2byte per item in order up to but excluding the
// first ITEM_NONE, then exactly one ITEM_NONE.
func TestC14_1_MartEmitsOneLinePerItemInOrder(t *testing.T) {
	src := `
mart Shop {
	ITEM_POTION
	ITEM_REPEL
	ITEM_POTION
	ITEM_ANTIDOTE
	ITEM_NONE
	ITEM_AFTER_END
}
`
	p := parser.New(lexer.New(src), parser.CommandConfig{}, "", "", 0, nil)
	program, err := p.ParseProgram()
	if err != nil {
		t.Fatalf("unexpected parse error: %v", err)
	}
	out, err := emitter.New(program, false, false, "").Emit()
	if err != nil {
		t.Fatalf("unexpected emit error: %v", err)
	}
	want := "\t.align 2\nShop:\n\t.2byte ITEM_POTION\n\t.2byte ITEM_REPEL\n\t.2byte ITEM_POTION\n\t.2byte ITEM_ANTIDOTE\n\t.2byte ITEM_NONE\n"
	if out != want {
		t.Errorf("mart output mismatch.\nexpected:\n%s\ngot:\n%s", want, out)
	}
}
