// place at: emitter/zz_c08_1_demo_test.go
package emitter_test

import (
	"strings"
	"testing"

	"github.com/huderlem/poryscript/emitter"
	"github.com/huderlem/poryscript/lexer"
	"github.com/huderlem/poryscript/parser"
)

// C08: every table lists its (var, value, script) triples in source order and ends with '.2byte 0'.
func TestC08_1_TableListsEveryTripleInSourceOrder(t *testing.T) {
	src := `
mapscripts M {
	MAP_SCRIPT_ON_FRAME_TABLE [
		VAR_A, 1: First
		VAR_A, 1: Second
		VAR_A, 2: Third
	]
}
`
	p := parser.New(lexer.New(src), parser.CommandConfig{}, "", "", 0, nil)
	program, err := p.ParseProgram()
	if err != nil {
		t.Fatalf("unexpected parse error: %v", err)
	}
	out, err := emitter.New(program, false, false, "").Emit()
	if err != nil {
		t.Fatalf("unexpected emit error: %v", err)
	}
	want := "M_MAP_SCRIPT_ON_FRAME_TABLE:\n" +
		"\tmap_script_2 VAR_A, 1, First\n" +
		"\tmap_script_2 VAR_A, 1, Second\n" +
		"\tmap_script_2 VAR_A, 2, Third\n" +
		"\t.2byte 0\n"
	if !strings.Contains(out, want) {
		t.Errorf("the table does not list its three entries in source order.\nexpected to contain:\n%s\ngot:\n%s", want, out)
	}
}
