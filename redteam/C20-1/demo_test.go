// place at: emitter/c20_1_demo_test.go
package emitter

import (
	"strings"
	"testing"

	"github.com/huderlem/poryscript/lexer"
	"github.com/huderlem/poryscript/parser"
)

// C20: a script label equal to a text label must be rejected at the line of the label.
func TestC20Demo1LabelEqualsExplicitTextLabel(t *testing.T) {
	input := `script MyScript {
	lock
MyText:
	msgbox(MyText)
	release
}

text MyText {
	"Hello"
}
`
	for _, optimize := range []bool{false, true} {
		l := lexer.New(input)
		p := parser.New(l, parser.CommandConfig{}, "", "", 0, nil)
		program, err := p.ParseProgram()
		if err != nil {
			t.Fatalf("unexpected parse error: %v", err)
		}
		out, err := New(program, optimize, false, "").Emit()
		if err == nil {
			t.Fatalf("optimize=%v: script label 'MyText' equals the label of text 'MyText' but the program was compiled:\n%s", optimize, out)
		}
		pe, ok := err.(parser.ParseError)
		if !ok || pe.LineNumberStart != 3 || !strings.Contains(pe.Message, "MyText") {
			t.Fatalf("optimize=%v: expected an error at line 3 about label 'MyText', got %#v", optimize, err)
		}
	}
}
