// place at: emitter/redteam_c02_2_test.go
package emitter

import (
	"strings"
	"testing"

	"github.com/huderlem/poryscript/lexer"
	"github.com/huderlem/poryscript/parser"
)

// In 'do { } while (!(flag(A)) && flag(B))' the '!' negates the group only: the loop
// continues when A is unset AND B is set - the same lowering as '!flag(A) && flag(B)'.
func TestRedteamC02DoWhileLeadingNegatedGroup(t *testing.T) {
	emit := func(src string) string {
		p := parser.New(lexer.New(src), parser.CommandConfig{}, "", "", 0, nil)
		program, err := p.ParseProgram()
		if err != nil {
			t.Fatalf("parse error: %s", err)
		}
		out, err := New(program, false, false, "").Emit()
		if err != nil {
			t.Fatalf("emit error: %s", err)
		}
		return out
	}
	grouped := emit("script S {\n\tdo {\n\t\tbody\n\t} while (!(flag(FLAG_A)) && flag(FLAG_B))\n\tafter\n}\n")
	plain := emit("script S {\n\tdo {\n\t\tbody\n\t} while (!flag(FLAG_A) && flag(FLAG_B))\n\tafter\n}\n")
	if grouped != plain {
		t.Errorf("'!(flag(A)) && flag(B)' is not lowered like '!flag(A) && flag(B)'\n--- grouped:\n%s\n--- plain:\n%s", grouped, plain)
	}
	if !strings.Contains(grouped, "goto_if_set FLAG_B") {
		t.Errorf("flag(FLAG_B) must be tested with goto_if_set:\n%s", grouped)
	}
	// the whole-condition form must of course keep working
	whole := emit("script S {\n\tdo {\n\t\tbody\n\t} while (!(flag(FLAG_A) && flag(FLAG_B)))\n\tafter\n}\n")
	if !strings.Contains(whole, "goto_if_unset FLAG_A") || !strings.Contains(whole, "goto_if_unset FLAG_B") {
		t.Errorf("!(A && B) must test both flags with goto_if_unset:\n%s", whole)
	}
}
