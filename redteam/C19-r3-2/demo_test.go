// place at: lexer/x5_c19_2_demo_test.go
package lexer

import (
	"fmt"
	"strings"
	"testing"

	"github.com/huderlem/poryscript/token"
)

func x5c19_2Tokens(input string) []string {
	l := New(input)
	var out []string
	for {
		tok := l.NextToken()
		out = append(out, fmt.Sprintf("%s %q", tok.Type, tok.Literal))
		if tok.Type == token.EOF || len(out) > 1000 {
			return out
		}
	}
}

// Adding or removing a '#' comment (also an empty one, also at the very end of the input)
// or the white space after it never changes the token sequence.
func TestX5C19_2_CommentAtEndOfInputIsStillAComment(t *testing.T) {
	base := "script S {\n\tlock\n\trelease\n}"
	want := strings.Join(x5c19_2Tokens(base), "|")
	for _, tail := range []string{"\n", "\n# done", "\n#\n", "\n# ", " #", "\n#", "\n\n\t#"} {
		got := strings.Join(x5c19_2Tokens(base+tail), "|")
		if got != want {
			t.Errorf("appending %q changes the token sequence:\n got  %s\n want %s", tail, got, want)
		}
	}
}
