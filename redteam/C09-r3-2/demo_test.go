// place at: emitter/x4_c09_2_demo_test.go
package emitter

import (
	"strings"
	"testing"

	"github.com/huderlem/poryscript/lexer"
	"github.com/huderlem/poryscript/parser"
)

// C09 (poryswitch origin): the lines emitted for a text concatenate to the source text
// plus one terminator - blanks at the start of the text (indentation, centring) included.
func TestX4C09_2_PoryswitchTextIsEmittedAsWritten(t *testing.T) {
	input := `
text Sign {
	poryswitch(GAME) {
		RUBY: "   RUBY TOWN"
		      "  pop. 12$"
		_ { ascii"  other " }
	}
}

text Plain {
	"   RUBY TOWN"
	"  pop. 12$"
}
`
	for _, game := range []string{"RUBY", "EMERALD"} {
		p := parser.New(lexer.New(input), parser.CommandConfig{}, "", "", 0, map[string]string{"GAME": game})
		program, err := p.ParseProgram()
		if err != nil {
			t.Fatal(err)
		}
		out, err := New(program, false, false, "").Emit()
		if err != nil {
			t.Fatal(err)
		}
		want := "Sign::\n\t.string \"   RUBY TOWN\"\n\t.string \"  pop. 12$\"\n"
		if game != "RUBY" {
			want = "Sign::\n\t.ascii \"  other \\0\"\n"
		}
		if !strings.Contains(out, want) {
			t.Errorf("GAME=%s: expected\n%s\nin the output, got\n%s", game, want, out)
		}
		// the same literal outside a poryswitch, for comparison
		if !strings.Contains(out, "Plain::\n\t.string \"   RUBY TOWN\"\n\t.string \"  pop. 12$\"\n") {
			t.Errorf("GAME=%s: plain text statement changed:\n%s", game, out)
		}
	}
}
