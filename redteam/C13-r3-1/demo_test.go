// place at: emitter/redteam_c13_1_test.go
package emitter

import (
	"testing"

	"github.com/huderlem/poryscript/lexer"
	"github.com/huderlem/poryscript/parser"
)

func compileC13x1(t *testing.T, src string) string {
	t.Helper()
	p := parser.New(lexer.New(src), parser.CommandConfig{}, "", "", 0, nil)
	program, err := p.ParseProgram()
	if err != nil {
		t.Fatalf("parse error: %s", err.Error())
	}
	out, err := New(program, false, false, "").Emit()
	if err != nil {
		t.Fatalf("emit error: %s", err.Error())
	}
	return out
}

// C13: using a constant in a switch case value is the same as writing its value.
func TestRedteamC13x1ConstantCaseValueEqualsWrittenValue(t *testing.T) {
	withConst := `
const WEEKEND = SATURDAY + 1
script S {
	switch (var(VAR_DAY)) {
	case WEEKEND:
		foo()
	case 3:
		bar()
	}
}
`
	writtenOut := `
script S {
	switch (var(VAR_DAY)) {
	case SATURDAY + 1:
		foo()
	case 3:
		bar()
	}
}
`
	a := compileC13x1(t, withConst)
	b := compileC13x1(t, writtenOut)
	if a != b {
		t.Fatalf("constant use and written-out value compile differently.\n--- with constant:\n%s\n--- written out:\n%s", a, b)
	}
}
