// place at: emitter/c14_demo_test.go
package emitter

import (
	"strings"
	"testing"

	"github.com/huderlem/poryscript/lexer"
	"github.com/huderlem/poryscript/parser"
)

// C14: a mart emits one .2byte per item in order up to the first ITEM_NONE.
func TestDemoMartEmitsOneLinePerItem(t *testing.T) {
	src := `mart M { ITEM_POTION ITEM_POTION ITEM_REPEL ITEM_POTION }`
	p := parser.New(lexer.New(src), parser.CommandConfig{}, "", "", 0, nil)
	program, err := p.ParseProgram()
	if err != nil {
		t.Fatal(err)
	}
	out, err := New(program, false, false, "").Emit()
	if err != nil {
		t.Fatal(err)
	}
	want := "\t.align 2\nM:\n\t.2byte ITEM_POTION\n\t.2byte ITEM_POTION\n\t.2byte ITEM_REPEL\n\t.2byte ITEM_POTION\n\t.2byte ITEM_NONE\n"
	if out != want {
		t.Fatalf("want:\n%s\ngot:\n%s\n(%d .2byte lines)", want, out, strings.Count(out, ".2byte"))
	}
}
