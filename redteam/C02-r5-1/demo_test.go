// place at: emitter/redteam_c02_1_test.go
package emitter

import (
	"strings"
	"testing"

	"github.com/huderlem/poryscript/lexer"
	"github.com/huderlem/poryscript/parser"
)

func emitC02r5(t *testing.T, src string) string {
	t.Helper()
	p := parser.New(lexer.New(src), parser.CommandConfig{}, "", "", 0, nil)
	program, err := p.ParseProgram()
	if err != nil {
		t.Fatalf("parse error: %s", err)
	}
	out, err := New(program, false, false, "").Emit()
	if err != nil {
		t.Fatalf("emit error: %s", err)
	}
	return out
}

// '!' binds tightest: !(flag(A)) && flag(B) is (!A) && B, exactly like !flag(A) && flag(B).
func TestRedteamC02NegatedGroupThenAnd(t *testing.T) {
	grouped := emitC02r5(t, "script S {\n\tif (!(flag(FLAG_A)) && flag(FLAG_B)) {\n\t\tyes\n\t}\n\tafter\n}\n")
	plain := emitC02r5(t, "script S {\n\tif (!flag(FLAG_A) && flag(FLAG_B)) {\n\t\tyes\n\t}\n\tafter\n}\n")
	if grouped != plain {
		t.Errorf("!(flag(A)) && flag(B) is not lowered like !flag(A) && flag(B)\n--- grouped:\n%s\n--- plain:\n%s", grouped, plain)
	}
	// B must be tested for 'set' (the written polarity), and the operator must stay '&&':
	// when A is set the body must be skipped without looking at B.
	if !strings.Contains(grouped, "goto_if_set FLAG_B") {
		t.Errorf("flag(FLAG_B) is not tested with goto_if_set:\n%s", grouped)
	}
}
