// place at: emitter/c16_demo2_test.go
package emitter_test

import (
	"regexp"
	"strings"
	"testing"

	"github.com/huderlem/poryscript/emitter"
	"github.com/huderlem/poryscript/lexer"
	"github.com/huderlem/poryscript/parser"
)

// C16: removing the marker lines from the -lm output gives exactly the -lm=false output.
func TestC16DemoMarkersAreTransparentForMovements(t *testing.T) {
	input := "movement Dance {\n\twalk_up\n\tface_down\n\tstep_end\n\twalk_down * 2\n}\n\n" +
		"script S {\n\tapplymovement(OBJ_EVENT_ID_PLAYER, Dance)\n\tapplymovement(2, moves(walk_left step_end walk_right))\n}\n"
	compile := func(lm bool) string {
		program, err := parser.New(lexer.New(input), parser.CommandConfig{}, "", "", 0, nil).ParseProgram()
		if err != nil {
			t.Fatal(err)
		}
		out, err := emitter.New(program, true, lm, "data/maps/Town/scripts.pory").Emit()
		if err != nil {
			t.Fatal(err)
		}
		return out
	}
	marker := regexp.MustCompile(`^# \d+ "data/maps/Town/scripts\.pory"$`)
	var kept []string
	for _, line := range strings.Split(compile(true), "\n") {
		if !marker.MatchString(line) {
			kept = append(kept, line)
		}
	}
	withoutMarkers := strings.Join(kept, "\n")
	if plain := compile(false); withoutMarkers != plain {
		t.Errorf("the -lm output without its marker lines differs from the -lm=false output.\n--- -lm, markers removed:\n%s\n--- -lm=false:\n%s", withoutMarkers, plain)
	}
}
