// place at: emitter/zz_demo_test.go
package emitter

import (
	"strings"
	"testing"

	"github.com/huderlem/poryscript/lexer"
	"github.com/huderlem/poryscript/parser"
)

// Every command statement reaches the output as one line; commands are never dropped.
func TestDemoCommandsAfterEndAreKept(t *testing.T) {
	input := `
script Gym_Leader {
	trainerbattle_single(TRAINER_ROXANNE, Gym_Intro, Gym_Defeat, Gym_Defeated)
	msgbox(Gym_PostBattle, MSGBOX_AUTOCLOSE)
	release
	end
	setflag(FLAG_DEFEATED_GYM)
	giveitem(ITEM_TM39, 1)
	return
	waitstate
Gym_Defeated:
	message(Gym_Text)
	end
}
`
	want := []string{
		"\ttrainerbattle_single TRAINER_ROXANNE, Gym_Intro, Gym_Defeat, Gym_Defeated",
		"\tmsgbox Gym_PostBattle, MSGBOX_AUTOCLOSE",
		"\trelease",
		"\tend",
		"\tsetflag FLAG_DEFEATED_GYM",
		"\tgiveitem ITEM_TM39, 1",
		"\treturn",
		"\twaitstate",
		"\tmessage Gym_Text",
		"\tend",
	}
	for _, opt := range []bool{false, true} {
		l := lexer.New(input)
		p := parser.New(l, parser.CommandConfig{}, "", "", 0, nil)
		program, err := p.ParseProgram()
		if err != nil {
			t.Fatalf("parse: %v", err)
		}
		out, err := New(program, opt, false, "").Emit()
		if err != nil {
			t.Fatalf("emit: %v", err)
		}
		var got []string
		for _, line := range strings.Split(out, "\n") {
			if strings.HasPrefix(line, "\t") {
				got = append(got, line)
			}
		}
		if strings.Join(got, "\n") != strings.Join(want, "\n") {
			t.Errorf("optimize=%v: command lines differ.\nwant:\n%s\ngot:\n%s", opt, strings.Join(want, "\n"), strings.Join(got, "\n"))
		}
	}
}
