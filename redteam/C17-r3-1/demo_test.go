// place at: emitter/redteam_c17_1_test.go
package emitter

import (
	"fmt"
	"io/ioutil"
	"os"
	"path/filepath"
	"testing"

	"github.com/huderlem/poryscript/lexer"
	"github.com/huderlem/poryscript/parser"
)

// C17: compiling the same input with the same options always yields byte-identical
// output. The only thing that differs between the two compilations below is the value
// of an environment variable of the process.
func TestRedteamC17_1_OutputIndependentOfEnvironment(t *testing.T) {
	base, err := ioutil.TempDir("", "c17env")
	if err != nil {
		t.Fatal(err)
	}
	defer os.RemoveAll(base)
	writeFont := func(dir string, charWidth int) {
		if err := os.MkdirAll(dir, 0o755); err != nil {
			t.Fatal(err)
		}
		cfg := fmt.Sprintf(`{"defaultFontId":"f","fonts":{"f":{"widths":{"default":%d},"maxLineLength":40,"numLines":2,"cursorOverlapWidth":0}}}`, charWidth)
		if err := ioutil.WriteFile(filepath.Join(dir, "font.json"), []byte(cfg), 0o644); err != nil {
			t.Fatal(err)
		}
	}
	dirA, dirB := filepath.Join(base, "a"), filepath.Join(base, "b")
	writeFont(dirA, 1)  // everything fits on one line
	writeFont(dirB, 10) // every word gets its own line

	const input = `text Subject { format("aaa bbb ccc ddd") }`
	const fontOption = "$PORY_REDTEAM_FONTS/font.json" // the -fc option, identical in both runs
	compile := func() string {
		p := parser.New(lexer.New(input), parser.CommandConfig{}, fontOption, "", 0, nil)
		program, err := p.ParseProgram()
		if err != nil {
			return "error: " + err.Error()
		}
		out, err := New(program, false, false, "").Emit()
		if err != nil {
			return "error: " + err.Error()
		}
		return out
	}

	old, had := os.LookupEnv("PORY_REDTEAM_FONTS")
	defer func() {
		if had {
			os.Setenv("PORY_REDTEAM_FONTS", old)
		} else {
			os.Unsetenv("PORY_REDTEAM_FONTS")
		}
	}()
	os.Setenv("PORY_REDTEAM_FONTS", dirA)
	first := compile()
	os.Setenv("PORY_REDTEAM_FONTS", dirB)
	second := compile()
	if first != second {
		t.Fatalf("same input, same options, different output depending on the process environment:\n--- PORY_REDTEAM_FONTS=%s\n%s\n--- PORY_REDTEAM_FONTS=%s\n%s", dirA, first, dirB, second)
	}
}
