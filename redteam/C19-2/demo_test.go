// place at: emitter/w5_c19_2_demo_test.go
package emitter

import (
	"testing"

	"github.com/huderlem/poryscript/lexer"
	"github.com/huderlem/poryscript/parser"
)

func w5c19_2_compile(t *testing.T, input string) string {
	t.Helper()
	p := parser.New(lexer.New(input), parser.CommandConfig{}, "", "", 0, nil)
	program, err := p.ParseProgram()
	if err != nil {
		t.Fatalf("compiling %q: %s", input, err)
	}
	out, err := New(program, false, false, "").Emit()
	if err != nil {
		t.Fatalf("emitting %q: %s", input, err)
	}
	return out
}

// Inserting newlines and comments between tokens does not change the compiled output
// (without line markers).
func TestW5C19_2_LayoutBetweenTokensDoesNotChangeTheOutput(t *testing.T) {
	compact := "script S { lock setvar(VAR_A, 1) msgbox(Foo) release }"
	spread := "script S\n{\n\tlock\n\tsetvar # the variable\n\t(\n\t\tVAR_A,\n\t\t1\n\t)\n\tmsgbox // what is shown\n\t\t(Foo)\n\trelease\n}\n"
	want := w5c19_2_compile(t, compact)
	got := w5c19_2_compile(t, spread)
	if got != want {
		t.Errorf("the same token sequence in another layout compiles differently:\n--- compact\n%s\n--- spread over lines\n%s", want, got)
	}
}
