// place at: parser/c17_3_demo_test.go
package parser

import (
	"io/ioutil"
	"os"
	"path/filepath"
	"testing"

	"github.com/huderlem/poryscript/lexer"
)

// C17: what is emitted for one top-level statement does not depend on which other
// scripts, texts, ... are in the file.
func TestC17TextIndependentOfOtherStatements(t *testing.T) {
	dir, err := ioutil.TempDir("", "c17demo")
	if err != nil {
		t.Fatal(err)
	}
	defer os.RemoveAll(dir)
	fc := filepath.Join(dir, "fonts.json")
	// A font config without "defaultFontId".
	config := `{"fonts":{
		"small":{"widths":{"default":2},"maxLineLength":40,"numLines":2},
		"big":{"widths":{"default":9},"maxLineLength":40,"numLines":2}}}`
	if err := ioutil.WriteFile(fc, []byte(config), 0644); err != nil {
		t.Fatal(err)
	}

	subject := `
text Subject {
	format("one two three four five six")
}`
	other := `
script Unrelated {
	msgbox(format("hello there", "big"))
}`
	valueOfSubject := func(input string) string {
		p := New(lexer.New(input), CommandConfig{}, fc, "", 0, nil)
		program, err := p.ParseProgram()
		if err != nil {
			t.Fatal(err)
		}
		for _, text := range program.Texts {
			if text.Name == "Subject" {
				return text.Value
			}
		}
		t.Fatal("text Subject not found")
		return ""
	}
	alone := valueOfSubject(subject)
	after := valueOfSubject(other + subject)
	before := valueOfSubject(subject + other)
	if alone != after || alone != before {
		t.Errorf("text Subject depends on an unrelated script in the file:\n    alone: %q\n after it: %q\nbefore it: %q", alone, after, before)
	}
}
