// place at: parser/c07_3_demo_test.go
package parser

import (
	"testing"

	"github.com/huderlem/poryscript/lexer"
)

// C07: every produced line is at most maxLineLength pixels wide; control codes in braces count
// with the width the font table lists for them ({PLAYER} = 56, {STR_VAR_n} = 80 in 1_latin_rse).
func TestC07Demo3ControlCodeWidths(t *testing.T) {
	input := `
text MyText {
	format("Hi {PLAYER} {STR_VAR_1} {STR_VAR_2} {STR_VAR_3}", "1_latin_rse", 100)
}
`
	l := lexer.New(input)
	p := New(l, CommandConfig{}, "../font_config.json", "", 0, nil)
	program, err := p.ParseProgram()
	if err != nil {
		t.Fatal(err)
	}
	want := "Hi {PLAYER}\\n\n{STR_VAR_1}\\l\n{STR_VAR_2}\\l\n{STR_VAR_3}$"
	if got := program.Texts[0].Value; got != want {
		t.Fatalf("got %q, want %q (a line wider than 100 pixels was produced)", got, want)
	}
}
