// place at: emitter/redteam_v1_c11_1_test.go
package emitter_test

import (
	"fmt"
	"strconv"
	"strings"
	"testing"

	"github.com/huderlem/poryscript/emitter"
	"github.com/huderlem/poryscript/lexer"
	"github.com/huderlem/poryscript/parser"
)

// An AutoVar leaf runs its command when the leaf is evaluated, in the written (left to right,
// short-circuit) order: the left operand of '&&' / '||' is always evaluated.
func TestRedteamV1C11_1_AutoVarLeftOperandAlwaysRuns(t *testing.T) {
	cc := parser.CommandConfig{AutoVarCommands: map[string]parser.AutoVarCommand{
		"checkitem":    {VarName: "VAR_RESULT"},
		"getpartysize": {VarName: "VAR_RESULT"},
	}}
	src := `
script MyScript {
	if (checkitem(ITEM_POTION, 1) && flag(FLAG_A)) {
		yes
	} else {
		no
	}
	while (getpartysize == 6 || flag(FLAG_B)) {
		clearflag(FLAG_B)
		body
	}
}`
	type tc struct {
		flagA, flagB bool
		want         string
	}
	for _, c := range []tc{
		// VAR_RESULT is 1 throughout (item present, party size 1)
		{false, false, "checkitem ITEM_POTION, 1 | no | getpartysize => return"},
		{true, false, "checkitem ITEM_POTION, 1 | yes | getpartysize => return"},
		{false, true, "checkitem ITEM_POTION, 1 | no | getpartysize | clearflag FLAG_B | body | getpartysize => return"},
	} {
		for _, optimize := range []bool{false, true} {
			asm := rtCompileC111(t, src, optimize, cc)
			st := rtStateC111{flags: map[string]bool{"FLAG_A": c.flagA, "FLAG_B": c.flagB}, vars: map[string]int{"VAR_RESULT": 1}, trainers: map[string]bool{}}
			trace, fin := rtRunC111(asm, "MyScript", st, 1000)
			got := strings.Join(trace, " | ") + " => " + fin
			if got != c.want {
				t.Errorf("optimize=%v FLAG_A=%v FLAG_B=%v:\n got  %s\n want %s\nassembly:\n%s", optimize, c.flagA, c.flagB, got, c.want, asm)
			}
		}
	}
}

var _ = fmt.Sprint
// ---- a small interpreter for the emitted assembly (decomp script macros) ----

type rtStateC111 struct {
	flags    map[string]bool
	vars     map[string]int
	trainers map[string]bool
}

func rtCompileC111(t *testing.T, src string, optimize bool, cc parser.CommandConfig) string {
	t.Helper()
	p := parser.New(lexer.New(src), cc, "", "", 0, nil)
	program, err := p.ParseProgram()
	if err != nil {
		t.Fatalf("parse error: %v", err)
	}
	out, err := emitter.New(program, optimize, false, "").Emit()
	if err != nil {
		t.Fatalf("emit error: %v", err)
	}
	return out
}

// rtRunC111 executes the assembly from label entry. Commands it does not know are recorded in the
// trace; setflag/clearflag/setvar/addvar also change the state. Returns the trace and how the
// script finished ("return", "end", or a description of what went wrong).
func rtRunC111(asm, entry string, st rtStateC111, maxSteps int) ([]string, string) {
	lines := strings.Split(asm, "\n")
	labels := map[string]int{}
	for i, l := range lines {
		if l != "" && !strings.HasPrefix(l, "\t") && !strings.HasPrefix(l, "#") && strings.HasSuffix(l, ":") {
			labels[strings.TrimRight(l, ":")] = i
		}
	}
	val := func(s string) int {
		if n, err := strconv.Atoi(s); err == nil {
			return n
		}
		return st.vars[s]
	}
	pc, ok := labels[entry]
	if !ok {
		return nil, "no entry label " + entry
	}
	trace := []string{}
	cmpL, cmpR, trainer, switchV := 0, 0, false, 0
	jump := func(l string) string {
		i, ok := labels[l]
		if !ok {
			return "jump to undefined label " + l
		}
		pc = i
		return ""
	}
	for steps := 0; steps < maxSteps; steps++ {
		pc++
		if pc >= len(lines) {
			return trace, "ran off the end of the output"
		}
		l := lines[pc]
		if !strings.HasPrefix(l, "\t") {
			if strings.HasPrefix(l, ".") || l == "" || strings.HasSuffix(l, ":") || strings.HasPrefix(l, "#") {
				if l == "" {
					// a blank line separates chunks; falling through it is only legal when the previous
					// chunk fell through, which the emitter never separates by a blank line
					return trace, "ran off the end of a chunk"
				}
				continue
			}
			return trace, "unexpected line " + l
		}
		f := strings.SplitN(strings.TrimSpace(l), " ", 2)
		args := []string{}
		if len(f) == 2 {
			for _, a := range strings.Split(f[1], ",") {
				args = append(args, strings.TrimSpace(a))
			}
		}
		bad := ""
		switch f[0] {
		case "return", "end":
			return trace, f[0]
		case "goto":
			bad = jump(args[0])
		case "goto_if_set":
			if st.flags[args[0]] {
				bad = jump(args[1])
			}
		case "goto_if_unset":
			if !st.flags[args[0]] {
				bad = jump(args[1])
			}
		case "compare", "compare_var_to_value":
			cmpL, cmpR = st.vars[args[0]], val(args[1])
			if f[0] == "compare_var_to_value" {
				cmpR, _ = strconv.Atoi(args[1])
			}
		case "goto_if_eq", "goto_if_ne", "goto_if_lt", "goto_if_le", "goto_if_gt", "goto_if_ge":
			c := map[string]bool{"eq": cmpL == cmpR, "ne": cmpL != cmpR, "lt": cmpL < cmpR, "le": cmpL <= cmpR, "gt": cmpL > cmpR, "ge": cmpL >= cmpR}[strings.TrimPrefix(f[0], "goto_if_")]
			if c {
				bad = jump(args[0])
			}
		case "checktrainerflag":
			trainer = st.trainers[args[0]]
		case "goto_if":
			if (args[0] == "1") == trainer {
				bad = jump(args[1])
			}
		case "switch":
			switchV = st.vars[args[0]]
		case "case":
			if switchV == val(args[0]) {
				bad = jump(args[1])
			}
		case "setflag":
			st.flags[args[0]] = true
			trace = append(trace, strings.TrimSpace(l))
		case "clearflag":
			st.flags[args[0]] = false
			trace = append(trace, strings.TrimSpace(l))
		case "setvar":
			st.vars[args[0]] = val(args[1])
			trace = append(trace, strings.TrimSpace(l))
		case "addvar":
			st.vars[args[0]] += val(args[1])
			trace = append(trace, strings.TrimSpace(l))
		default:
			trace = append(trace, strings.TrimSpace(l))
		}
		if bad != "" {
			return trace, bad
		}
	}
	return trace, "step limit"
}
