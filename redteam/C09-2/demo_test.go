// place at: emitter/c09_2_demo_test.go
package emitter

import (
	"strings"
	"testing"

	"github.com/huderlem/poryscript/lexer"
	"github.com/huderlem/poryscript/parser"
)

// C09: exactly one terminator ends every plain / braille ('$') and ascii ('\0') text - the
// empty text included.
func TestC09Demo2EmptyTextIsTerminated(t *testing.T) {
	input := `script MyScript {
	msgbox("")
	bufferstring(0, ascii"")
}

text MyEmpty {
	""
}
`
	l := lexer.New(input)
	p := parser.New(l, parser.CommandConfig{}, "", "", 0, nil)
	program, err := p.ParseProgram()
	if err != nil {
		t.Fatal(err)
	}
	out, err := New(program, false, false, "").Emit()
	if err != nil {
		t.Fatal(err)
	}
	for _, want := range []string{
		"MyScript_Text_0:\n\t.string \"$\"\n",
		"MyScript_Text_1:\n\t.ascii \"\\0\"\n",
		"MyEmpty::\n\t.string \"$\"\n",
	} {
		if !strings.Contains(out, want) {
			t.Errorf("output lacks %q:\n%s", want, out)
		}
	}
}
