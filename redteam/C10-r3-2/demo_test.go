// place at: emitter/redteam_c10_2_test.go
package emitter

import (
	"strings"
	"testing"

	"github.com/huderlem/poryscript/lexer"
	"github.com/huderlem/poryscript/parser"
)

// C10: every command statement reaches the output as one line made of its unchanged name
// followed by exactly its source argument tokens (identifiers, numbers, operators, keywords).
// `true` / `false` are keywords of the language; as command arguments they are passed on as
// written (a project may well define lower-case true/false for its own macros).
func TestRedteamC10_2_KeywordArgumentsUnchanged(t *testing.T) {
	input := `
script Lights {
	setvar(VAR_TEMP_1, true)
	special(SetLights, false)
	callnative(Blink, true, 2)
}
`
	for _, optimize := range []bool{false, true} {
		p := parser.New(lexer.New(input), parser.CommandConfig{}, "", "", 0, nil)
		program, err := p.ParseProgram()
		if err != nil {
			t.Fatalf("optimize=%v: unexpected parse error: %s", optimize, err)
		}
		out, err := New(program, optimize, false, "").Emit()
		if err != nil {
			t.Fatalf("optimize=%v: unexpected emit error: %s", optimize, err)
		}
		for _, want := range []string{"\tsetvar VAR_TEMP_1, true\n", "\tspecial SetLights, false\n", "\tcallnative Blink, true, 2\n"} {
			if !strings.Contains(out, want) {
				t.Errorf("optimize=%v: command line %q is missing from the output:\n%s", optimize, want, out)
			}
		}
	}
}
