// place at: emitter/redteam_c11_2_test.go
package emitter

import (
	"strings"
	"testing"

	"github.com/huderlem/poryscript/lexer"
	"github.com/huderlem/poryscript/parser"
)

// The command of an AutoVar condition is executed exactly once per evaluation of the leaf.
func TestRedteamC11PreambleWrittenOnce(t *testing.T) {
	cfg := parser.CommandConfig{AutoVarCommands: map[string]parser.AutoVarCommand{
		"checkitem": {VarName: "VAR_RESULT"},
	}}
	src := "script S {\n\tlock\n\tif (checkitem(ITEM_POTION, 1)) {\n\t\tyes\n\t}\n}\n"
	p := parser.New(lexer.New(src), cfg, "", "", 0, nil)
	program, err := p.ParseProgram()
	if err != nil {
		t.Fatalf("parse error: %s", err)
	}
	for _, optimize := range []bool{false, true} {
		out, err := New(program, optimize, false, "").Emit()
		if err != nil {
			t.Fatalf("emit error: %s", err)
		}
		if n := strings.Count(out, "\tcheckitem ITEM_POTION, 1\n"); n != 1 {
			t.Errorf("optimize=%v: the AutoVar command is emitted %d times for one leaf, expected once:\n%s", optimize, n, out)
		}
		if !strings.Contains(out, "\tcheckitem ITEM_POTION, 1\n\tcompare VAR_RESULT, 0\n\tgoto_if_ne ") {
			t.Errorf("optimize=%v: expected 'checkitem; compare VAR_RESULT, 0; goto_if_ne':\n%s", optimize, out)
		}
	}
}
