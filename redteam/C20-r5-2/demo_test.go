// place at: parser/redteam5_c20_2_test.go
package parser_test

import (
	"strings"
	"testing"

	"github.com/huderlem/poryscript/lexer"
	"github.com/huderlem/poryscript/parser"
)

// C20: a text name equal to a generated one is rejected on the line of the offending text -
// whatever the text contains.
func TestRedTeam5C20_2_ClashOfAnEmptyCustomText(t *testing.T) {
	input := `
script Script1 {
	msgbox("Hello")
}
text Script1_Text_0 {
	name""
}`
	p := parser.New(lexer.New(input), parser.CommandConfig{}, "", "", 0, nil)
	_, err := p.ParseProgram()
	if err == nil {
		t.Fatalf("program with a text named like the generated label Script1_Text_0 was accepted")
	}
	pe, ok := err.(parser.ParseError)
	if !ok || pe.LineNumberStart != 5 || !strings.Contains(pe.Message, "duplicate text label 'Script1_Text_0'") {
		t.Errorf("expected the duplicate text label error on line 5, got %v", err)
	}
}
