// place at: emitter/zz_demo_test.go
package emitter

import (
	"strings"
	"testing"

	"github.com/huderlem/poryscript/lexer"
	"github.com/huderlem/poryscript/parser"
)

func compileDemoC04(t *testing.T, input string, optimize bool) string {
	t.Helper()
	l := lexer.New(input)
	p := parser.New(l, parser.CommandConfig{}, "", "", 0, nil)
	program, err := p.ParseProgram()
	if err != nil {
		t.Fatalf("parse: %v", err)
	}
	out, err := New(program, optimize, false, "").Emit()
	if err != nil {
		t.Fatalf("emit: %v", err)
	}
	return out
}

func countLines(out, line string) int {
	n := 0
	for _, l := range strings.Split(out, "\n") {
		if l == line {
			n++
		}
	}
	return n
}

// Every label the author wrote inside a script is still in the output exactly once, even
// when no compiler-generated jump reaches the code it sits in.
func TestDemoUserLabelBehindClosedBranches(t *testing.T) {
	input := `
script Shop {
	lock
	if (flag(FLAG_SOLD_OUT)) {
		call(Shop_SayGoodbye)
		release
		end
	} else {
		pokemart(Shop_Items)
		release
		end
	}
Shop_SayGoodbye:
	msgbox("Come again!")
	return
}

script Rival {
	while (var(VAR_TRIES) < 3) {
		addvar(VAR_TRIES, 1)
		break
Rival_Retry(global):
		setvar(VAR_TRIES, 0)
	}
	release
}
`
	for _, opt := range []bool{false, true} {
		out := compileDemoC04(t, input, opt)
		if n := countLines(out, "Shop_SayGoodbye:"); n != 1 {
			t.Errorf("optimize=%v: label Shop_SayGoodbye defined %d times, want 1 (it is still called by 'call Shop_SayGoodbye')\n%s", opt, n, out)
		}
		if n := countLines(out, "Rival_Retry::"); n != 1 {
			t.Errorf("optimize=%v: label Rival_Retry defined %d times, want 1\n%s", opt, n, out)
		}
		if n := countLines(out, "\tsetvar VAR_TRIES, 0"); n != 1 {
			t.Errorf("optimize=%v: command 'setvar VAR_TRIES, 0' emitted %d times, want 1", opt, n)
		}
	}
}
