// place at: parser/c18_demo1_test.go
package parser_test

import (
	"testing"

	"github.com/huderlem/poryscript/emitter"
	"github.com/huderlem/poryscript/lexer"
	"github.com/huderlem/poryscript/parser"
)

// C18: for every input and every option combination compilation returns output or an error
// value; it never panics. Here the command configuration lists a command that is spelled like
// the keyword 'var' as an auto-var command (command_config.json is user-editable).
func TestC18DemoAutoVarCommandNamedLikeAKeyword(t *testing.T) {
	cfg := parser.CommandConfig{AutoVarCommands: map[string]parser.AutoVarCommand{
		"var": {VarName: "VAR_RESULT"},
	}}
	input := "script S {\n\tif (var(VAR_X) == 1) {\n\t\tnop\n\t}\n}\n"
	for _, lint := range []bool{false, true} {
		func() {
			defer func() {
				if r := recover(); r != nil {
					t.Errorf("lint=%v: compilation panicked: %v", lint, r)
				}
			}()
			var p *parser.Parser
			if lint {
				p = parser.NewLintParser(lexer.New(input), cfg)
			} else {
				p = parser.New(lexer.New(input), cfg, "", "", 0, nil)
			}
			program, err := p.ParseProgram()
			if err != nil {
				return // an error value is an acceptable answer
			}
			if _, err := emitter.New(program, false, false, "").Emit(); err != nil {
				return
			}
		}()
	}
}
