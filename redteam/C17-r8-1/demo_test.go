// place at: parser/c17_redteam_y2_1_test.go
package parser

import "testing"

// The same text, font table and parameters must always be laid out the same way (C17:
// byte-identical output for the same input, however many compilations ran before).
func TestRedteamY2C17FontIDResolutionIsDeterministic(t *testing.T) {
	narrow := map[string]int{"default": 1}
	wide := map[string]int{"default": 10}
	fc := FontConfig{
		DefaultFontID: "Small",
		Fonts: map[string]Fonts{
			"Small": {Widths: narrow, MaxLineLength: 40, NumLines: 2},
			"SMALL": {Widths: wide, MaxLineLength: 40, NumLines: 2},
			"large": {Widths: wide, MaxLineLength: 40, NumLines: 2},
			"other": {Widths: wide, MaxLineLength: 40, NumLines: 2},
		},
	}
	first, firstErr := fc.FormatText("aaaa bbbb cccc dddd eeee", 40, 0, "small", 2)
	for i := 0; i < 300; i++ {
		got, err := fc.FormatText("aaaa bbbb cccc dddd eeee", 40, 0, "small", 2)
		if got != first || (err == nil) != (firstErr == nil) || (err != nil && err.Error() != firstErr.Error()) {
			t.Fatalf("run %d differs from run 0:\n first: %q / %v\n now:   %q / %v", i+1, first, firstErr, got, err)
		}
	}
}
