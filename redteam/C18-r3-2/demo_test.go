// place at: emitter/x5_c18_2_demo_test.go
package emitter

import (
	"strings"
	"testing"

	"github.com/huderlem/poryscript/lexer"
	"github.com/huderlem/poryscript/parser"
)

// Compilation returns output or an error value; it never panics - with every option
// combination, in normal and in lint mode.
func TestX5C18_2_MartWithConstantDoesNotCrash(t *testing.T) {
	input := `const STARTER_BALLS = ITEM_POKE_BALL ITEM_GREAT_BALL

mart MyMart {
	ITEM_POTION
	STARTER_BALLS
	ITEM_REVIVE
}`
	for _, lint := range []bool{false, true} {
		for _, lm := range []bool{false, true} {
			func() {
				defer func() {
					if r := recover(); r != nil {
						t.Errorf("lint=%v lm=%v: compilation panicked: %v", lint, lm, r)
					}
				}()
				var p *parser.Parser
				if lint {
					p = parser.NewLintParser(lexer.New(input), parser.CommandConfig{})
				} else {
					p = parser.New(lexer.New(input), parser.CommandConfig{}, "../font_config.json", "", 0, nil)
				}
				program, err := p.ParseProgram()
				if err != nil {
					return // a located error is an acceptable answer
				}
				out, err := New(program, true, lm, "test.pory").Emit()
				if err == nil && !strings.Contains(out, "ITEM_REVIVE") {
					t.Errorf("lint=%v lm=%v: output lost an item:\n%s", lint, lm, out)
				}
			}()
		}
	}
}
