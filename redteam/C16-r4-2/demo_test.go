// place at: emitter/redteam_c16_2_test.go
package emitter

import (
	"strings"
	"testing"

	"github.com/huderlem/poryscript/lexer"
	"github.com/huderlem/poryscript/parser"
)

// C16: "every marker names the input file and a line number ... on which the construct that
// follows it - command, ..., or text - was written."
func TestRedteamC16InlineTextMarkerNamesTheLineOfTheText(t *testing.T) {
	src := `script S {
	lock
	msgbox(
		"Hello there.$",
		MSGBOX_DEFAULT)
	release
}
`
	p := parser.New(lexer.New(src), parser.CommandConfig{}, "", "", 0, nil)
	program, err := p.ParseProgram()
	if err != nil {
		t.Fatal(err)
	}
	out, err := New(program, false, true, "test.pory").Emit()
	if err != nil {
		t.Fatal(err)
	}
	lines := strings.Split(out, "\n")
	for i, line := range lines {
		if strings.Contains(line, `.string "Hello there.$"`) {
			want := `# 4 "test.pory"`
			if lines[i-1] != want {
				t.Errorf("the text is written on line 4 of the source, but its marker is %q (want %q)\n%s", lines[i-1], want, out)
			}
			return
		}
	}
	t.Fatalf("text not found in output:\n%s", out)
}
