// place at: emitter/redteam_c01_3_test.go
package emitter

import (
	"fmt"
	"strconv"
	"strings"
	"testing"

	"github.com/huderlem/poryscript/lexer"
	"github.com/huderlem/poryscript/parser"
)

// runC013 interprets the emitted assembly of one script for a given game state:
// compare / compare_var_to_value + goto_if_<cc>, goto_if_set / goto_if_unset, goto, return, end.
// Every other line is recorded as an executed command.
func runC013(t *testing.T, asm string, entry string, vars map[string]int, flags map[string]bool) []string {
	t.Helper()
	lines := strings.Split(asm, "\n")
	labels := map[string]int{}
	for i, l := range lines {
		if strings.HasSuffix(l, ":") && !strings.HasPrefix(l, "\t") {
			labels[strings.TrimRight(l, ":")] = i
		}
	}
	pc, ok := labels[entry]
	if !ok {
		t.Fatalf("entry label %s not found in\n%s", entry, asm)
	}
	var trace []string
	cmp := 0
	for steps := 0; steps < 1000; steps++ {
		if pc >= len(lines) {
			return append(trace, "<fell off the end>")
		}
		l := strings.TrimSpace(lines[pc])
		pc++
		if l == "" || strings.HasSuffix(l, ":") {
			continue
		}
		f := strings.Fields(strings.ReplaceAll(l, ",", " "))
		jump := func(label string) {
			p, ok := labels[label]
			if !ok {
				t.Fatalf("jump to undefined label %q in\n%s", label, asm)
			}
			pc = p
		}
		switch f[0] {
		case "compare", "compare_var_to_value":
			n, err := strconv.Atoi(f[2])
			if err != nil {
				t.Fatalf("demo interpreter: non-numeric comparison value in %q", l)
			}
			cmp = vars[f[1]] - n
		case "goto_if_eq", "goto_if_ne", "goto_if_lt", "goto_if_le", "goto_if_gt", "goto_if_ge":
			take := map[string]bool{"eq": cmp == 0, "ne": cmp != 0, "lt": cmp < 0, "le": cmp <= 0, "gt": cmp > 0, "ge": cmp >= 0}[strings.TrimPrefix(f[0], "goto_if_")]
			if take {
				jump(f[1])
			}
		case "goto_if_set":
			if flags[f[1]] {
				jump(f[2])
			}
		case "goto_if_unset":
			if !flags[f[1]] {
				jump(f[2])
			}
		case "goto":
			jump(f[1])
		case "return", "end":
			return append(trace, "<"+f[0]+">")
		default:
			trace = append(trace, l)
		}
	}
	return append(trace, "<no termination>")
}

// if / elif / else: the first branch whose condition holds runs, and only that one - also
// when that branch happens to have an empty body.
func TestRedteamC01EmptyElifBody(t *testing.T) {
	input := `
script MyScript {
	if (flag(FLAG_A)) {
		first
	} elif (flag(FLAG_B)) {
		# nothing to do in this case
	} elif (flag(FLAG_C)) {
		third
	} else {
		otherwise
	}
	after
}
`
	for _, optimize := range []bool{false, true} {
		l := lexer.New(input)
		p := parser.New(l, parser.CommandConfig{}, "", "", 0, nil)
		program, err := p.ParseProgram()
		if err != nil {
			t.Fatalf("%s", err.Error())
		}
		e := New(program, optimize, false, "")
		result, err := e.Emit()
		if err != nil {
			t.Fatalf("%s", err.Error())
		}
		for state := 0; state < 8; state++ {
			a, b, c := state&1 != 0, state&2 != 0, state&4 != 0
			var want []string
			switch {
			case a:
				want = append(want, "first")
			case b:
			case c:
				want = append(want, "third")
			default:
				want = append(want, "otherwise")
			}
			want = append(want, "after", "<return>")
			got := runC013(t, result, "MyScript", nil, map[string]bool{"FLAG_A": a, "FLAG_B": b, "FLAG_C": c})
			if fmt.Sprint(got) != fmt.Sprint(want) {
				t.Errorf("optimize=%v A=%v B=%v C=%v: executed %v, want %v\n%s", optimize, a, b, c, got, want, result)
			}
		}
	}
}
