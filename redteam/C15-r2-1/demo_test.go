// place at: emitter/redteam_c15_1_test.go
package emitter_test

import (
	"strings"
	"testing"

	"github.com/huderlem/poryscript/emitter"
	"github.com/huderlem/poryscript/lexer"
	"github.com/huderlem/poryscript/parser"
)

// C15: "A top-level name is exported ('::') or file-local (':') exactly as its scope modifier says".
func TestRedTeamC15_1_MovementGlobalModifierIsHonoured(t *testing.T) {
	input := `
movement(global) Common_Movement_WalkInPlace {
	walk_in_place_down
}

movement(global) Common_WalkUp {
	walk_up
}
`
	p := parser.New(lexer.New(input), parser.CommandConfig{}, "", "", 0, nil)
	program, err := p.ParseProgram()
	if err != nil {
		t.Fatal(err)
	}
	out, err := emitter.New(program, false, false, "").Emit()
	if err != nil {
		t.Fatal(err)
	}
	for _, want := range []string{"Common_Movement_WalkInPlace::\n", "Common_WalkUp::\n"} {
		if !strings.Contains(out, want) {
			t.Errorf("movement(global) must be exported: missing %q in\n%s", want, out)
		}
	}
}
