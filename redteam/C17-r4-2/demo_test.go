// place at: emitter/redteam_c17_2_test.go
package emitter

import (
	"testing"

	"github.com/huderlem/poryscript/lexer"
	"github.com/huderlem/poryscript/parser"
)

// C17: compiling the same input with the same options always yields byte-identical output.
func TestRedteamC17_2_SameOutputEveryTime(t *testing.T) {
	input := `
script S {
	lock
	poryswitch(GAME) {
		Ruby {
			rubyonly
		}
		RUBY {
			rubyalso
		}
		_ {
			anyother
		}
	}
	release
}
`
	compile := func() string {
		l := lexer.New(input)
		p := parser.New(l, parser.CommandConfig{}, "", "", 0, map[string]string{"GAME": "ruby"})
		program, err := p.ParseProgram()
		if err != nil {
			t.Fatalf("unexpected parse error: %s", err.Error())
		}
		out, err := New(program, true, false, "").Emit()
		if err != nil {
			t.Fatalf("unexpected emit error: %s", err.Error())
		}
		return out
	}
	first := compile()
	for i := 0; i < 300; i++ {
		if got := compile(); got != first {
			t.Fatalf("compilation %d of the same input with the same options gave a different output:\n--- first\n%s\n--- now\n%s", i+2, first, got)
		}
	}
}
