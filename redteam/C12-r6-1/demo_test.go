// place at: main_c12_demo_test.go
package main

import (
	"strings"
	"testing"

	"github.com/huderlem/poryscript/emitter"
	"github.com/huderlem/poryscript/lexer"
	"github.com/huderlem/poryscript/parser"
)

// `-s GAME=` assigns the empty value to the switch GAME. No case is called "",
// so the '_' case has to be selected (C12: "... or of '_' when none matches").
func TestDemoEmptySwitchValueSelectsDefaultCase(t *testing.T) {
	switches := make(mapOption)
	if err := switches.Set("GAME="); err != nil {
		t.Fatalf("Set: %v", err)
	}
	src := `script S { poryswitch(GAME) { RUBY: onlyruby  _: fallback } }`
	p := parser.New(lexer.New(src), parser.CommandConfig{}, "", "", 0, switches)
	program, err := p.ParseProgram()
	if err != nil {
		t.Fatalf("compilation failed although GAME was assigned (to the empty value) and a '_' case exists: %v", err)
	}
	out, err := emitter.New(program, false, false, "").Emit()
	if err != nil {
		t.Fatal(err)
	}
	if !strings.Contains(out, "\tfallback\n") || strings.Contains(out, "onlyruby") {
		t.Fatalf("expected the '_' case, got:\n%s", out)
	}
}
