// place at: parser/c17_2_demo_test.go
package parser

import (
	"testing"

	"github.com/huderlem/poryscript/lexer"
)

// C17: compiling the same input with the same options yields the same error, every time.
func TestC17SameErrorEveryTime(t *testing.T) {
	input := `
script S {
	msgbox(format("hello there", "no_such_font"))
}`
	compile := func() string {
		p := New(lexer.New(input), CommandConfig{}, "../font_config.json", "", 0, nil)
		_, err := p.ParseProgram()
		if err == nil {
			t.Fatal("expected an error for the unknown font id")
		}
		return err.Error()
	}
	first := compile()
	for i := 0; i < 200; i++ {
		if got := compile(); got != first {
			t.Fatalf("compilation %d of the same input reported a different error:\n first: %s\n   now: %s", i+2, first, got)
		}
	}
}
