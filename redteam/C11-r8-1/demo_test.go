// place at: emitter/c11_1_demo_test.go
package emitter

import (
	"strings"
	"testing"

	"github.com/huderlem/poryscript/lexer"
	"github.com/huderlem/poryscript/parser"
)

// Two AutoVar commands, each with its own configured argument position: the compared var of
// each must be the argument at ITS position (C11: "the compared var is ... the argument at the
// configured position").
func TestC11Demo_TwoArgPositions(t *testing.T) {
	zero, one := 0, 1
	input := `
script S {
	if (firstarg(VAR_A, VAR_B) == 3) {
		foo
	}
	switch (secondarg(VAR_C, VAR_D)) {
		case 7: bar
	}
}
`
	p := parser.New(lexer.New(input), parser.CommandConfig{
		AutoVarCommands: map[string]parser.AutoVarCommand{
			"firstarg":  {VarNameArgPosition: &zero},
			"secondarg": {VarNameArgPosition: &one},
		},
	}, "", "", 0, nil)
	program, err := p.ParseProgram()
	if err != nil {
		t.Fatal(err)
	}
	for _, optimize := range []bool{false, true} {
		result, err := New(program, optimize, false, "").Emit()
		if err != nil {
			t.Fatal(err)
		}
		if !strings.Contains(result, "\tfirstarg VAR_A, VAR_B\n\tcompare VAR_A, 3\n") {
			t.Errorf("optimize=%v: 'firstarg' (position 0) must be followed by a comparison of VAR_A:\n%s", optimize, result)
		}
		if !strings.Contains(result, "\tswitch VAR_D\n\tcase 7, ") {
			t.Errorf("optimize=%v: 'secondarg' (position 1) must be switched on VAR_D:\n%s", optimize, result)
		}
	}
}
