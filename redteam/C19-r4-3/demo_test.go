// place at: lexer/redteam_c19_3_test.go
package lexer

import (
	"strings"
	"testing"
	"unicode/utf8"

	"github.com/huderlem/poryscript/token"
)

// C19: "Each token's reported line and start column, in bytes and in characters, locate its
// first character in the source."
func TestRedteamC19StartColumnLocatesFirstCharacter(t *testing.T) {
	src := "script Évolution {\n\tsetvar(ÉTAT_1, ٣)\n\tポケモン\n\tgoto Évolution\n}\n"
	lines := strings.Split(src, "\n")
	l := New(src)
	for {
		tok := l.NextToken()
		if tok.Type == token.EOF {
			break
		}
		if tok.LineNumber < 1 || tok.LineNumber > len(lines) {
			t.Fatalf("%s %q: line %d outside the input", tok.Type, tok.Literal, tok.LineNumber)
		}
		line := lines[tok.LineNumber-1]
		// the byte column must point at the token's own text ...
		if tok.StartCharIndex < 0 || tok.StartCharIndex > len(line) || !strings.HasPrefix(line[tok.StartCharIndex:], tok.Literal) {
			t.Errorf("%s %q on line %d: byte start column %d does not locate the token in %q (it is at byte %d)",
				tok.Type, tok.Literal, tok.LineNumber, tok.StartCharIndex, line, strings.Index(line, tok.Literal))
			continue
		}
		// ... and agree with the character column
		if chars := utf8.RuneCountInString(line[:tok.StartCharIndex]); chars != tok.StartUtf8CharIndex {
			t.Errorf("%s %q on line %d: character start column %d, but %d characters precede byte %d",
				tok.Type, tok.Literal, tok.LineNumber, tok.StartUtf8CharIndex, chars, tok.StartCharIndex)
		}
	}
}
