// place at: emitter/redteam_c01_2_test.go
package emitter

import (
	"strings"
	"testing"

	"github.com/huderlem/poryscript/lexer"
	"github.com/huderlem/poryscript/parser"
)

// The source never says 'end': every way of leaving this script (the loop condition
// failing, or the 'break') falls off the end of the script body, which poryscript
// documents / implements as 'return' (go back to the caller of the script).
// 'end' instead stops the whole script context, so a caller that did
// `call Helper` would never continue.
func TestRedteamC01BreakLeavesWithReturn(t *testing.T) {
	input := `
script Helper {
	while (flag(FLAG_A)) {
		if (flag(FLAG_B)) {
			break
		}
		foo
	}
}
`
	for _, optimize := range []bool{false, true} {
		l := lexer.New(input)
		p := parser.New(l, parser.CommandConfig{}, "", "", 0, nil)
		program, err := p.ParseProgram()
		if err != nil {
			t.Fatalf("optimize=%v: %s", optimize, err.Error())
		}
		e := New(program, optimize, false, "")
		result, err := e.Emit()
		if err != nil {
			t.Fatalf("optimize=%v: %s", optimize, err.Error())
		}
		for _, line := range strings.Split(result, "\n") {
			if strings.TrimSpace(line) == "end" {
				t.Errorf("optimize=%v: script without any 'end' command finishes with 'end' on some path (expected 'return'):\n%s", optimize, result)
				break
			}
		}
		if !strings.Contains(result, "\treturn\n") {
			t.Errorf("optimize=%v: no 'return' at all:\n%s", optimize, result)
		}
	}
}
