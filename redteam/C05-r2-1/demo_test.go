// place at: emitter/zz_demo_test.go
package emitter

import (
	"strings"
	"testing"

	"github.com/huderlem/poryscript/lexer"
	"github.com/huderlem/poryscript/parser"
)

func compileDemo(t *testing.T, input string, optimize bool) string {
	t.Helper()
	l := lexer.New(input)
	p := parser.New(l, parser.CommandConfig{}, "", "", 0, nil)
	program, err := p.ParseProgram()
	if err != nil {
		t.Fatalf("parse: %v", err)
	}
	out, err := New(program, optimize, false, "").Emit()
	if err != nil {
		t.Fatalf("emit: %v", err)
	}
	return out
}

// No compiler-generated goto may target the label on the very next line.
func assertNoGotoToNextLine(t *testing.T, out string) {
	t.Helper()
	lines := strings.Split(out, "\n")
	for i := 0; i+1 < len(lines); i++ {
		if strings.HasPrefix(lines[i], "\tgoto ") {
			target := strings.TrimPrefix(lines[i], "\tgoto ")
			// skip blank separator lines
			j := i + 1
			for j < len(lines) && lines[j] == "" {
				j++
			}
			if j < len(lines) && (lines[j] == target+":" || lines[j] == target+"::") {
				t.Errorf("redundant goto to the next label %q at line %d:\n%s", target, i+1, out)
			}
		}
	}
}

func TestDemoBreakFallsThrough(t *testing.T) {
	inputs := []string{`
script Door {
	lock
	switch (var(VAR_STATE)) {
	case 1:
		msgbox("one")
	default:
		msgbox("other")
		break
	}
	release
}`, `
script Loop {
	while {
		addvar(VAR_COUNT, 1)
		if (var(VAR_COUNT) == 5) {
			break
		}
	}
	release
}`}
	for _, in := range inputs {
		for _, opt := range []bool{false, true} {
			assertNoGotoToNextLine(t, compileDemo(t, in, opt))
		}
	}
}
