// place at: emitter/w5_c16_1_demo_test.go
package emitter

import (
	"fmt"
	"strings"
	"testing"

	"github.com/huderlem/poryscript/lexer"
	"github.com/huderlem/poryscript/parser"
)

// The marker in front of a text names the line on which the text was written (its first
// line), also when the string literal continues on following lines.
func TestW5C16_1_MarkerOfMultiLineTextNamesItsFirstLine(t *testing.T) {
	input := "script S {\n" + // line 1
		"\tlock\n" + // line 2
		"\tmsgbox(\"Hello\\n\"\n" + // line 3: command and first line of the text
		"\t\t\"World\")\n" + // line 4
		"\trelease\n" + // line 5
		"}\n"
	p := parser.New(lexer.New(input), parser.CommandConfig{}, "", "", 0, nil)
	program, err := p.ParseProgram()
	if err != nil {
		t.Fatal(err)
	}
	out, err := New(program, false, true, "test.pory").Emit()
	if err != nil {
		t.Fatal(err)
	}
	lines := strings.Split(out, "\n")
	found := false
	for i, ln := range lines {
		if ln == "\t.string \"Hello\\n\"" {
			found = true
			want := fmt.Sprintf("# %d \"test.pory\"", 3)
			if i == 0 || lines[i-1] != want {
				t.Errorf("marker before the text is %q, want %q\n%s", lines[i-1], want, out)
			}
		}
	}
	if !found {
		t.Fatalf("text not found in output:\n%s", out)
	}
}
