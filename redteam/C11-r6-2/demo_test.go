// place at: emitter/redteam_c11_2_test.go
package emitter

import (
	"strings"
	"testing"

	"github.com/huderlem/poryscript/lexer"
	"github.com/huderlem/poryscript/parser"
)

// A switch written on an AutoVar command runs the command exactly once per evaluation of the
// switch - also when the switch stands inside a loop (once per turn, not twice).
func TestRedteamC11_2_AutoVarSwitchInLoopRunsCommandOnce(t *testing.T) {
	input := `
script MyScript {
	while (flag(FLAG_GO)) {
		switch (additem(ITEM_POTION, 1)) {
			case 0:
				full
			case 1:
				given
		}
	}
}
`
	for _, optimize := range []bool{false, true} {
		p := parser.New(lexer.New(input), parser.CommandConfig{
			AutoVarCommands: map[string]parser.AutoVarCommand{
				"additem": {VarName: "VAR_RESULT"},
			},
		}, "", "", 0, nil)
		program, err := p.ParseProgram()
		if err != nil {
			t.Fatalf("unexpected parse error: %s", err.Error())
		}
		result, err := New(program, optimize, false, "").Emit()
		if err != nil {
			t.Fatalf("unexpected emit error: %s", err.Error())
		}
		if n := strings.Count(result, "\tadditem ITEM_POTION, 1\n"); n != 1 {
			t.Errorf("optimize=%v: the loop body holds the AutoVar command 'additem ITEM_POTION, 1' %d times, expected once (one item per turn). Got:\n%s", optimize, n, result)
		}
	}
}
