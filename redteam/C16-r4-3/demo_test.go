// place at: main_test.go
package main

import (
	"io/ioutil"
	"os"
	"path/filepath"
	"strings"
	"testing"

	"github.com/huderlem/poryscript/emitter"
	"github.com/huderlem/poryscript/lexer"
	"github.com/huderlem/poryscript/parser"
)

// C16: "Removing the marker lines from the -lm output gives exactly the -lm=false output."
// The outputs are produced the way main() produces them: parse, emit, writeOutput to the -o file.
func TestRedteamC16MarkersAreTransparentInTheWrittenFile(t *testing.T) {
	src := "script S {\n\tlock\n\trelease\n}\n\nraw `\nTable:\n\t.byte 1\n\n\n\t.byte 2\n`\n"
	dir, err := ioutil.TempDir("", "c16")
	if err != nil {
		t.Fatal(err)
	}
	defer os.RemoveAll(dir)
	compile := func(lm bool, name string) string {
		p := parser.New(lexer.New(src), parser.CommandConfig{}, "", "", 0, nil)
		program, err := p.ParseProgram()
		if err != nil {
			t.Fatal(err)
		}
		result, err := emitter.New(program, true, lm, "data/scripts.pory").Emit()
		if err != nil {
			t.Fatal(err)
		}
		out := filepath.Join(dir, name)
		if err := writeOutput(result, out); err != nil {
			t.Fatal(err)
		}
		b, err := ioutil.ReadFile(out)
		if err != nil {
			t.Fatal(err)
		}
		return string(b)
	}
	withMarkers := compile(true, "lm.inc")
	plain := compile(false, "plain.inc")
	var kept []string
	for _, line := range strings.Split(withMarkers, "\n") {
		if strings.HasPrefix(line, "# ") && strings.HasSuffix(line, ` "data/scripts.pory"`) {
			continue
		}
		kept = append(kept, line)
	}
	stripped := strings.Join(kept, "\n")
	if stripped != plain {
		t.Errorf("removing the marker lines from the -lm output does not give the -lm=false output\n--- -lm output without its markers:\n%q\n--- -lm=false output:\n%q", stripped, plain)
	}
}
