// place at: emitter/redteam_c01_2_test.go
package emitter

import (
	"fmt"
	"strings"
	"testing"

	"github.com/huderlem/poryscript/lexer"
	"github.com/huderlem/poryscript/parser"
)

// A straight-line script of 20 commands performs exactly those 20 commands, once each, in order.
func TestRedteamC01LongChunkCommandsOnce(t *testing.T) {
	var src, expected strings.Builder
	src.WriteString("script S {\n")
	expected.WriteString("S::\n")
	for k := 0; k < 20; k++ {
		src.WriteString(fmt.Sprintf("\tstep%d\n", k))
		expected.WriteString(fmt.Sprintf("\tstep%d\n", k))
	}
	src.WriteString("}\n")
	expected.WriteString("\treturn\n\n")
	p := parser.New(lexer.New(src.String()), parser.CommandConfig{}, "", "", 0, nil)
	program, err := p.ParseProgram()
	if err != nil {
		t.Fatalf("parse error: %s", err)
	}
	for _, optimize := range []bool{false, true} {
		out, err := New(program, optimize, false, "").Emit()
		if err != nil {
			t.Fatalf("emit error: %s", err)
		}
		if out != expected.String() {
			t.Errorf("optimize=%v:\nExpected:\n%s\nGot:\n%s", optimize, expected.String(), out)
		}
	}
}
