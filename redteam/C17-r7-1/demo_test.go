// place at: emitter/c17_1_demo_test.go
package emitter

import (
	"testing"

	"github.com/huderlem/poryscript/lexer"
	"github.com/huderlem/poryscript/parser"
)

// C17: compiling the same input with the same options always yields the same
// output or the same error.
func TestC17_1_SameErrorEveryTime(t *testing.T) {
	input := `
script Foo {
	Foo_1:
	lock
	if (flag(FLAG_A)) {
		Foo_2:
		faceplayer
	}
	release
	Foo_3:
	release
}
`
	compile := func() string {
		l := lexer.New(input)
		p := parser.New(l, parser.CommandConfig{}, "", "", 0, nil)
		program, err := p.ParseProgram()
		if err != nil {
			return "parse: " + err.Error()
		}
		e := New(program, false, false, "")
		out, err := e.Emit()
		if err != nil {
			return "emit: " + err.Error()
		}
		return out
	}
	first := compile()
	if first != "emit: line 3: duplicate script label 'Foo_1'. Choose a unique label that won't clash with the auto-generated script labels" {
		t.Fatalf("unexpected first result: %s", first)
	}
	for i := 0; i < 300; i++ {
		if got := compile(); got != first {
			t.Fatalf("compilation %d of the same input gave a different result:\nfirst: %s\nnow:   %s", i+2, first, got)
		}
	}
}
