// place at: emitter/redteam_c04_2_test.go
package emitter

import (
	"strings"
	"testing"

	"github.com/huderlem/poryscript/lexer"
	"github.com/huderlem/poryscript/parser"
)

// C04: every label the author wrote inside a script is still there exactly once (and every
// label is defined exactly once).
func TestRedteamC04_2_AuthorsLabelsSurvive(t *testing.T) {
	input := `
const Retry = 3
const Attempts = VAR_TEMP_1

script Quiz {
	setvar(Attempts, Retry)
Retry:
	special(AskQuestion)
	goto_if_eq(VAR_RESULT, 0, Quiz_Wrong)
	end
Quiz_Wrong:
	subvar(Attempts, 1)
	goto_if_ne(Attempts, 0, Quiz_Again)
	end
}

script Quiz_Again {
	goto(Retry)
}
`
	for _, optimize := range []bool{false, true} {
		p := parser.New(lexer.New(input), parser.CommandConfig{}, "", "", 0, nil)
		program, err := p.ParseProgram()
		if err != nil {
			t.Fatalf("optimize=%v: unexpected parse error: %s", optimize, err)
		}
		out, err := New(program, optimize, false, "").Emit()
		if err != nil {
			t.Fatalf("optimize=%v: unexpected emit error: %s", optimize, err)
		}
		for _, label := range []string{"Retry", "Quiz_Wrong"} {
			if n := strings.Count(out, "\n"+label+":\n"); n != 1 {
				t.Errorf("optimize=%v: label %s, written once in script Quiz, is defined %d times in the output:\n%s", optimize, label, n, out)
			}
		}
		if strings.Contains(out, "\n3:\n") {
			t.Errorf("optimize=%v: the output defines a label '3' that nobody wrote:\n%s", optimize, out)
		}
	}
}
