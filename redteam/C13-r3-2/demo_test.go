// place at: emitter/redteam_c13_2_test.go
package emitter

import (
	"testing"

	"github.com/huderlem/poryscript/lexer"
	"github.com/huderlem/poryscript/parser"
)

func compileC13x2(t *testing.T, src string) string {
	t.Helper()
	p := parser.New(lexer.New(src), parser.CommandConfig{}, "", "", 0, nil)
	program, err := p.ParseProgram()
	if err != nil {
		t.Fatalf("parse error: %s", err.Error())
	}
	out, err := New(program, false, false, "").Emit()
	if err != nil {
		t.Fatalf("emit error: %s", err.Error())
	}
	return out
}

// C13: using a constant as a value() comparison value is the same as writing its value.
func TestRedteamC13x2ConstantInValueEqualsWrittenValue(t *testing.T) {
	withConst := `
const LIMIT = BASE_LIMIT + 1
script S {
	if (var(VAR_X) == value(LIMIT)) {
		foo()
	}
}
`
	writtenOut := `
script S {
	if (var(VAR_X) == value(BASE_LIMIT + 1)) {
		foo()
	}
}
`
	a := compileC13x2(t, withConst)
	b := compileC13x2(t, writtenOut)
	if a != b {
		t.Fatalf("constant use and written-out value compile differently.\n--- with constant:\n%s\n--- written out:\n%s", a, b)
	}
}
