// place at: parser/zz_demo_test.go
package parser

import (
	"testing"

	"github.com/huderlem/poryscript/lexer"
)

// Compiling the same input with the same options always yields the same result, no matter
// how many compilations ran before in the same process.
func TestDemoResultDoesNotDependOnEarlierCompilations(t *testing.T) {
	good := `
script Main {
	lock
	if (flag(FLAG_A)) {
		msgbox("hi")
	}
	release
}`
	// What an editor integration feeds the parser while the user is typing.
	unfinished := `
script Main {
	lock
	if (flag(FLAG_A)) {
		msgbox("hi"
`
	compile := func(input string) string {
		p := New(lexer.New(input), CommandConfig{}, "", "", 0, nil)
		program, err := p.ParseProgram()
		if err != nil {
			return "error: " + err.Error()
		}
		return program.TopLevelStatements[0].TokenLiteral() + " ok"
	}
	first := compile(good)
	for i := 0; i < 120; i++ {
		compile(unfinished)
	}
	if again := compile(good); again != first {
		t.Fatalf("the same input compiled again gives a different result:\nfirst: %s\nlater: %s", first, again)
	}
}
