// place at: emitter/zz_c13_2_demo_test.go
package emitter_test

import (
	"testing"

	"github.com/huderlem/poryscript/emitter"
	"github.com/huderlem/poryscript/lexer"
	"github.com/huderlem/poryscript/parser"
)

func compileC13b(t *testing.T, src string) string {
	t.Helper()
	p := parser.New(lexer.New(src), parser.CommandConfig{}, "", "", 0, nil)
	program, err := p.ParseProgram()
	if err != nil {
		t.Fatalf("unexpected parse error: %v", err)
	}
	out, err := emitter.New(program, false, false, "").Emit()
	if err != nil {
		t.Fatalf("unexpected emit error: %v", err)
	}
	return out
}

// C13: using a constant is the same as writing its value — also for a constant that stands
// for several tokens, in a value(...) comparison.
func TestC13_2_MultiTokenConstantInValueComparison(t *testing.T) {
	withConst := `
const LIMIT = VAR_BASE + 1
script S {
	if (var(VAR_X) == value(LIMIT)) {
		foo
	}
}
`
	writtenOut := `
script S {
	if (var(VAR_X) == value(VAR_BASE + 1)) {
		foo
	}
}
`
	got, want := compileC13b(t, withConst), compileC13b(t, writtenOut)
	if got != want {
		t.Errorf("the program that uses the constant and the program with its value written out compile differently.\n-- with const:\n%s\n-- written out:\n%s", got, want)
	}
}
