// place at: redteam_c17_4_test.go
package main

import (
	"flag"
	"os"
	"testing"

	"github.com/huderlem/poryscript/emitter"
	"github.com/huderlem/poryscript/lexer"
	"github.com/huderlem/poryscript/parser"
)

// C17: compiling the same input with the same options always yields byte-identical output.
// The test runs the option parsing and the compilation pipeline of main() twice with the same
// command line; only the process environment differs.
func TestRedteamC17_4_SameCommandLineSameOutput(t *testing.T) {
	input := `
script S {
	lock
	if (flag(FLAG_A)) {
		foo
	}
	release
}
`
	compileLikeMain := func() string {
		flag.CommandLine = flag.NewFlagSet("poryscript", flag.ContinueOnError)
		os.Args = []string{"poryscript", "-lm=false", "-cc", ""}
		opts := parseOptions()
		p := parser.New(lexer.New(input), readCommandConfig(opts.commandConfigFilepath), opts.fontConfigFilepath, opts.defaultFontID, opts.maxLineLength, opts.compileSwitches)
		program, err := p.ParseProgram()
		if err != nil {
			t.Fatalf("unexpected parse error: %s", err.Error())
		}
		out, err := emitter.New(program, opts.optimize, opts.enableLineMarkers, opts.inputFilepath).Emit()
		if err != nil {
			t.Fatalf("unexpected emit error: %s", err.Error())
		}
		return out
	}
	oldArgs, oldValue, wasSet := os.Args, os.Getenv("PORYSCRIPT_OPTIMIZE"), false
	if _, ok := os.LookupEnv("PORYSCRIPT_OPTIMIZE"); ok {
		wasSet = true
	}
	defer func() {
		os.Args = oldArgs
		if wasSet {
			os.Setenv("PORYSCRIPT_OPTIMIZE", oldValue)
		} else {
			os.Unsetenv("PORYSCRIPT_OPTIMIZE")
		}
	}()

	os.Unsetenv("PORYSCRIPT_OPTIMIZE")
	first := compileLikeMain()
	os.Setenv("PORYSCRIPT_OPTIMIZE", "0")
	second := compileLikeMain()
	if first != second {
		t.Fatalf("the same input compiled with the same command line gives a different output when the process environment differs\n--- first\n%s\n--- second\n%s", first, second)
	}
}
