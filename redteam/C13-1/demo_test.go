// place at: emitter/red_c13_1_test.go
package emitter

import (
	"testing"

	"github.com/huderlem/poryscript/lexer"
	"github.com/huderlem/poryscript/parser"
)

func redC13_1Compile(t *testing.T, input string) string {
	t.Helper()
	p := parser.New(lexer.New(input), parser.CommandConfig{}, "", "", 0, nil)
	program, err := p.ParseProgram()
	if err != nil {
		t.Fatalf("parse error: %s", err.Error())
	}
	out, err := New(program, false, false, "").Emit()
	if err != nil {
		t.Fatalf("emit error: %s", err.Error())
	}
	return out
}

// C13: compiling with a constant gives the same output as writing its value at the use.
func TestRedC13_1_ParenthesisedConstantValue(t *testing.T) {
	withConst := redC13_1Compile(t, `
const BASE = (FLAG_TEMP_1 + 2)
const NEXT = (BASE + 1) * 2
script MyScript {
	setvar(VAR_0x8000, BASE)
	setflag(NEXT)
	switch (var(VAR_0x8000)) {
	case NEXT: nop
	}
}
`)
	writtenOut := redC13_1Compile(t, `
script MyScript {
	setvar(VAR_0x8000, (FLAG_TEMP_1 + 2))
	setflag(((FLAG_TEMP_1 + 2) + 1) * 2)
	switch (var(VAR_0x8000)) {
	case ((FLAG_TEMP_1 + 2) + 1) * 2: nop
	}
}
`)
	if withConst != writtenOut {
		t.Fatalf("the program with constants compiles to\n%s\nbut the program with the values written out compiles to\n%s", withConst, writtenOut)
	}
}
