// place at: emitter/c09_3_demo_test.go
package emitter

import (
	"strings"
	"testing"

	"github.com/huderlem/poryscript/lexer"
	"github.com/huderlem/poryscript/parser"
)

// C09: one directive per source line, in order, and the lines concatenate to the source text
// (multi-part literals, any characters the lexer accepts - a space before the closing quote included).
func TestC09Demo3LinesConcatenateToSourceText(t *testing.T) {
	input := `script MyScript {
	msgbox("Your total is: "
	       "{STR_VAR_1}. ")
}

text MyText {
	"Price: "
	"100$"
}
`
	l := lexer.New(input)
	p := parser.New(l, parser.CommandConfig{}, "", "", 0, nil)
	program, err := p.ParseProgram()
	if err != nil {
		t.Fatal(err)
	}
	out, err := New(program, false, false, "").Emit()
	if err != nil {
		t.Fatal(err)
	}
	for _, want := range []string{
		"MyScript_Text_0:\n\t.string \"Your total is: \"\n\t.string \"{STR_VAR_1}. $\"\n",
		"MyText::\n\t.string \"Price: \"\n\t.string \"100$\"\n",
	} {
		if !strings.Contains(out, want) {
			t.Errorf("output lacks %q:\n%s", want, out)
		}
	}
}
