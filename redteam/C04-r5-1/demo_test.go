// place at: emitter/c04_1_demo_test.go
package emitter_test

import (
	"regexp"
	"strings"
	"testing"

	"github.com/huderlem/poryscript/emitter"
	"github.com/huderlem/poryscript/lexer"
	"github.com/huderlem/poryscript/parser"
)

// C04: every label used by a generated jump or case is defined in the output.
func TestC04_1_ReferencedLabelsAreDefined(t *testing.T) {
	srcs := []string{
		"script(local) S {\n\tif (flag(FLAG_A)) {\n\t}\n\tfoo\n}\n",
		"script(local) S {\n\tswitch (var(VAR_A)) {\n\tcase 1:\n\t\tfoo\n\tdefault:\n\t\tbar\n\tcase 2:\n\t}\n\tbaz\n}\n",
		"mapscripts M {\n\tMAP_SCRIPT_ON_LOAD {\n\t\twhile (flag(FLAG_A)) {\n\t\t}\n\t}\n}\n",
		"script S {\n\tif (flag(FLAG_A)) {\n\t}\n\tfoo\n}\n",
	}
	ref := regexp.MustCompile(`(?m)^\t(?:goto|goto_if_\w+|goto_if|case)\b.*?\b(\w+_\d+)$`)
	for _, src := range srcs {
		prog, err := parser.New(lexer.New(src), parser.CommandConfig{}, "", "", 0, nil).ParseProgram()
		if err != nil {
			t.Fatal(err)
		}
		for _, optimize := range []bool{false, true} {
			out, err := emitter.New(prog, optimize, false, "").Emit()
			if err != nil {
				t.Fatal(err)
			}
			for _, m := range ref.FindAllStringSubmatch(out, -1) {
				label := m[1]
				if !strings.Contains("\n"+out, "\n"+label+":") {
					t.Errorf("optimize=%v: label %s is referenced (%q) but never defined:\n%s", optimize, label, strings.TrimSpace(m[0]), out)
				}
			}
		}
	}
}
