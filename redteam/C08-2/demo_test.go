// place at: emitter/red_c08_2_test.go
package emitter

import (
	"strings"
	"testing"

	"github.com/huderlem/poryscript/lexer"
	"github.com/huderlem/poryscript/parser"
)

// C08: a mapscripts statement emits its header label and the '.byte 0' terminator for any
// number of entries - also for none (the map header of the decomp refers to the label).
func TestRedC08_2_EmptyMapScripts(t *testing.T) {
	input := `
mapscripts MyMap_MapScripts {
}

script MyScript {
	lock
}
`
	p := parser.New(lexer.New(input), parser.CommandConfig{}, "", "", 0, nil)
	program, err := p.ParseProgram()
	if err != nil {
		t.Fatalf("parse error: %s", err.Error())
	}
	out, err := New(program, false, false, "").Emit()
	if err != nil {
		t.Fatalf("emit error: %s", err.Error())
	}
	if !strings.HasPrefix(out, "MyMap_MapScripts::\n\t.byte 0\n\n") {
		t.Fatalf("the mapscripts header 'MyMap_MapScripts::' with its '.byte 0' terminator is missing:\n%q", out)
	}
}
