// place at: emitter/c16_1_demo_test.go
package emitter

import (
	"strings"
	"testing"

	"github.com/huderlem/poryscript/lexer"
	"github.com/huderlem/poryscript/parser"
)

// A case value that is spread over two lines: the marker in front of the
// "case" line of the output has to name the line on which the value starts.
func TestC16CaseMarkerNamesLineOfCaseValue(t *testing.T) {
	input := "script S {\n" + // 1
		"\tswitch (var(VAR_1)) {\n" + // 2
		"\tcase FOO\n" + // 3: the value starts here
		"\t\tBAR\n" + // 4
		"\t\t:\n" + // 5
		"\t\tlock\n" + // 6
		"\t}\n" + // 7
		"}\n"
	p := parser.New(lexer.New(input), parser.CommandConfig{}, "", "", 0, nil)
	program, err := p.ParseProgram()
	if err != nil {
		t.Fatal(err)
	}
	out, err := New(program, false, true, "in.pory").Emit()
	if err != nil {
		t.Fatal(err)
	}
	lines := strings.Split(out, "\n")
	found := false
	for i, line := range lines {
		if strings.HasPrefix(line, "\tcase FOO BAR,") {
			found = true
			if i == 0 || lines[i-1] != "# 3 \"in.pory\"" {
				t.Fatalf("marker in front of %q is %q, expected %q\n%s", line, lines[i-1], "# 3 \"in.pory\"", out)
			}
		}
	}
	if !found {
		t.Fatalf("no case line in output:\n%s", out)
	}
}
