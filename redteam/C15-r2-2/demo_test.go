// place at: emitter/redteam_c15_2_test.go
package emitter_test

import (
	"strings"
	"testing"

	"github.com/huderlem/poryscript/emitter"
	"github.com/huderlem/poryscript/lexer"
	"github.com/huderlem/poryscript/parser"
)

// C15: "A top-level name is exported ('::') or file-local (':') exactly as its scope modifier says
// ... every label the compiler invents - ... inline map scripts ... - is local."
func TestRedTeamC15_2_EmptyScriptsKeepTheirScope(t *testing.T) {
	input := `
script(local) MyStub {
}

script(local) MyOther {
	lock
}

mapscripts MyMapScripts {
	MAP_SCRIPT_ON_LOAD {
	}
}
`
	p := parser.New(lexer.New(input), parser.CommandConfig{}, "", "", 0, nil)
	program, err := p.ParseProgram()
	if err != nil {
		t.Fatal(err)
	}
	out, err := emitter.New(program, false, false, "").Emit()
	if err != nil {
		t.Fatal(err)
	}
	for _, want := range []string{"MyStub:\n", "MyOther:\n", "MyMapScripts_MAP_SCRIPT_ON_LOAD:\n"} {
		if !strings.Contains(out, want) {
			t.Errorf("missing local label %q in\n%s", want, out)
		}
	}
	for _, bad := range []string{"MyStub::", "MyMapScripts_MAP_SCRIPT_ON_LOAD::"} {
		if strings.Contains(out, bad) {
			t.Errorf("label exported although it is local: %q in\n%s", bad, out)
		}
	}
}
