// place at: parser/zz_demo_test.go
package parser

import (
	"os"
	"path/filepath"
	"testing"

	"github.com/huderlem/poryscript/lexer"
)

// Compiling the same input with the same options always yields byte-identical output.
func TestDemoSameInputSameOutput(t *testing.T) {
	// A font config that lists two fonts and names no default font.
	config := `{
  "fonts": {
    "small": {"widths": {"default": 1}, "maxLineLength": 40, "numLines": 2, "cursorOverlapWidth": 0},
    "large": {"widths": {"default": 10}, "maxLineLength": 40, "numLines": 2, "cursorOverlapWidth": 0}
  }
}`
	path := filepath.Join(t.TempDir(), "fonts.json")
	if err := os.WriteFile(path, []byte(config), 0o644); err != nil {
		t.Fatal(err)
	}
	input := `text Greeting { format("aaa bbb ccc ddd") }`
	compile := func() string {
		p := New(lexer.New(input), CommandConfig{}, path, "", 0, nil)
		program, err := p.ParseProgram()
		if err != nil {
			return "error: " + err.Error()
		}
		return program.Texts[0].Value
	}
	first := compile()
	for i := 0; i < 200; i++ {
		if got := compile(); got != first {
			t.Fatalf("compilation %d of the same input differs from the first one:\nfirst: %q\nnow:   %q", i+2, first, got)
		}
	}
}
