// place at: emitter/redteam_c13_2_test.go
package emitter

import (
	"strings"
	"testing"

	"github.com/huderlem/poryscript/lexer"
	"github.com/huderlem/poryscript/parser"
)

// C13: constants never rewrite command names, movement steps, labels or text content.
func TestRedteamC13_2_LabelNamedLikeAConstant(t *testing.T) {
	input := `
const Retry = 3

script MyScript {
	setvar(VAR_TRIES, Retry)
Retry:
	special(DoSomething)
	subvar(VAR_TRIES, 1)
	goto_if_ne(VAR_TRIES, 0, MyScript_Again)
	end
}
`
	p := parser.New(lexer.New(input), parser.CommandConfig{}, "../font_config.json", "", 0, nil)
	program, err := p.ParseProgram()
	if err != nil {
		t.Fatal(err)
	}
	out, err := New(program, false, false, "").Emit()
	if err != nil {
		t.Fatal(err)
	}
	want := "MyScript::\n\tsetvar VAR_TRIES, 3\nRetry:\n\tspecial DoSomething\n"
	if !strings.HasPrefix(out, want) {
		t.Fatalf("the label statement 'Retry:' must stay as written (only the argument of setvar is a use of the constant).\nwant prefix:\n%s\ngot:\n%s", want, out)
	}
}
