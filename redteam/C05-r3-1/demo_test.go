// place at: emitter/redteam_c05_1_test.go
package emitter

import (
	"regexp"
	"strings"
	"testing"

	"github.com/huderlem/poryscript/lexer"
	"github.com/huderlem/poryscript/parser"
)

// C05: the optimized and unoptimized outputs behave identically from every script entry;
// optimisation only reorders code and removes jumps.  (Also C04: every label used by a
// generated jump or case is defined in that output.)
func TestRedteamC05_1_CaseTargetsExistInBothForms(t *testing.T) {
	input := `
script Nurse {
	lock
	switch (var(VAR_RESULT)) {
	default:
		msgbox("We hope to see you again!")
	case 1:
		msgbox("OK, we'll need your POKeMON.")
	case 2:
	}
}
`
	refRE := regexp.MustCompile(`\b(Nurse_-?\d+)\b`)
	for _, optimize := range []bool{false, true} {
		p := parser.New(lexer.New(input), parser.CommandConfig{}, "", "", 0, nil)
		program, err := p.ParseProgram()
		if err != nil {
			t.Fatalf("optimize=%v: unexpected parse error: %s", optimize, err)
		}
		out, err := New(program, optimize, false, "").Emit()
		if err != nil {
			t.Fatalf("optimize=%v: unexpected emit error: %s", optimize, err)
		}
		defined := map[string]bool{}
		for _, line := range strings.Split(out, "\n") {
			if strings.HasSuffix(line, ":") && !strings.HasPrefix(line, "\t") {
				defined[strings.TrimRight(line, ":")] = true
			}
		}
		for _, line := range strings.Split(out, "\n") {
			if !strings.HasPrefix(line, "\t") {
				continue
			}
			for _, ref := range refRE.FindAllString(line, -1) {
				if !defined[ref] {
					t.Errorf("optimize=%v: %q refers to label %s, which the output does not define:\n%s", optimize, strings.TrimSpace(line), ref, out)
				}
			}
		}
		// value 2 has a case of its own that does nothing: it must leave the script, in both forms
		if !regexp.MustCompile(`\tcase 2, Nurse_\d+\n`).MatchString(out) {
			t.Errorf("optimize=%v: no well-formed 'case 2' line:\n%s", optimize, out)
		}
	}
}
