// place at: emitter/c04_1_demo_test.go
package emitter

import (
	"strings"
	"testing"

	"github.com/huderlem/poryscript/lexer"
	"github.com/huderlem/poryscript/parser"
)

// C04: every label the author wrote inside a script is still there exactly once, even when it
// sits in unreachable code; every label that is referenced is defined in the output.
func TestC04_1_LabelAfterEndIsKept(t *testing.T) {
	input := `
script Foo {
	lock
	if (flag(FLAG_A)) {
		call(Foo_Sub)
		end
	Foo_Sub:
		faceplayer
		return
	}
	release
}
`
	for _, optimize := range []bool{false, true} {
		l := lexer.New(input)
		p := parser.New(l, parser.CommandConfig{}, "", "", 0, nil)
		program, err := p.ParseProgram()
		if err != nil {
			t.Fatal(err)
		}
		out, err := New(program, optimize, false, "").Emit()
		if err != nil {
			t.Fatal(err)
		}
		if n := strings.Count(out, "\nFoo_Sub:\n"); n != 1 {
			t.Errorf("optimize=%v: label Foo_Sub is defined %d times, expected exactly once (it is still called by 'call Foo_Sub'):\n%s", optimize, n, out)
		}
	}
}
