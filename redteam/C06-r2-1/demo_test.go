// place at: emitter/zz_c06_1_demo_test.go
package emitter_test

import (
	"strings"
	"testing"

	"github.com/huderlem/poryscript/emitter"
	"github.com/huderlem/poryscript/lexer"
	"github.com/huderlem/poryscript/parser"
)

// C06: identical content of the same string type shares ONE label across the whole
// file, whatever command uses it.
func TestC06_1_IdenticalTextSharesOneLabelAcrossCommands(t *testing.T) {
	src := `
script A {
	msgbox("Hello$")
	message("Hello$")
}
`
	p := parser.New(lexer.New(src), parser.CommandConfig{}, "", "", 0, nil)
	program, err := p.ParseProgram()
	if err != nil {
		t.Fatalf("unexpected parse error: %v", err)
	}
	out, err := emitter.New(program, false, false, "").Emit()
	if err != nil {
		t.Fatalf("unexpected emit error: %v", err)
	}
	if n := strings.Count(out, `.string "Hello$"`); n != 1 {
		t.Errorf("the text \"Hello$\" is defined %d times, expected exactly once:\n%s", n, out)
	}
	if !strings.Contains(out, "\tmsgbox A_Text_0\n") || !strings.Contains(out, "\tmessage A_Text_0\n") {
		t.Errorf("both commands must refer to the shared label A_Text_0:\n%s", out)
	}
	if strings.Contains(out, "A_Text_1") {
		t.Errorf("a second label was generated for identical content:\n%s", out)
	}
}
