// place at: emitter/c10_2_demo_test.go
package emitter

import (
	"strings"
	"testing"

	"github.com/huderlem/poryscript/lexer"
	"github.com/huderlem/poryscript/parser"
)

// C10: a command reaches the output as its unchanged name followed by exactly its source
// argument tokens (numbers: decimal, hex, negative).
func TestC10HexArgumentTokensUnchanged(t *testing.T) {
	input := `
script Colors {
	setvar(VAR_0x8004, 0x2a)
	loadpalette(gPal_0xbeef, 0xe0, -16)
	writebytetoaddr(0xff, 0x0203abcd)
}`
	want := []string{
		"\tsetvar VAR_0x8004, 0x2a",
		"\tloadpalette gPal_0xbeef, 0xe0, -16",
		"\twritebytetoaddr 0xff, 0x0203abcd",
		"\treturn",
	}
	p := parser.New(lexer.New(input), parser.CommandConfig{}, "", "", 0, nil)
	program, err := p.ParseProgram()
	if err != nil {
		t.Fatal(err)
	}
	out, err := New(program, true, false, "").Emit()
	if err != nil {
		t.Fatal(err)
	}
	var got []string
	for _, line := range strings.Split(out, "\n") {
		if strings.HasPrefix(line, "\t") {
			got = append(got, line)
		}
	}
	if strings.Join(got, "\n") != strings.Join(want, "\n") {
		t.Errorf("command lines\n got: %q\nwant: %q", got, want)
	}
}
