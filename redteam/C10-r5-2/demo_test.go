// place at: emitter/c10_2_demo_test.go
package emitter_test

import (
	"strings"
	"testing"

	"github.com/huderlem/poryscript/emitter"
	"github.com/huderlem/poryscript/lexer"
	"github.com/huderlem/poryscript/parser"
)

// C10: every command statement reaches the output as one line made of its unchanged name;
// commands are never dropped. Command names are case-sensitive assembler macros: END / Return
// are not the built-in end / return.
func TestC10_2_CommandNameUnchanged(t *testing.T) {
	for _, name := range []string{"END", "Return", "End", "RETURN"} {
		src := "script S {\n\tlock\n\t" + name + "\n}\n"
		prog, err := parser.New(lexer.New(src), parser.CommandConfig{}, "", "", 0, nil).ParseProgram()
		if err != nil {
			t.Fatal(err)
		}
		for _, optimize := range []bool{false, true} {
			out, err := emitter.New(prog, optimize, false, "").Emit()
			if err != nil {
				t.Fatal(err)
			}
			if !strings.Contains(out, "\t"+name+"\n") {
				t.Errorf("optimize=%v: command %q does not reach the output under its own name:\n%s", optimize, name, out)
			}
		}
	}
}
