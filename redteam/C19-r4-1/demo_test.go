// place at: lexer/redteam_c19_1_test.go
package lexer

import (
	"testing"
	"unicode/utf8"

	"github.com/huderlem/poryscript/token"
)

// C19: "for single-line tokens other than raw strings the end column is start plus length"
// (in bytes and in characters).
func TestRedteamC19ZeroNumberEndColumn(t *testing.T) {
	for _, src := range []string{
		"0",                 // a number that starts with 0 at the very end of the input
		"setvar(VAR_A, 0",   // the same, truncated program
		"0x1F",              // hex number at the end of the input
		"0é",                // followed by a character of two bytes
		"x 0x2A→",           // hex number followed by a character of three bytes
		"compare(VAR, 007)", // control: followed by ASCII
	} {
		l := New(src)
		for {
			tok := l.NextToken()
			if tok.Type == token.EOF {
				break
			}
			if tok.Type != token.INT {
				continue
			}
			wantEnd := tok.StartCharIndex + len(tok.Literal)
			wantEndUtf8 := tok.StartUtf8CharIndex + utf8.RuneCountInString(tok.Literal)
			if tok.EndCharIndex != wantEnd || tok.EndUtf8CharIndex != wantEndUtf8 {
				t.Errorf("input %q: INT %q starts at byte %d / char %d, has %d bytes; end reported as byte %d / char %d, want %d / %d",
					src, tok.Literal, tok.StartCharIndex, tok.StartUtf8CharIndex, len(tok.Literal), tok.EndCharIndex, tok.EndUtf8CharIndex, wantEnd, wantEndUtf8)
			}
		}
	}
}
