// place at: emitter/redteam_c03_2_test.go
package emitter

import (
	"fmt"
	"strings"
	"testing"

	"github.com/huderlem/poryscript/lexer"
	"github.com/huderlem/poryscript/parser"
)

// A case without a body shares the body of the next case that has one - however many
// body-less cases stand in between.
func TestRedteamC03LongRunOfSharedCases(t *testing.T) {
	var sb strings.Builder
	sb.WriteString("script S {\n\tswitch (var(VAR_X)) {\n")
	for k := 1; k <= 10; k++ {
		sb.WriteString(fmt.Sprintf("\t\tcase %d:\n", k))
	}
	sb.WriteString("\t\tcase 11:\n\t\t\tshared\n\t}\n\tafter\n}\n")
	p := parser.New(lexer.New(sb.String()), parser.CommandConfig{}, "", "", 0, nil)
	program, err := p.ParseProgram()
	if err != nil {
		t.Fatalf("parse error: %s", err)
	}
	for _, optimize := range []bool{false, true} {
		out, err := New(program, optimize, false, "").Emit()
		if err != nil {
			t.Fatalf("emit error: %s", err)
		}
		if !strings.Contains(out, "\tswitch VAR_X\n") || !strings.Contains(out, "\tshared\n") {
			t.Fatalf("optimize=%v: the switch or its only body is not emitted at all:\n%s", optimize, out)
		}
		// every one of the eleven values leads to the chunk that holds 'shared'
		dest := ""
		for k := 1; k <= 11; k++ {
			prefix := fmt.Sprintf("\tcase %d, ", k)
			i := strings.Index(out, prefix)
			if i < 0 {
				t.Errorf("optimize=%v: no case line for value %d:\n%s", optimize, k, out)
				continue
			}
			rest := out[i+len(prefix):]
			label := rest[:strings.Index(rest, "\n")]
			if dest == "" {
				dest = label
			} else if label != dest {
				t.Errorf("optimize=%v: value %d goes to %s, value 1 to %s", optimize, k, label, dest)
			}
		}
		if dest != "" && !strings.Contains(out, dest+":\n\tshared\n") {
			t.Errorf("optimize=%v: the cases lead to %s, which does not hold the shared body:\n%s", optimize, dest, out)
		}
	}
}
