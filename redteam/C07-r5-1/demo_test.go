// place at: parser/redteam5_c07_1_test.go
package parser_test

import (
	"strings"
	"testing"

	"github.com/huderlem/poryscript/lexer"
	"github.com/huderlem/poryscript/parser"
)

// C07: "Every produced line is at most maxLineLength pixels wide, including the cursor overlap on
// lines where the continue-prompt is shown", for parameters "given positionally, by name or through
// the font config". Font 1_latin_frlg of the shipped font_config.json: maxLineLength 208,
// cursorOverlapWidth 10. With numLines=1 every line but the last of the text shows the prompt.
func TestRedTeam5C07_1_CursorRoomFromFontConfigWithOneLineBox(t *testing.T) {
	fc, err := parser.LoadFontConfig("../font_config.json")
	if err != nil {
		t.Fatal(err)
	}
	font := fc.Fonts["1_latin_frlg"]
	width := func(line string) int {
		w := 0
		for _, r := range line {
			if v, ok := font.Widths[string(r)]; ok {
				w += v
			} else {
				w += font.Widths["default"]
			}
		}
		return w
	}
	// A deterministic stream of words of irregular widths.
	letters := "milwa"
	var wb strings.Builder
	seed := 7
	for i := 0; i < 150; i++ {
		seed = (seed*73 + 41) % 1009
		for j := 0; j <= seed%5; j++ {
			wb.WriteByte(letters[(seed+j*j)%5])
		}
		wb.WriteByte(' ')
	}
	words := wb.String()
	input := "text T {\n\tformat(\"" + strings.TrimSpace(words) + "\", \"1_latin_frlg\", numLines=1)\n}\n"
	p := parser.New(lexer.New(input), parser.CommandConfig{}, "../font_config.json", "", 0, nil)
	program, err := p.ParseProgram()
	if err != nil {
		t.Fatal(err)
	}
	lines := strings.Split(program.Texts[0].Value, "\n")
	if len(lines) < 3 {
		t.Fatalf("expected several lines, got %q", program.Texts[0].Value)
	}
	for i, line := range lines[:len(lines)-1] {
		body := strings.TrimSuffix(strings.TrimSuffix(line, `\l`), `\n`)
		if w := width(body) + font.CursorOverlapWidth; w > font.MaxLineLength {
			t.Errorf("line %d %q: %d px of text + %d px cursor room = %d px > maxLineLength %d", i, body, width(body), font.CursorOverlapWidth, w, font.MaxLineLength)
		}
	}
}
