// place at: emitter/zz_demo_test.go
package emitter

import (
	"strings"
	"testing"

	"github.com/huderlem/poryscript/lexer"
	"github.com/huderlem/poryscript/parser"
)

// Every command statement — with arguments made of identifiers, numbers, operators, keywords
// and nested parentheses — reaches the output as one line.
func TestDemoOperatorsInArguments(t *testing.T) {
	input := `
script Prize {
	setvar(VAR_RESULT, NUM_BADGES * 4)
	addvar(VAR_RESULT, (2 * 3) + 1)
	callnative(GivePrize, VAR_RESULT)
}
`
	want := []string{
		"\tsetvar VAR_RESULT, NUM_BADGES * 4",
		"\taddvar VAR_RESULT, ( 2 * 3 ) + 1",
		"\tcallnative GivePrize, VAR_RESULT",
	}
	l := lexer.New(input)
	p := parser.New(l, parser.CommandConfig{}, "", "", 0, nil)
	program, err := p.ParseProgram()
	if err != nil {
		t.Fatalf("the script is not accepted: %v", err)
	}
	out, err := New(program, true, false, "").Emit()
	if err != nil {
		t.Fatalf("emit: %v", err)
	}
	for _, line := range want {
		if !strings.Contains(out, line+"\n") {
			t.Errorf("missing command line %q in output:\n%s", line, out)
		}
	}
}
