// place at: emitter/x4_c09_1_demo_test.go
package emitter

import (
	"regexp"
	"strings"
	"testing"

	"github.com/huderlem/poryscript/lexer"
	"github.com/huderlem/poryscript/parser"
)

// C09 (format origin): the directive lines emitted under a text's label concatenate to
// the text that was written (here: what format() makes of it - words and explicit break
// codes in order, C07) followed by exactly one terminator.
func TestX4C09_1_FormattedTextKeepsItsLastBreakCode(t *testing.T) {
	input := `
script S {
	msgbox(format("Wait for it...\p", "TEST", 1000))
}

text T {
	format("Hello there\p", "TEST", 1000)
}

text U {
	format("One\lTwo\l", "TEST", 1000)
}
`
	p := parser.New(lexer.New(input), parser.CommandConfig{}, "../font_config.json", "", 0, nil)
	program, err := p.ParseProgram()
	if err != nil {
		t.Fatal(err)
	}
	out, err := New(program, false, false, "").Emit()
	if err != nil {
		t.Fatal(err)
	}
	lineRe := regexp.MustCompile(`^\t\.string "(.*)"$`)
	texts := map[string]string{}
	cur := ""
	for _, l := range strings.Split(out, "\n") {
		if strings.HasSuffix(l, ":") && !strings.HasPrefix(l, "\t") {
			cur = strings.TrimRight(l, ":")
			continue
		}
		if m := lineRe.FindStringSubmatch(l); m != nil {
			texts[cur] += m[1]
		}
	}
	want := map[string]string{
		"S_Text_0": `Wait for it...\p$`,
		"T":        `Hello there\p$`,
		"U":        `One\lTwo\l$`,
	}
	for name, w := range want {
		if texts[name] != w {
			t.Errorf("text %s: emitted lines concatenate to %q, expected %q\n%s", name, texts[name], w, out)
		}
	}
}
