// place at: parser/zz_demo_test.go
package parser

import (
	"os"
	"path/filepath"
	"testing"

	"github.com/huderlem/poryscript/lexer"
)

// The code emitted for one top-level statement does not depend on which other statements
// are in the file.
func TestDemoTextDoesNotDependOnUnrelatedScript(t *testing.T) {
	// A font config without "defaultFontId".
	config := `{
  "fonts": {
    "big": {"widths": {"default": 10}, "maxLineLength": 40, "numLines": 2, "cursorOverlapWidth": 0}
  }
}`
	path := filepath.Join(t.TempDir(), "fonts.json")
	if err := os.WriteFile(path, []byte(config), 0o644); err != nil {
		t.Fatal(err)
	}
	subject := `text Subject { format("one two three four five six") }`
	unrelated := `script Unrelated { msgbox(format("hello there", "big")) }
`
	valueOfSubject := func(input string) string {
		p := New(lexer.New(input), CommandConfig{}, path, "", 0, nil)
		program, err := p.ParseProgram()
		if err != nil {
			t.Fatalf("parse: %v", err)
		}
		for _, text := range program.Texts {
			if text.Name == "Subject" {
				return text.Value
			}
		}
		t.Fatal("text Subject not found")
		return ""
	}
	alone := valueOfSubject(subject)
	after := valueOfSubject(unrelated + subject)
	if alone != after {
		t.Errorf("text Subject is compiled differently when an unrelated script precedes it:\nalone: %q\nafter: %q", alone, after)
	}
}
