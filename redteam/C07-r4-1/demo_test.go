// place at: parser/z4_c07_1_demo_test.go
package parser_test

import (
	"strings"
	"testing"

	"github.com/huderlem/poryscript/lexer"
	"github.com/huderlem/poryscript/parser"
)

// C07: format() keeps all words and explicit break codes in order - nothing is lost.
// A break code at the very end of the text (a text that ends with \p so that the next
// message opens in a fresh box) must still be there after formatting.
func TestZ4C07_1_TrailingBreakCodeIsKept(t *testing.T) {
	fc := parser.FontConfig{}
	for _, tt := range []struct{ in, want string }{
		{`Hello there.\pGood bye.\p`, "Hello\\n\nthere.\\p\nGood bye.\\p\n"},
		{`One two\n`, "One two\\n\n"},
		{`One two \l`, "One two\\l\n"},
		{`First\NSecond\N`, "First\\n\nSecond\\l\n"},
	} {
		got, err := fc.FormatText(tt.in, 100, 0, "TEST", 2)
		if err != nil {
			t.Fatal(err)
		}
		if got != tt.want {
			t.Errorf("FormatText(%q) = %q, want %q (the final break code was lost)", tt.in, got, tt.want)
		}
	}
}

// The same through the compiler front end: format() inside a command and a text statement.
func TestZ4C07_1_TrailingBreakCodeIsKept_Program(t *testing.T) {
	src := `
script S {
	msgbox(format("Hello there.\pGood bye.\p", "TEST", 100))
}
text T {
	format("One two\p", "TEST", 100)
}
`
	p := parser.New(lexer.New(src), parser.CommandConfig{}, "../font_config.json", "", 0, nil)
	prog, err := p.ParseProgram()
	if err != nil {
		t.Fatal(err)
	}
	for _, text := range prog.Texts {
		flat := strings.ReplaceAll(text.Value, "\n", "")
		if !strings.HasSuffix(flat, `\p$`) {
			t.Errorf("text %s = %q: the \\p the author wrote at the end of the text is gone", text.Name, text.Value)
		}
	}
}
