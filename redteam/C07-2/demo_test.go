// place at: parser/c07_2_demo_test.go
package parser

import (
	"testing"

	"github.com/huderlem/poryscript/lexer"
)

// C07: breaks follow the text-box discipline for the numLines value that was given by name:
// with numLines=1 every break (wrap, and '\N') is '\l'.
func TestC07Demo2NamedNumLinesOne(t *testing.T) {
	input := `
text MyText {
	format("aaa bbb ccc\Nddd", fontId="1_latin_rse", maxLineLength=20, numLines=1)
}
`
	l := lexer.New(input)
	p := New(l, CommandConfig{}, "../font_config.json", "", 0, nil)
	program, err := p.ParseProgram()
	if err != nil {
		t.Fatal(err)
	}
	if len(program.Texts) != 1 {
		t.Fatalf("expected 1 text, got %d", len(program.Texts))
	}
	want := "aaa\\l\nbbb\\l\nccc\\l\nddd$"
	if got := program.Texts[0].Value; got != want {
		t.Fatalf("format(..., numLines=1): got %q, want %q", got, want)
	}
}
