// place at: redteam5_c09_2_test.go
package main

import (
	"os"
	"path/filepath"
	"strings"
	"testing"

	"github.com/huderlem/poryscript/emitter"
	"github.com/huderlem/poryscript/lexer"
	"github.com/huderlem/poryscript/parser"
)

// C09: every text is emitted line by line and "the lines concatenate to the source text", for
// "all string contents (any characters the lexer accepts ...)". Same pipeline as main().
func TestRedTeam5C09_2_TabInsideATextSurvivesTheCommandLineTool(t *testing.T) {
	path := filepath.Join(t.TempDir(), "in.pory")
	source := "text T {\n\t\"Name:\tRED\"\n}\n"
	if err := os.WriteFile(path, []byte(source), 0o644); err != nil {
		t.Fatal(err)
	}
	input, err := getInput(path)
	if err != nil {
		t.Fatal(err)
	}
	program, err := parser.New(lexer.New(input), parser.CommandConfig{}, "", "", 0, nil).ParseProgram()
	if err != nil {
		t.Fatal(err)
	}
	out, err := emitter.New(program, false, false, path).Emit()
	if err != nil {
		t.Fatal(err)
	}
	want := "T::\n\t.string \"Name:\tRED$\"\n"
	if !strings.Contains(out, want) {
		t.Errorf("expected %q in the output, got %q", want, out)
	}
}
