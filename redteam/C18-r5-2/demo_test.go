// place at: parser/c18_demo2_test.go
package parser_test

import (
	"testing"

	"github.com/huderlem/poryscript/lexer"
	"github.com/huderlem/poryscript/parser"
)

// C18: lint mode accepts every program normal mode accepts.
func TestC18DemoLintAcceptsWhatNormalModeAccepts(t *testing.T) {
	cfg := parser.CommandConfig{AutoVarCommands: map[string]parser.AutoVarCommand{
		"checkitem": {VarName: "VAR_RESULT"},
		"random":    {VarName: "VAR_RESULT"},
	}}
	for _, input := range []string{
		"script S {\n\tif (checkitem(ITEM_POTION) == 1) {\n\t\tnop\n\t}\n}\n",
		"script S {\n\tswitch (random(4)) {\n\t\tcase 0: nop\n\t}\n}\n",
		"script S {\n\twhile (!checkitem(ITEM_POTION)) {\n\t\tnop\n\t}\n}\n",
	} {
		if _, err := parser.New(lexer.New(input), cfg, "", "", 0, nil).ParseProgram(); err != nil {
			t.Fatalf("normal mode rejects %q: %v", input, err)
		}
		if _, err := parser.NewLintParser(lexer.New(input), cfg).ParseProgram(); err != nil {
			t.Errorf("normal mode accepts %q, lint mode rejects it: %v", input, err)
		}
	}
}
