// place at: parser/x5_c18_1_demo_test.go
package parser

import (
	"testing"

	"github.com/huderlem/poryscript/lexer"
)

// Lint mode has no font config and no switches. It must accept every program that normal
// mode accepts and must never fail because fonts are missing.
func TestX5C18_1_LintModeAcceptsWhatNormalModeAccepts(t *testing.T) {
	inputs := []string{
		`text MyText {
	format("Hello, this is some text that is wrapped", "1_latin_rse")
}`,
		`script MyScript {
	msgbox(format("Hello, this is some text that is wrapped", fontId="1_latin_frlg", maxLineLength=100))
}`,
		`script MyScript {
	msgbox(format("Hello, this is some text that is wrapped", 120, "1_latin_rse"))
}`,
	}
	for _, input := range inputs {
		normal := New(lexer.New(input), CommandConfig{}, "../font_config.json", "", 0, nil)
		if _, err := normal.ParseProgram(); err != nil {
			t.Fatalf("normal mode rejects the program: %s\n%s", err, input)
		}
		lint := NewLintParser(lexer.New(input), CommandConfig{})
		if _, err := lint.ParseProgram(); err != nil {
			t.Errorf("lint mode rejects a program that normal mode accepts: %s\n%s", err, input)
		}
	}
}
