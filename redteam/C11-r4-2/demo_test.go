// place at: emitter/zz_c11_2_demo_test.go
package emitter

// Demo for C11-2: with the shipped command_config.json, loaded the way main.go loads it
// (json.Unmarshal into parser.CommandConfig), a condition on 'checkitem' compares VAR_RESULT and a
// condition on 'specialvar' compares the var given as its first argument.

import (
	"encoding/json"
	"os"
	"strings"
	"testing"

	"github.com/huderlem/poryscript/lexer"
	"github.com/huderlem/poryscript/parser"
)

func TestC11_2_ShippedConfigNamesTheResultVar(t *testing.T) {
	data, err := os.ReadFile("../command_config.json")
	if err != nil {
		t.Fatal(err)
	}
	var config parser.CommandConfig
	if err := json.Unmarshal(data, &config); err != nil {
		t.Fatal(err)
	}
	src := `
script MyScript {
    if (checkitem(ITEM_POTION, 1)) {
        havepotion
    }
    if (specialvar(VAR_TEMP_1, GetThing) == 3) {
        three
    }
    switch (getpartysize) {
        case 6:
            full
    }
}`
	p := parser.New(lexer.New(src), config, "", "", 0, nil)
	program, err := p.ParseProgram()
	if err != nil {
		t.Fatalf("parse error: %v", err)
	}
	asm, err := New(program, false, false, "").Emit()
	if err != nil {
		t.Fatalf("emit error: %v", err)
	}
	for _, want := range []string{
		"\tcheckitem ITEM_POTION, 1\n\tcompare VAR_RESULT, 0\n\tgoto_if_ne ",
		"\tspecialvar VAR_TEMP_1, GetThing\n\tcompare VAR_TEMP_1, 3\n\tgoto_if_eq ",
		"\tgetpartysize\n",
		"\tswitch VAR_RESULT\n",
	} {
		if !strings.Contains(asm, want) {
			t.Errorf("the emitted script does not contain %q:\n%s", want, asm)
		}
	}
}
