// place at: emitter/c14_2_demo_test.go
package emitter

import (
	"testing"

	"github.com/huderlem/poryscript/lexer"
	"github.com/huderlem/poryscript/parser"
)

// C14: a movement block emits its steps in source order, 'step * N' as exactly N copies,
// then exactly one step_end - for the statement form and for moves().
func TestDemoMovementEmitsEveryStep(t *testing.T) {
	src := `movement M { walk_up lock_facing_direction * 2 walk_down lock_anim lock_anim }
script S { applymovement(2, moves(lock_anim * 3)) }`
	p := parser.New(lexer.New(src), parser.CommandConfig{}, "", "", 0, nil)
	program, err := p.ParseProgram()
	if err != nil {
		t.Fatal(err)
	}
	out, err := New(program, false, false, "").Emit()
	if err != nil {
		t.Fatal(err)
	}
	want := "M:\n\twalk_up\n\tlock_facing_direction\n\tlock_facing_direction\n\twalk_down\n\tlock_anim\n\tlock_anim\n\tstep_end\n\n" +
		"S::\n\tapplymovement 2, S_Movement_0\n\treturn\n\n\n" +
		"S_Movement_0:\n\tlock_anim\n\tlock_anim\n\tlock_anim\n\tstep_end\n"
	if out != want {
		t.Fatalf("want:\n%q\ngot:\n%q", want, out)
	}
}
