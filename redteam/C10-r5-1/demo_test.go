// place at: emitter/c10_1_demo_test.go
package emitter_test

import (
	"strings"
	"testing"

	"github.com/huderlem/poryscript/emitter"
	"github.com/huderlem/poryscript/lexer"
	"github.com/huderlem/poryscript/parser"
)

// C10: a command reaches the output as its unchanged name followed by exactly its source
// argument tokens in order, commas preserved, spacing normalised. So with all white space
// removed, the rendered line is the source command without its outer parentheses.
func TestC10_1_ArgumentTokensUnchanged(t *testing.T) {
	for _, args := range []string{"0x1F", "0XFF", "VAR_RESULT, 0X8000", "-0X10", "(0Xab)"} {
		src := "script S {\n\tsetvar(" + args + ")\n}\n"
		prog, err := parser.New(lexer.New(src), parser.CommandConfig{}, "", "", 0, nil).ParseProgram()
		if err != nil {
			t.Fatalf("%q: %v", args, err)
		}
		for _, optimize := range []bool{false, true} {
			out, err := emitter.New(prog, optimize, false, "").Emit()
			if err != nil {
				t.Fatalf("%q: %v", args, err)
			}
			lines := strings.Split(out, "\n")
			if len(lines) < 2 {
				t.Fatalf("%q: unexpected output %q", args, out)
			}
			squeeze := func(s string) string { return strings.Join(strings.Fields(s), "") }
			want := squeeze("setvar" + args)
			if got := squeeze(lines[1]); got != want {
				t.Errorf("optimize=%v: setvar(%s) rendered as %q: argument text %q, source text %q", optimize, args, lines[1], got, want)
			}
		}
	}
}
