// place at: emitter/zz_demo_test.go
package emitter

import (
	"strings"
	"testing"

	"github.com/huderlem/poryscript/lexer"
	"github.com/huderlem/poryscript/parser"
)

// Every label the author wrote inside a script is in the output exactly once — with and
// without line markers.
func TestDemoUserLabelsWithLineMarkers(t *testing.T) {
	input := `script Nurse {
	lock
	goto_if_set(FLAG_BADGE, Nurse_Congratulate)
	msgbox("Welcome!")
	release
	end
Nurse_Congratulate:
	msgbox("Congratulations!")
	release
	end
Nurse_Shared(global):
	closemessage
	return
}
`
	for _, lineMarkers := range []bool{false, true} {
		for _, opt := range []bool{false, true} {
			l := lexer.New(input)
			p := parser.New(l, parser.CommandConfig{}, "", "", 0, nil)
			program, err := p.ParseProgram()
			if err != nil {
				t.Fatalf("parse: %v", err)
			}
			out, err := New(program, opt, lineMarkers, "data/scripts/nurse.pory").Emit()
			if err != nil {
				t.Fatalf("emit: %v", err)
			}
			for _, label := range []string{"Nurse_Congratulate:", "Nurse_Shared::"} {
				n := 0
				for _, line := range strings.Split(out, "\n") {
					if line == label {
						n++
					}
				}
				if n != 1 {
					t.Errorf("optimize=%v lineMarkers=%v: label line %q appears %d times, want 1\n%s", opt, lineMarkers, label, n, out)
				}
			}
		}
	}
}
