// place at: parser/c07_1_demo_test.go
package parser

import "testing"

// A font table may list a control code in any spelling; the width of a code is
// what the table says for exactly that spelling, else the font's default.
func TestC07Demo1ControlCodeLookedUpAsWritten(t *testing.T) {
	fc := FontConfig{
		DefaultFontID: "f",
		Fonts: map[string]Fonts{
			"f": {
				Widths:        map[string]int{"default": 1, " ": 1, "{icon}": 50},
				MaxLineLength: 60,
				NumLines:      2,
			},
		},
	}
	// "{icon}" is 50 wide, "ab" 2, the blank 1: "{icon} {icon}" would be 101 > 60.
	got, err := fc.FormatText("{icon} {icon} ab", 60, 0, "f", 2)
	if err != nil {
		t.Fatal(err)
	}
	want := "{icon}\\n\n{icon} ab"
	if got != want {
		t.Fatalf("got %q, want %q (a line wider than maxLineLength was produced)", got, want)
	}
	// and the other way round: a code the table does not list has the default width,
	// even when the table lists its upper-case spelling
	fc.Fonts["f"].Widths["{BIG}"] = 50
	got, err = fc.FormatText("{big} {big} ab", 60, 0, "f", 2)
	if err != nil {
		t.Fatal(err)
	}
	if want := "{big} {big} ab"; got != want {
		t.Fatalf("got %q, want %q (a word was moved to a new line although it fits)", got, want)
	}
}
