// place at: parser/c17_1_demo_test.go
package parser_test

import (
	"testing"

	"github.com/huderlem/poryscript/emitter"
	"github.com/huderlem/poryscript/lexer"
	"github.com/huderlem/poryscript/parser"
)

// C17: compiling the same input with the same options yields the same output or the
// same error, however many compilations ran before in the process.
func TestC17_1_SameInputSameOptionsTwice(t *testing.T) {
	// The options object of the process: one switch, GAME_VERSION.
	switches := map[string]string{"GAME_VERSION": "RUBY"}
	compile := func(src string) (string, string) {
		p := parser.New(lexer.New(src), parser.CommandConfig{}, "", "", 0, switches)
		prog, err := p.ParseProgram()
		if err != nil {
			return "", err.Error()
		}
		out, err := emitter.New(prog, false, false, "").Emit()
		if err != nil {
			return "", err.Error()
		}
		return out, ""
	}
	// Text poryswitch on a switch that was not given: an error, every time.
	text := "text T {\n\tporyswitch(LANGUAGE) {\n\t\tGERMAN: \"Hallo\"\n\t\t_: \"Hello\"\n\t}\n}\n"
	out0, err0 := compile(text)
	// A movement that uses the same (unspecified) switch is compiled in between.
	compile("movement M {\n\tporyswitch(LANGUAGE) {\n\t\tGERMAN: walk_up\n\t\t_: walk_down\n\t}\n}\n")
	out1, err1 := compile(text)
	if out0 != out1 || err0 != err1 {
		t.Fatalf("same input, same options, different result:\nfirst:  out=%q err=%q\nsecond: out=%q err=%q", out0, err0, out1, err1)
	}
	if len(switches) != 1 {
		t.Fatalf("the caller's compile switches were changed by a compilation: %v", switches)
	}
}
