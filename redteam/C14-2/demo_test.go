// place at: emitter/red_c14_2_test.go
package emitter

import (
	"strings"
	"testing"

	"github.com/huderlem/poryscript/lexer"
	"github.com/huderlem/poryscript/parser"
)

func redC14_2Compile(t *testing.T, input string) string {
	t.Helper()
	p := parser.New(lexer.New(input), parser.CommandConfig{}, "", "", 0, nil)
	program, err := p.ParseProgram()
	if err != nil {
		t.Fatalf("parse error: %s", err.Error())
	}
	out, err := New(program, false, false, "").Emit()
	if err != nil {
		t.Fatalf("emit error: %s", err.Error())
	}
	return out
}

// C14: 'step * N' expands to exactly N copies for every N in 1..9999, however the
// integer N is written (the lexer accepts hexadecimal INT tokens).
func TestRedC14_2_HexMultiplier(t *testing.T) {
	out := redC14_2Compile(t, `
movement M {
	walk_up * 0x10
	face_down
}
`)
	expected := "M:\n" + strings.Repeat("\twalk_up\n", 16) + "\tface_down\n\tstep_end\n"
	if out != expected {
		t.Fatalf("expected 16 copies of walk_up:\n%q\ngot\n%q", expected, out)
	}
}

// The same number of copies inside moves().
func TestRedC14_2_LeadingZeroMultiplier(t *testing.T) {
	out := redC14_2Compile(t, `
script S {
	applymovement(0, moves(walk_up * 010))
}
`)
	// 010 is read with base prefix detection (octal) = 8
	if n := strings.Count(out, "\twalk_up\n"); n != 8 {
		t.Fatalf("expected 8 copies of walk_up for multiplier 010, got %d:\n%s", n, out)
	}
}
