// place at: emitter/redteam_c10_1_test.go
package emitter

import (
	"strings"
	"testing"

	"github.com/huderlem/poryscript/lexer"
	"github.com/huderlem/poryscript/parser"
)

// C10: every command statement reaches the output as one line made of its unchanged name
// followed by exactly its source argument tokens. Identifiers are made of Unicode letters,
// '_' and digits (lexer.isLetter), so Évoli_Text / Ωmega are single identifier tokens.
func TestRedteamC10_1_ArgumentIdentifiersPassThrough(t *testing.T) {
	input := `
script Starter {
	lock
	msgbox(Évoli_Text, MSGBOX_DEFAULT)
	setvar(VAR_RESULT, Ωmega + 1)
	release
}
`
	for _, optimize := range []bool{false, true} {
		p := parser.New(lexer.New(input), parser.CommandConfig{}, "", "", 0, nil)
		program, err := p.ParseProgram()
		if err != nil {
			t.Fatalf("optimize=%v: unexpected parse error: %s", optimize, err)
		}
		out, err := New(program, optimize, false, "").Emit()
		if err != nil {
			t.Fatalf("optimize=%v: unexpected emit error: %s", optimize, err)
		}
		for _, want := range []string{"\tmsgbox Évoli_Text, MSGBOX_DEFAULT\n", "\tsetvar VAR_RESULT, Ωmega + 1\n"} {
			if !strings.Contains(out, want) {
				t.Errorf("optimize=%v: command line %q is missing from the output:\n%s", optimize, want, out)
			}
		}
	}
}
