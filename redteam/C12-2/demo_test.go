// place at: emitter/red_c12_2_test.go
package emitter

import (
	"testing"

	"github.com/huderlem/poryscript/lexer"
	"github.com/huderlem/poryscript/parser"
)

func redC12_2Compile(t *testing.T, input string, switches map[string]string) string {
	t.Helper()
	p := parser.New(lexer.New(input), parser.CommandConfig{}, "../font_config.json", "", 0, switches)
	program, err := p.ParseProgram()
	if err != nil {
		t.Fatalf("parse error: %s", err.Error())
	}
	out, err := New(program, false, false, "").Emit()
	if err != nil {
		t.Fatalf("emit error: %s", err.Error())
	}
	return out
}

// C12: compiling a program equals compiling the program with every poryswitch replaced by
// the content of the selected case: no token of any other case influences the output.
func TestRedC12_2_UnselectedCaseDoesNotInfluenceLaterText(t *testing.T) {
	const tail = `
	msgbox(format("The quick brown fox jumps over the lazy dog while the small cat sleeps on the big red mat and the bird sings"))
}
`
	withSwitch := redC12_2Compile(t, `
script MyScript {
	poryswitch(GAME) {
		FIRERED { msgbox(format("Hello", "1_latin_frlg")) }
		_ { nop }
	}`+tail, map[string]string{"GAME": "EMERALD"})
	replaced := redC12_2Compile(t, `
script MyScript {
	nop`+tail, map[string]string{"GAME": "EMERALD"})
	if withSwitch != replaced {
		t.Fatalf("with the poryswitch (case '_' selected) the program compiles to\n%s\nbut with the poryswitch replaced by the selected case it compiles to\n%s", withSwitch, replaced)
	}
}
