// place at: emitter/c05_1_demo_test.go
package emitter

import (
	"regexp"
	"sort"
	"strings"
	"testing"

	"github.com/huderlem/poryscript/lexer"
	"github.com/huderlem/poryscript/parser"
)

// C05: the optimized and unoptimized outputs define the same user-visible labels, and
// optimisation only reorders code and removes jumps.
func TestC05OptimizeKeepsLabelsAndCommands(t *testing.T) {
	input := `
script Main {
	lock
	goto(Main_Resume)
	end
Main_Resume:
	msgbox("Resumed")
	release
	end
}`
	compile := func(optimize bool) string {
		p := parser.New(lexer.New(input), parser.CommandConfig{}, "", "", 0, nil)
		program, err := p.ParseProgram()
		if err != nil {
			t.Fatal(err)
		}
		out, err := New(program, optimize, false, "").Emit()
		if err != nil {
			t.Fatal(err)
		}
		return out
	}
	labelDef := regexp.MustCompile(`^([A-Za-z_][A-Za-z0-9_]*)::?$`)
	generated := regexp.MustCompile(`^Main_[0-9]+$`)
	summary := func(out string) (labels, commands []string) {
		for _, line := range strings.Split(out, "\n") {
			if m := labelDef.FindStringSubmatch(line); m != nil {
				if !generated.MatchString(m[1]) {
					labels = append(labels, m[1])
				}
			} else if strings.HasPrefix(line, "\t") && !strings.HasPrefix(line, "\tgoto Main_") {
				commands = append(commands, line)
			}
		}
		sort.Strings(labels)
		sort.Strings(commands)
		return
	}
	plain, opt := compile(false), compile(true)
	pl, pc := summary(plain)
	ol, oc := summary(opt)
	if strings.Join(pl, ",") != strings.Join(ol, ",") {
		t.Errorf("user-visible labels differ:\n unoptimized %v\n   optimized %v\n--- unoptimized\n%s\n--- optimized\n%s", pl, ol, plain, opt)
	}
	if strings.Join(pc, "|") != strings.Join(oc, "|") {
		t.Errorf("optimisation did more than reorder code and remove jumps:\n unoptimized %q\n   optimized %q", pc, oc)
	}
}
