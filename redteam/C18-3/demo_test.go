// place at: parser/w5_c18_3_demo_test.go
package parser

import (
	"strings"
	"testing"

	"github.com/huderlem/poryscript/lexer"
)

// Compilation returns either output or an error that carries a line range inside the
// input with start not after end.
func TestW5C18_3_EveryErrorIsLocated(t *testing.T) {
	inputs := []string{
		"text T {\n\tformat(\"Hello there\", 99999999999999999999)\n}\n",
		"script S {\n\tlock\n\tmsgbox(format(\"Hello there\", numLines=08))\n}\n",
		"text T {\n\tformat(\"Hello there\", \"TEST\", 0x)\n}\n",
	}
	for _, input := range inputs {
		numLines := strings.Count(input, "\n") + 1
		for mode, p := range map[string]*Parser{
			"normal": New(lexer.New(input), CommandConfig{}, "", "", 0, nil),
			"lint":   NewLintParser(lexer.New(input), CommandConfig{}),
		} {
			_, err := p.ParseProgram()
			if err == nil {
				continue // answered with output
			}
			pe, ok := err.(ParseError)
			if !ok {
				t.Errorf("%s mode, input %q: error %q (%T) carries no line range", mode, input, err, err)
				continue
			}
			if pe.LineNumberStart < 1 || pe.LineNumberStart > pe.LineNumberEnd || pe.LineNumberEnd > numLines {
				t.Errorf("%s mode, input %q: error range %d..%d is not inside the input (1..%d)", mode, input, pe.LineNumberStart, pe.LineNumberEnd, numLines)
			}
		}
	}
}
