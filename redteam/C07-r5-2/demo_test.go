// place at: parser/redteam5_c07_2_test.go
package parser_test

import (
	"testing"

	"github.com/huderlem/poryscript/parser"
)

// C07: every produced line is at most maxLineLength wide; a word moves to a new line only when it does
// not fit; scope "control codes in braces". A control code in braces is ONE glyph of the font table
// (TEST font: 100 px per code, 10 px per character), whatever is written between the braces.
func TestRedTeam5C07_2_ControlCodeWithLowerCaseLetters(t *testing.T) {
	fc := parser.FontConfig{}
	tests := []struct{ text, want string }{
		// 80 + 10 + 100 = 190; " bbbb" would make 240 > 200: wrap.
		{"aaaaaaaa {x} bbbb", "aaaaaaaa {x}\\n\nbbbb"},
		// 40 + 10 + 100 + 10 + 40 = 200 <= 200: one line.
		{"aaaa {PAUSE 0x10} bbbb", "aaaa {PAUSE 0x10} bbbb"},
	}
	for _, tt := range tests {
		got, err := fc.FormatText(tt.text, 200, 0, "TEST", 2)
		if err != nil {
			t.Fatal(err)
		}
		if got != tt.want {
			t.Errorf("FormatText(%q, 200 px): got %q, want %q", tt.text, got, tt.want)
		}
	}
}
