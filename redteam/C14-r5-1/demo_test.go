// place at: emitter/redteam_c14_1_test.go
package emitter

import (
	"testing"

	"github.com/huderlem/poryscript/lexer"
	"github.com/huderlem/poryscript/parser"
)

// C14: a movement block emits its steps in source order, 'step * N' expanded, one step_end;
// the scope names commas explicitly: they separate steps and are otherwise ignored, in a
// movement statement as well as in moves().
func TestRedteamC14CommasInMovementStatement(t *testing.T) {
	src := `
movement M {
	walk_up, walk_down * 2,
	face_left
}
script S {
	applymovement(1, moves(walk_up, walk_down * 2, face_left))
}
`
	p := parser.New(lexer.New(src), parser.CommandConfig{}, "", "", 0, nil)
	program, err := p.ParseProgram()
	if err != nil {
		t.Fatalf("a movement statement with commas between its steps does not compile: %s", err.Error())
	}
	out, err := New(program, false, false, "").Emit()
	if err != nil {
		t.Fatal(err)
	}
	want := `M:
	walk_up
	walk_down
	walk_down
	face_left
	step_end

S::
	applymovement 1, S_Movement_0
	return


S_Movement_0:
	walk_up
	walk_down
	walk_down
	face_left
	step_end
`
	if out != want {
		t.Fatalf("unexpected output\n--- got\n%s\n--- want\n%s", out, want)
	}
}
