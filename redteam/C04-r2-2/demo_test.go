// place at: emitter/zz_demo_test.go
package emitter

import (
	"strings"
	"testing"

	"github.com/huderlem/poryscript/lexer"
	"github.com/huderlem/poryscript/parser"
)

// Every label used by a map-script entry is defined in the output.
func TestDemoMapScriptEntriesAreDefined(t *testing.T) {
	input := `
mapscripts PetalburgCity_MapScripts {
	MAP_SCRIPT_ON_LOAD {
	}
	MAP_SCRIPT_ON_TRANSITION {
		setflag(FLAG_VISITED_PETALBURG_CITY)
	}
	MAP_SCRIPT_ON_FRAME_TABLE [
		VAR_PETALBURG_CITY_STATE, 1 {
		}
		VAR_PETALBURG_CITY_STATE, 2 {
			lock
			release
		}
	]
}
`
	for _, opt := range []bool{false, true} {
		l := lexer.New(input)
		p := parser.New(l, parser.CommandConfig{}, "", "", 0, nil)
		program, err := p.ParseProgram()
		if err != nil {
			t.Fatalf("parse: %v", err)
		}
		out, err := New(program, opt, false, "").Emit()
		if err != nil {
			t.Fatalf("emit: %v", err)
		}
		defined := map[string]int{}
		var used []string
		for _, line := range strings.Split(out, "\n") {
			switch {
			case strings.HasPrefix(line, "\tmap_script ") || strings.HasPrefix(line, "\tmap_script_2 "):
				parts := strings.Split(line, ", ")
				used = append(used, parts[len(parts)-1])
			case line != "" && !strings.HasPrefix(line, "\t") && strings.HasSuffix(line, ":"):
				defined[strings.TrimRight(line, ":")]++
			}
		}
		for _, label := range used {
			if defined[label] != 1 {
				t.Errorf("optimize=%v: label %s is used by a map script entry but defined %d times\n%s", opt, label, defined[label], out)
			}
		}
	}
}
