// place at: emitter/x5_c16_2_demo_test.go
package emitter

import (
	"regexp"
	"strconv"
	"strings"
	"testing"

	"github.com/huderlem/poryscript/lexer"
	"github.com/huderlem/poryscript/parser"
)

// The marker in front of a text names the source line on which the text was written.
func TestX5C16_2_TextMarkerNamesTheLineOfTheText(t *testing.T) {
	input := `script S {
	lock
	msgbox(
		"Hello there.\n"
		"How are you?",
		MSGBOX_DEFAULT)
	release
	message( # which text
		"Bye"
	)
}`
	srcLines := strings.Split(input, "\n")
	l := lexer.New(input)
	p := parser.New(l, parser.CommandConfig{}, "", "", 0, nil)
	program, err := p.ParseProgram()
	if err != nil {
		t.Fatalf("parse: %s", err)
	}
	out, err := New(program, false, true, "test.pory").Emit()
	if err != nil {
		t.Fatalf("emit: %s", err)
	}
	marker := regexp.MustCompile(`^# (\d+) "test\.pory"$`)
	str := regexp.MustCompile(`^\t\.string "([A-Za-z]+)`)
	outLines := strings.Split(out, "\n")
	checked := 0
	for i := 0; i+1 < len(outLines); i++ {
		m := marker.FindStringSubmatch(outLines[i])
		s := str.FindStringSubmatch(outLines[i+1])
		if m == nil || s == nil {
			continue
		}
		checked++
		n, _ := strconv.Atoi(m[1])
		if n < 1 || n > len(srcLines) || !strings.Contains(srcLines[n-1], `"`+s[1]) {
			t.Errorf("marker %q precedes %q, but that text is not written on source line %d", outLines[i], strings.TrimSpace(outLines[i+1]), n)
		}
	}
	if checked != 2 {
		t.Errorf("expected 2 text markers, found %d", checked)
	}
	if t.Failed() {
		t.Logf("output:\n%s", out)
	}
}
