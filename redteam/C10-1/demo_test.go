// place at: emitter/c10_1_demo_test.go
package emitter

import (
	"strings"
	"testing"

	"github.com/huderlem/poryscript/lexer"
	"github.com/huderlem/poryscript/parser"
)

// C10: every command statement reaches the output as one line; commands are never dropped.
func TestC10CommandsAfterEndAreKept(t *testing.T) {
	input := `
script Clerk {
	lock
	goto_if_set(FLAG_SOLD_OUT, Clerk_SoldOut)
	pokemart(Clerk_Items)
	release
	end
Clerk_SoldOut:
	setvar(VAR_RESULT, 0x2A)
	callnative(ShowSoldOut, -1)
	release
	end
}`
	want := []string{
		"\tlock",
		"\tgoto_if_set FLAG_SOLD_OUT, Clerk_SoldOut",
		"\tpokemart Clerk_Items",
		"\trelease",
		"\tend",
		"\tsetvar VAR_RESULT, 0x2A",
		"\tcallnative ShowSoldOut, -1",
		"\trelease",
		"\tend",
	}
	for _, optimize := range []bool{false, true} {
		p := parser.New(lexer.New(input), parser.CommandConfig{}, "", "", 0, nil)
		program, err := p.ParseProgram()
		if err != nil {
			t.Fatal(err)
		}
		out, err := New(program, optimize, false, "").Emit()
		if err != nil {
			t.Fatal(err)
		}
		var got []string
		for _, line := range strings.Split(out, "\n") {
			if strings.HasPrefix(line, "\t") {
				got = append(got, line)
			}
		}
		if strings.Join(got, "\n") != strings.Join(want, "\n") {
			t.Errorf("optimize=%v: command lines of the script\n got: %q\nwant: %q\noutput:\n%s", optimize, got, want, out)
		}
	}
}
