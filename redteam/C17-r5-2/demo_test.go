// place at: parser/c17_2_demo_test.go
package parser_test

import (
	"testing"

	"github.com/huderlem/poryscript/emitter"
	"github.com/huderlem/poryscript/lexer"
	"github.com/huderlem/poryscript/parser"
)

// C17: the same input with the same options compiles to the same output (or the same error),
// however many compilations ran before in the process.
func TestC17_2_SameInputSameOptionsTwice(t *testing.T) {
	// `-s DEBUG=` : a switch given with an empty value.
	switches := map[string]string{"DEBUG": "", "GAME_VERSION": "RUBY"}
	src := "text T {\n\tporyswitch(DEBUG) {\n\t\tON: \"debug build\"\n\t\t_: \"release build\"\n\t}\n}\n"
	compile := func() (string, string) {
		p := parser.New(lexer.New(src), parser.CommandConfig{}, "", "", 0, switches)
		prog, err := p.ParseProgram()
		if err != nil {
			return "", err.Error()
		}
		out, err := emitter.New(prog, true, false, "").Emit()
		if err != nil {
			return "", err.Error()
		}
		return out, ""
	}
	out0, err0 := compile()
	out1, err1 := compile()
	if out0 != out1 || err0 != err1 {
		t.Fatalf("same input, same options, different result:\nfirst:  out=%q err=%q\nsecond: out=%q err=%q", out0, err0, out1, err1)
	}
	if len(switches) != 2 {
		t.Fatalf("the caller's compile switches were changed by a compilation: %v", switches)
	}
}
