// place at: emitter/redteam_c11_2_test.go
package emitter

import (
	"strings"
	"testing"

	"github.com/huderlem/poryscript/lexer"
	"github.com/huderlem/poryscript/parser"
)

// An AutoVar leaf written with '!' still runs its command right before its var is compared
// (once per evaluation of the leaf, here: on every iteration of the loop as well).
func TestRedteamC11NegatedAutoVarLeafRunsItsCommand(t *testing.T) {
	input := `
script MyScript {
	if (!checkitem(ITEM_POTION, 1)) {
		none
	}
	while (flag(FLAG_1) && !getpartysize) {
		wait
	}
}
`
	config := parser.CommandConfig{AutoVarCommands: map[string]parser.AutoVarCommand{
		"checkitem":    {VarName: "VAR_RESULT"},
		"getpartysize": {VarName: "VAR_SIZE"},
	}}
	for _, optimize := range []bool{false, true} {
		p := parser.New(lexer.New(input), config, "", "", 0, nil)
		program, err := p.ParseProgram()
		if err != nil {
			t.Fatalf("%s", err.Error())
		}
		result, err := New(program, optimize, false, "").Emit()
		if err != nil {
			t.Fatalf("%s", err.Error())
		}
		for _, want := range []string{
			"\tcheckitem ITEM_POTION, 1\n\tcompare VAR_RESULT, 0\n\tgoto_if_eq ",
			"\tgetpartysize\n\tcompare VAR_SIZE, 0\n\tgoto_if_eq ",
		} {
			if !strings.Contains(result, want) {
				t.Errorf("optimize=%v: the AutoVar command is not executed before its var is compared; missing %q in\n%s", optimize, want, result)
			}
		}
	}
}
