// place at: parser/x4_c07_1_demo_test.go
package parser

import "testing"

// C07: format() only turns spaces into line breaks; nothing else is lost.
// A tab and an ideographic space (U+3000, a glyph of its own in the font tables)
// are ordinary characters of a word and must survive formatting.
func TestX4C07_1_OnlySpacesSeparateWords(t *testing.T) {
	fc := FontConfig{}
	for _, in := range []string{"A\tB", "あい　うえ", "x y z"} {
		got, err := fc.FormatText(in, 1000, 0, "TEST", 2)
		if err != nil {
			t.Fatal(err)
		}
		if got != in {
			t.Errorf("FormatText(%q) = %q: a character other than a space was dropped/replaced", in, got)
		}
	}
	// the break that is chosen must replace a space, not the U+3000 glyph
	got, _ := fc.FormatText("ああ　いい", 30, 0, "TEST", 2)
	if got != "ああ　いい" {
		t.Errorf("single unbreakable word was split at U+3000: %q", got)
	}
}
