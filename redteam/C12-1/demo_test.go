// place at: red_c12_1_test.go
package main

import (
	"flag"
	"os"
	"strings"
	"testing"

	"github.com/huderlem/poryscript/emitter"
	"github.com/huderlem/poryscript/lexer"
	"github.com/huderlem/poryscript/parser"
)

// C12: poryswitch contributes exactly the case that matches the -s value as it was given
// on the command line, or '_' when none matches.
func TestRedC12_1_SwitchValueFromCommandLine(t *testing.T) {
	oldArgs, oldFlags := os.Args, flag.CommandLine
	defer func() { os.Args, flag.CommandLine = oldArgs, oldFlags }()
	flag.CommandLine = flag.NewFlagSet("poryscript", flag.ContinueOnError)
	os.Args = []string{"poryscript", "-s", "LANG=de", "-s", "GAME=Emerald"}
	opts := parseOptions()

	input := `
script MyScript {
	poryswitch(LANG) {
		de: msgbox("Hallo")
		DE: msgbox("HALLO")
		_: msgbox("Hello")
	}
	poryswitch(GAME) {
		Emerald { setvar(VAR_GAME, 3) }
		_ { setvar(VAR_GAME, 0) }
	}
}
`
	p := parser.New(lexer.New(input), parser.CommandConfig{}, "", "", 0, opts.compileSwitches)
	program, err := p.ParseProgram()
	if err != nil {
		t.Fatalf("parse error: %s", err.Error())
	}
	out, err := emitter.New(program, false, false, "").Emit()
	if err != nil {
		t.Fatalf("emit error: %s", err.Error())
	}
	for _, want := range []string{"\t.string \"Hallo$\"\n", "\tsetvar VAR_GAME, 3\n"} {
		if !strings.Contains(out, want) {
			t.Errorf("with -s LANG=de -s GAME=Emerald the output lacks %q:\n%s", want, out)
		}
	}
}
