// place at: emitter/c14_demo_test.go
package emitter

import (
	"strings"
	"testing"

	"github.com/huderlem/poryscript/lexer"
	"github.com/huderlem/poryscript/parser"
)

// 'step * N' is expanded to exactly N copies, whatever spelling of N the lexer accepts as an INT.
func TestC14DemoHexMultiplierLowerCase(t *testing.T) {
	input := `
movement M {
	walk_up * 0x1f
	walk_down
}

script S {
	applymovement(1, moves(walk_left * 0xa))
}
`
	p := parser.New(lexer.New(input), parser.CommandConfig{}, "", "", 0, nil)
	program, err := p.ParseProgram()
	if err != nil {
		t.Fatalf("unexpected parse error: %s", err.Error())
	}
	out, err := New(program, false, false, "").Emit()
	if err != nil {
		t.Fatalf("unexpected emit error: %s", err.Error())
	}
	if n := strings.Count(out, "\twalk_up\n"); n != 31 {
		t.Errorf("walk_up * 0x1f: expected 31 copies of walk_up, got %d\n%s", n, out)
	}
	if n := strings.Count(out, "\twalk_left\n"); n != 10 {
		t.Errorf("walk_left * 0xa: expected 10 copies of walk_left, got %d\n%s", n, out)
	}
	want := "M:\n" + strings.Repeat("\twalk_up\n", 31) + "\twalk_down\n\tstep_end\n"
	if !strings.Contains(out, want) {
		t.Errorf("movement M is not its steps in order followed by one step_end:\n%s", out)
	}
}
