// place at: lexer/w5_c19_1_demo_test.go
package lexer

import (
	"strings"
	"testing"
	"unicode/utf8"

	"github.com/huderlem/poryscript/token"
)

// Every token's start column in characters is the number of characters (code points)
// that precede its first character on its line, and its byte column is the number of
// bytes; for single-line tokens the end column is start plus length.
func TestW5C19_1_CharacterColumnsCountEveryCharacter(t *testing.T) {
	// "e" + U+0301 (combining acute accent) is two characters, three bytes.
	input := "script Cafe {\n" +
		"\tmsgbox(\"Pok\u0301mon\") release\n" +
		"}\n"
	lines := strings.Split(input, "\n")
	l := New(input)
	for {
		tok := l.NextToken()
		if tok.Type == token.EOF {
			break
		}
		line := lines[tok.LineNumber-1]
		if tok.StartCharIndex > len(line) {
			t.Fatalf("token %q: byte column %d outside line %q", tok.Literal, tok.StartCharIndex, line)
		}
		wantChars := utf8.RuneCountInString(line[:tok.StartCharIndex])
		if tok.StartUtf8CharIndex != wantChars {
			t.Errorf("token %q (line %d): start column in characters = %d, but %d characters precede it", tok.Literal, tok.LineNumber, tok.StartUtf8CharIndex, wantChars)
		}
		if tok.Type == token.IDENT || tok.Type == token.STRING {
			n := utf8.RuneCountInString(line[tok.StartCharIndex:tok.EndCharIndex])
			if tok.EndUtf8CharIndex != tok.StartUtf8CharIndex+n {
				t.Errorf("token %q (line %d): end column in characters = %d, want start %d + length %d", tok.Literal, tok.LineNumber, tok.EndUtf8CharIndex, tok.StartUtf8CharIndex, n)
			}
		}
	}
}
