// place at: parser/w5_c18_2_demo_test.go
package parser

import (
	"testing"

	"github.com/huderlem/poryscript/lexer"
)

// Every input is answered with output or a located error, never with a crash or with
// memory proportional to a number written in the input.
func TestW5C18_2_HugeMovementMultiplierIsRejectedNotAllocated(t *testing.T) {
	for _, input := range []string{
		"movement M {\n\twalk_up * 4611686018427387904\n}\n",
		"script S {\n\tapplymovement(OBJ, moves(walk_up * 4611686018427387904))\n}\n",
	} {
		func() {
			defer func() {
				if r := recover(); r != nil {
					t.Errorf("ParseProgram panicked on %q: %v", input, r)
				}
			}()
			for _, p := range []*Parser{
				New(lexer.New(input), CommandConfig{}, "", "", 0, nil),
				NewLintParser(lexer.New(input), CommandConfig{}),
			} {
				_, err := p.ParseProgram()
				pe, ok := err.(ParseError)
				if !ok {
					t.Fatalf("expected a ParseError for %q, got %v", input, err)
				}
				if pe.LineNumberStart != 2 || pe.LineNumberEnd != 2 {
					t.Errorf("error range %d..%d, want line 2", pe.LineNumberStart, pe.LineNumberEnd)
				}
			}
		}()
	}
}
