// place at: lexer/redteam_c19_3_test.go
package lexer

import (
	"strings"
	"testing"

	"github.com/huderlem/poryscript/token"
)

// C19: "Each token's reported line and start column, in bytes and in characters, locate its first
// character in the source" - scope: "all layouts (any whitespace/comment runs between tokens,
// CRLF line ends, ...)".
func TestRedteamC19_3_PositionsInCRLFFiles(t *testing.T) {
	lf := "script S {\n\tlock # wait\n\tmsgbox(\"Hi\")\n\n\trelease\n}\n"
	crlf := strings.ReplaceAll(lf, "\n", "\r\n")
	lines := strings.Split(crlf, "\n") // a line is what ends in LF: editors, cpp and gas agree
	l := New(crlf)
	for {
		tok := l.NextToken()
		if tok.Type == token.EOF {
			break
		}
		if tok.LineNumber < 1 || tok.LineNumber > len(lines) {
			t.Errorf("token %q: reported on line %d, the input has %d lines", tok.Literal, tok.LineNumber, len(lines))
			continue
		}
		line := lines[tok.LineNumber-1]
		text := tok.Literal
		if tok.Type == token.STRING {
			text = "\"" + text
		}
		if tok.StartCharIndex < 0 || tok.StartCharIndex > len(line) || !strings.HasPrefix(line[tok.StartCharIndex:], text) {
			t.Errorf("token %q: reported at line %d byte column %d, but that place reads %q", tok.Literal, tok.LineNumber, tok.StartCharIndex, line)
		}
	}
	// ... and the same tokens are on the same lines as in the LF twin of the file
	a, b := New(lf), New(crlf)
	for {
		ta, tb := a.NextToken(), b.NextToken()
		if ta.Type != tb.Type || ta.Literal != tb.Literal {
			t.Fatalf("token sequences differ: %v / %v", ta, tb)
		}
		if ta.LineNumber != tb.LineNumber {
			t.Errorf("token %q is on line %d of the LF file but reported on line %d of the CRLF file", ta.Literal, ta.LineNumber, tb.LineNumber)
		}
		if ta.Type == token.EOF {
			break
		}
	}
}
