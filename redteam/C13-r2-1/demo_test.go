// place at: emitter/zz_c13_1_demo_test.go
package emitter_test

import (
	"testing"

	"github.com/huderlem/poryscript/emitter"
	"github.com/huderlem/poryscript/lexer"
	"github.com/huderlem/poryscript/parser"
)

func compileC13(t *testing.T, src string) string {
	t.Helper()
	p := parser.New(lexer.New(src), parser.CommandConfig{}, "", "", 0, nil)
	program, err := p.ParseProgram()
	if err != nil {
		t.Fatalf("unexpected parse error: %v", err)
	}
	out, err := emitter.New(program, false, false, "").Emit()
	if err != nil {
		t.Fatalf("unexpected emit error: %v", err)
	}
	return out
}

// C13: compiling a program with const definitions yields the same output as the program
// with every later use replaced by the constant's value.
func TestC13_1_UsingAConstantIsWritingItsValue(t *testing.T) {
	withConst := `
const NEXT_STATE = (VAR_BASE + 1)
script S {
	setvar(VAR_X, 2 * NEXT_STATE)
	if (var(VAR_X) == value(2 * NEXT_STATE)) {
		foo
	}
	switch (var(VAR_Y)) {
		case 2 * NEXT_STATE: bar
	}
}
`
	writtenOut := `
script S {
	setvar(VAR_X, 2 * (VAR_BASE + 1))
	if (var(VAR_X) == value(2 * (VAR_BASE + 1))) {
		foo
	}
	switch (var(VAR_Y)) {
		case 2 * (VAR_BASE + 1): bar
	}
}
`
	got, want := compileC13(t, withConst), compileC13(t, writtenOut)
	if got != want {
		t.Errorf("the program that uses the constant and the program with its value written out compile differently.\n-- with const:\n%s\n-- written out:\n%s", got, want)
	}
}
