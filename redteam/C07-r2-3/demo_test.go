// place at: parser/redteam_c07_3_test.go
package parser_test

import (
	"testing"

	"github.com/huderlem/poryscript/parser"
)

// C07: "format() keeps all words and explicit break codes in order - nothing is lost, duplicated
// or split - and only chooses where lines end."  A backslash escapes exactly the next character:
// "\tan" is an ordinary word (backslash, t, a, n), not "\ta" followed by a line break.
func TestRedTeamC07_3_BackslashEscapesOnlyTheNextCharacter(t *testing.T) {
	fc := parser.FontConfig{}
	for _, tt := range []struct{ in, want string }{
		{`x \tan y z`, `x \tan y z`},
		{`Press \xp now`, `Press \xp now`},
		{`a\\n b`, "a\\\\n\nb"}, // control: a real break code still works (backslash + break code)
	} {
		got, err := fc.FormatText(tt.in, 1000, 0, "TEST", 2)
		if err != nil {
			t.Fatal(err)
		}
		if got != tt.want {
			t.Errorf("FormatText(%q) = %q, want %q", tt.in, got, tt.want)
		}
	}
}
