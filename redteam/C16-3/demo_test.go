// place at: emitter/w5_c16_3_demo_test.go
package emitter

import (
	"strings"
	"testing"

	"github.com/huderlem/poryscript/lexer"
	"github.com/huderlem/poryscript/parser"
)

// The marker in front of a 'case' line names the line on which the case value was
// written, wherever the ':' that ends it stands.
func TestW5C16_3_MarkerOfCaseNamesTheLineOfItsValue(t *testing.T) {
	input := "script S {\n" + // 1
		"\tswitch (var(VAR_X)) {\n" + // 2
		"\t\tcase FIRST_VALUE\n" + // 3
		"\t\t\t: lock\n" + // 4
		"\t\tcase SECOND_VALUE  # why\n" + // 5
		"\t\t\t:\n" + // 6
		"\t\t\trelease\n" + // 7
		"\t}\n" +
		"}\n"
	p := parser.New(lexer.New(input), parser.CommandConfig{}, "", "", 0, nil)
	program, err := p.ParseProgram()
	if err != nil {
		t.Fatal(err)
	}
	out, err := New(program, false, true, "test.pory").Emit()
	if err != nil {
		t.Fatal(err)
	}
	lines := strings.Split(out, "\n")
	want := map[string]string{
		"\tcase FIRST_VALUE, S_2":  "# 3 \"test.pory\"",
		"\tcase SECOND_VALUE, S_3": "# 5 \"test.pory\"",
	}
	found := 0
	for i, ln := range lines {
		if w, ok := want[ln]; ok {
			found++
			if i == 0 || lines[i-1] != w {
				t.Errorf("marker before %q is %q, want %q", ln, lines[i-1], w)
			}
		}
	}
	if found != 2 {
		t.Fatalf("case lines not found in output:\n%s", out)
	}
}
