// place at: emitter/x5_c16_1_demo_test.go
package emitter

import (
	"regexp"
	"strconv"
	"strings"
	"testing"

	"github.com/huderlem/poryscript/lexer"
	"github.com/huderlem/poryscript/parser"
)

// Every marker must name a line of the input (1..number of source lines), and the text
// line that follows a marker must have been written on that source line.
func TestX5C16_1_TextMarkersNameTheLineTheTextWasWrittenOn(t *testing.T) {
	input := `script S {
	lock
	msgbox("First\n" "Second")
	msgbox("Third\n"

		"Fourth")
	release
	msgbox(format("AAAA BBBB CCCC DDDD EEEE", "TEST", 50))
}`
	srcLines := strings.Split(input, "\n")

	compile := func(lm bool) string {
		l := lexer.New(input)
		p := parser.New(l, parser.CommandConfig{}, "../font_config.json", "", 0, nil)
		program, err := p.ParseProgram()
		if err != nil {
			t.Fatalf("parse: %s", err)
		}
		out, err := New(program, false, lm, "test.pory").Emit()
		if err != nil {
			t.Fatalf("emit: %s", err)
		}
		return out
	}
	with, without := compile(true), compile(false)

	marker := regexp.MustCompile(`^# (\d+) "test\.pory"$`)
	str := regexp.MustCompile(`^\t\.string "([A-Za-z]+)`)
	outLines := strings.Split(with, "\n")
	var kept []string
	for i, line := range outLines {
		m := marker.FindStringSubmatch(line)
		if m == nil {
			kept = append(kept, line)
			continue
		}
		n, _ := strconv.Atoi(m[1])
		if n < 1 || n > len(srcLines) {
			t.Errorf("marker %q names line %d, but the input has %d lines", line, n, len(srcLines))
			continue
		}
		if i+1 < len(outLines) {
			if s := str.FindStringSubmatch(outLines[i+1]); s != nil && !strings.Contains(srcLines[n-1], s[1]) {
				t.Errorf("marker %q precedes %q, but source line %d is %q", line, strings.TrimSpace(outLines[i+1]), n, srcLines[n-1])
			}
		}
	}
	if strings.Join(kept, "\n") != without {
		t.Errorf("removing the markers does not give the -lm=false output")
	}
	if t.Failed() {
		t.Logf("output with markers:\n%s", with)
	}
}
