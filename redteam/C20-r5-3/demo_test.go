// place at: emitter/redteam5_c20_3_test.go
package emitter

import (
	"strings"
	"testing"

	"github.com/huderlem/poryscript/lexer"
	"github.com/huderlem/poryscript/parser"
)

// C20: "A program containing break outside a loop or switch ... is rejected with an error reported on
// the line of the offending construct. It is never compiled into something else."
func TestRedTeam5C20_3_BreakOutsideAnyScopeIsRejected(t *testing.T) {
	input := `
script S {
	lock
	break()
	release
}`
	p := parser.New(lexer.New(input), parser.CommandConfig{}, "", "", 0, nil)
	program, err := p.ParseProgram()
	if err == nil {
		out, _ := New(program, false, false, "").Emit()
		t.Fatalf("'break' outside of a loop or switch was accepted and compiled into:\n%s", out)
	}
	pe, ok := err.(parser.ParseError)
	if !ok || pe.LineNumberStart != 4 || !strings.Contains(pe.Message, "'break' statement outside of any break-able scope") {
		t.Errorf("expected the break-outside-scope error on line 4, got %v", err)
	}
}
