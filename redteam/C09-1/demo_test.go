// place at: emitter/c09_1_demo_test.go
package emitter

import (
	"strings"
	"testing"

	"github.com/huderlem/poryscript/lexer"
	"github.com/huderlem/poryscript/parser"
)

// C09: the directive is .string unless a string-type prefix names another, and no terminator is
// added for string types other than plain / ascii / braille - also when the text goes through format().
func TestC09Demo1CustomStringTypeInsideFormat(t *testing.T) {
	input := `script MyScript {
	msgbox(format(custom"Hello"))
}

text MyText {
	format(custom"World")
}

text MyPlain {
	custom"Plain"
}
`
	l := lexer.New(input)
	p := parser.New(l, parser.CommandConfig{}, "../font_config.json", "", 0, nil)
	program, err := p.ParseProgram()
	if err != nil {
		t.Fatal(err)
	}
	out, err := New(program, false, false, "").Emit()
	if err != nil {
		t.Fatal(err)
	}
	for _, want := range []string{
		"MyScript_Text_0:\n\t.custom \"Hello\"\n",
		"MyText::\n\t.custom \"World\"\n",
		"MyPlain::\n\t.custom \"Plain\"\n",
	} {
		if !strings.Contains(out, want) {
			t.Errorf("output lacks %q:\n%s", want, out)
		}
	}
}
