// place at: parser/w5_c18_1_demo_test.go
package parser

import (
	"testing"

	"github.com/huderlem/poryscript/lexer"
)

// Compilation never panics; lint mode never fails because fonts are missing, and normal
// mode answers a missing font config file with output or an error value.
func TestW5C18_1_FormatWithoutFontConfigDoesNotCrash(t *testing.T) {
	input := "script S {\n\tmsgbox(format(\"Hello there, this is some text\"))\n}\n" +
		"text T {\n\tformat(\"Hello\", \"1_latin\", 100)\n}\n"
	run := func(name string, p *Parser) {
		defer func() {
			if r := recover(); r != nil {
				t.Errorf("%s: ParseProgram panicked: %v", name, r)
			}
		}()
		_, err := p.ParseProgram()
		if name == "lint" && err != nil {
			t.Errorf("lint mode failed although only the font config is missing: %s", err)
		}
	}
	run("lint", NewLintParser(lexer.New(input), CommandConfig{}))
	run("normal, font config file does not exist", New(lexer.New(input), CommandConfig{}, "does_not_exist.json", "", 0, nil))
}
