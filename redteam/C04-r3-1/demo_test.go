// place at: emitter/redteam_c04_1_test.go
package emitter

import (
	"regexp"
	"strings"
	"testing"

	"github.com/huderlem/poryscript/lexer"
	"github.com/huderlem/poryscript/parser"
)

// C04: every label used by a generated jump, case ... is defined in that output
// (both optimize settings).
func TestRedteamC04_1_JumpTargetsAreDefined(t *testing.T) {
	input := `
script WaitForSignal {
	lock
	do {
		// busy-wait: the flag is set by another script
	} while (!flag(FLAG_SIGNAL))
	msgbox("The signal came.")
	release
}
`
	refRE := regexp.MustCompile(`\b(WaitForSignal_-?\d+)\b`)
	for _, optimize := range []bool{false, true} {
		p := parser.New(lexer.New(input), parser.CommandConfig{}, "", "", 0, nil)
		program, err := p.ParseProgram()
		if err != nil {
			t.Fatalf("optimize=%v: unexpected parse error: %s", optimize, err)
		}
		out, err := New(program, optimize, false, "").Emit()
		if err != nil {
			t.Fatalf("optimize=%v: unexpected emit error: %s", optimize, err)
		}
		defined := map[string]int{}
		lines := strings.Split(out, "\n")
		for _, line := range lines {
			if !strings.HasPrefix(line, "\t") && strings.HasSuffix(line, ":") {
				defined[strings.TrimRight(line, ":")]++
			}
		}
		for name, n := range defined {
			if n != 1 {
				t.Errorf("optimize=%v: label %s is defined %d times", optimize, name, n)
			}
		}
		for _, line := range lines {
			if !strings.HasPrefix(line, "\t") {
				continue
			}
			for _, ref := range refRE.FindAllString(line, -1) {
				if defined[ref] == 0 {
					t.Errorf("optimize=%v: %q refers to label %s, which the output does not define:\n%s", optimize, strings.TrimSpace(line), ref, out)
				}
			}
		}
	}
}
