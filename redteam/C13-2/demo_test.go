// place at: emitter/red_c13_2_test.go
package emitter

import (
	"strings"
	"testing"

	"github.com/huderlem/poryscript/lexer"
	"github.com/huderlem/poryscript/parser"
)

// C13: constants never rewrite movement steps - neither in movement statements nor in moves().
func TestRedC13_2_MovesStepsAreNotConstants(t *testing.T) {
	input := `
const delay_16 = 16
const LOCALID_NPC = 3

script MyScript {
	delay(delay_16)
	applymovement(LOCALID_NPC, moves(walk_up delay_16 walk_down))
}

movement MyMovement {
	walk_up delay_16 walk_down
}
`
	p := parser.New(lexer.New(input), parser.CommandConfig{}, "", "", 0, nil)
	program, err := p.ParseProgram()
	if err != nil {
		t.Fatalf("parse error: %s", err.Error())
	}
	out, err := New(program, false, false, "").Emit()
	if err != nil {
		t.Fatalf("emit error: %s", err.Error())
	}
	for _, want := range []string{
		"\tdelay 16\n",
		"\tapplymovement 3, MyScript_Movement_0\n",
		"MyMovement:\n\twalk_up\n\tdelay_16\n\twalk_down\n\tstep_end\n",
		"MyScript_Movement_0:\n\twalk_up\n\tdelay_16\n\twalk_down\n\tstep_end\n",
	} {
		if !strings.Contains(out, want) {
			t.Errorf("output lacks %q:\n%s", want, out)
		}
	}
}
