// place at: emitter/c17_redteam_y2_2_test.go
package emitter

import (
	"strings"
	"testing"

	"github.com/huderlem/poryscript/lexer"
	"github.com/huderlem/poryscript/parser"
)

func redteamY2Compile(t *testing.T, src string) string {
	t.Helper()
	p := parser.New(lexer.New(src), parser.CommandConfig{}, "", "", 0, nil)
	program, err := p.ParseProgram()
	if err != nil {
		t.Fatalf("parse: %v", err)
	}
	out, err := New(program, true, false, "").Emit()
	if err != nil {
		t.Fatalf("emit: %v", err)
	}
	return out
}

// C17: the code emitted for one top-level statement does not depend on which other
// scripts are in the file. The raw block is the same bytes in both programs.
func TestRedteamY2C17RawBlockIndependentOfNeighbours(t *testing.T) {
	raw := "raw `\tone\r\n\ttwo`"
	alone := redteamY2Compile(t, raw)
	script := "script A {\r\n\tlock\r\n}\r\n"
	both := redteamY2Compile(t, script+raw)
	onlyScript := redteamY2Compile(t, script)
	if !strings.HasPrefix(both, onlyScript) {
		t.Fatalf("script output changed: %q vs %q", both, onlyScript)
	}
	rawInBoth := strings.TrimPrefix(strings.TrimPrefix(both, onlyScript), "\n")
	if rawInBoth != alone {
		t.Fatalf("the raw block is emitted differently after an unrelated script:\n alone: %q\n after script A: %q", alone, rawInBoth)
	}
}
