// place at: c16_demo1_test.go
package main

import (
	"os"
	"path/filepath"
	"regexp"
	"strconv"
	"strings"
	"testing"

	"github.com/huderlem/poryscript/emitter"
	"github.com/huderlem/poryscript/lexer"
	"github.com/huderlem/poryscript/parser"
)

// C16: every marker names a line between 1 and the number of source lines, namely the line on
// which the construct that follows it was written. The file is a Windows (CRLF) file, compiled
// the way main() does it: getInput -> lexer -> parser -> emitter with -lm.
func TestC16DemoCRLFFileMarkers(t *testing.T) {
	source := "script S {\r\n\tlock\r\n\tnop\r\n\trelease\r\n}\r\n"
	dir := t.TempDir()
	path := filepath.Join(dir, "scripts.pory")
	if err := os.WriteFile(path, []byte(source), 0o644); err != nil {
		t.Fatal(err)
	}
	input, err := getInput(path)
	if err != nil {
		t.Fatal(err)
	}
	program, err := parser.New(lexer.New(input), parser.CommandConfig{}, "", "", 0, nil).ParseProgram()
	if err != nil {
		t.Fatal(err)
	}
	out, err := emitter.New(program, false, true, path).Emit()
	if err != nil {
		t.Fatal(err)
	}
	numLines := strings.Count(source, "\n") // 5 lines
	wantLine := map[string]int{"\tlock": 2, "\tnop": 3, "\trelease": 4}
	marker := regexp.MustCompile(`^# (\d+) "`)
	lines := strings.Split(out, "\n")
	seen := 0
	for i, line := range lines {
		m := marker.FindStringSubmatch(line)
		if m == nil {
			continue
		}
		n, _ := strconv.Atoi(m[1])
		if n < 1 || n > numLines {
			t.Errorf("marker %q names line %d, but the file has %d lines", line, n, numLines)
		}
		if want, ok := wantLine[lines[i+1]]; ok {
			seen++
			if n != want {
				t.Errorf("%q was written on line %d, but its marker says %d", lines[i+1], want, n)
			}
		}
	}
	if seen != 3 {
		t.Fatalf("expected markers for three commands, saw %d in:\n%s", seen, out)
	}
}
