// place at: parser/c07_3_demo_test.go
package parser

import "testing"

// C07: format() only chooses where lines end, and only at blanks BETWEEN words. A blank inside a
// brace group (control code with arguments) is not a break point - also when the group contains
// another group: the scanner counts the nesting depth.
func TestC07_3_NestedBraceGroupNotSplit(t *testing.T) {
	fc := FontConfig{}
	for _, text := range []string{`{A {B} C}`, `Hi {COLOR {RED} BLUE}there`} {
		got, err := fc.FormatText(text, 10, 0, "TEST", 2)
		if err != nil {
			t.Fatal(err)
		}
		// every blank inside the outer group must still be a blank
		want := text
		if text[0] == 'H' {
			want = "Hi\\n\n{COLOR {RED} BLUE}there"
		}
		if got != want {
			t.Errorf("FormatText(%q) = %q, want %q: a line break was put inside a brace group", text, got, want)
		}
	}
}
