// place at: emitter/c09_1_demo_test.go
package emitter

import (
	"testing"

	"github.com/huderlem/poryscript/lexer"
	"github.com/huderlem/poryscript/parser"
)

// A multi-part text whose middle source line is the empty literal "" has three
// source lines; C09 asks for one directive per source line, in order.
func TestC09_1_EmptyMiddlePieceKeepsItsLine(t *testing.T) {
	input := `
text MyText {
	"A"
	""
	"B"
}

script MyScript {
	msgbox("First"
	       ""
	       "Third")
}
`
	expected := `MyScript::
	msgbox MyScript_Text_0
	return


MyScript_Text_0:
	.string "First"
	.string ""
	.string "Third$"

MyText::
	.string "A"
	.string ""
	.string "B$"
`
	l := lexer.New(input)
	p := parser.New(l, parser.CommandConfig{}, "", "", 0, nil)
	program, err := p.ParseProgram()
	if err != nil {
		t.Fatalf("unexpected parse error: %s", err)
	}
	e := New(program, false, false, "")
	result, err := e.Emit()
	if err != nil {
		t.Fatalf("unexpected emit error: %s", err)
	}
	if result != expected {
		t.Errorf("text lines are not emitted one directive per source line.\nGot:\n%s\nExpected:\n%s", result, expected)
	}
}
