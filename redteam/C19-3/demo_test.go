// place at: lexer/w5_c19_3_demo_test.go
package lexer

import (
	"strings"
	"testing"

	"github.com/huderlem/poryscript/token"
)

// Each token's reported line and byte column locate its first character in the source:
// the token's literal starts at that column of that line (lines are what the line
// markers and the assembler count: runs of bytes ended by '\n').
func TestW5C19_3_LineAndColumnLocateTheToken(t *testing.T) {
	input := "script S { # he said  and left\n" + // line 1 (the comment contains U+2028)
		"\tmsgbox(\"one two\") lock\n" + // line 2 (so does the string)
		"\trelease // \u0085\n" + // line 3
		"}\n" // line 4
	lines := strings.Split(input, "\n")
	l := New(input)
	for {
		tok := l.NextToken()
		if tok.Type == token.EOF {
			if tok.LineNumber > len(lines) {
				t.Errorf("EOF reported on line %d of %d", tok.LineNumber, len(lines))
			}
			break
		}
		if tok.LineNumber < 1 || tok.LineNumber > len(lines) {
			t.Errorf("token %q reported on line %d, the input has %d lines", tok.Literal, tok.LineNumber, len(lines))
			continue
		}
		line := lines[tok.LineNumber-1]
		lexeme := tok.Literal
		if tok.Type == token.STRING {
			lexeme = "\"" + tok.Literal
		}
		if tok.StartCharIndex > len(line) || !strings.HasPrefix(line[tok.StartCharIndex:], lexeme) {
			t.Errorf("token %q reported at line %d, byte column %d, but that is not where it is written (line is %q)", tok.Literal, tok.LineNumber, tok.StartCharIndex, line)
		}
	}
}
