// place at: emitter/red_c06_2_test.go
package emitter

import (
	"strings"
	"testing"

	"github.com/huderlem/poryscript/lexer"
	"github.com/huderlem/poryscript/parser"
)

// C06 (and C08): inline text and moves() inside an inline map script are hoisted to labels
// that are defined in the output - also when the mapscripts statement has no table.
func TestRedC06_2_InlineMapScriptWithoutTable(t *testing.T) {
	input := `
mapscripts MyMap_MapScripts {
	MAP_SCRIPT_ON_LOAD {
		msgbox("Hello")
		applymovement(0, moves(walk_up))
	}
}
`
	p := parser.New(lexer.New(input), parser.CommandConfig{}, "", "", 0, nil)
	program, err := p.ParseProgram()
	if err != nil {
		t.Fatalf("parse error: %s", err.Error())
	}
	out, err := New(program, false, false, "").Emit()
	if err != nil {
		t.Fatalf("emit error: %s", err.Error())
	}
	for _, want := range []string{
		"\tmsgbox MyMap_MapScripts_MAP_SCRIPT_ON_LOAD_Text_0\n",
		"\tapplymovement 0, MyMap_MapScripts_MAP_SCRIPT_ON_LOAD_Movement_0\n",
		"MyMap_MapScripts_MAP_SCRIPT_ON_LOAD_Text_0:\n\t.string \"Hello$\"\n",
		"MyMap_MapScripts_MAP_SCRIPT_ON_LOAD_Movement_0:\n\twalk_up\n\tstep_end\n",
	} {
		if !strings.Contains(out, want) {
			t.Errorf("output lacks %q:\n%s", want, out)
		}
	}
}
