// place at: parser/c07_2_demo_test.go
package parser

import (
	"io/ioutil"
	"os"
	"path/filepath"
	"testing"
)

// C07: every produced line is at most maxLineLength pixels wide, with the widths of the font
// that format() was asked for: a glyph the font does not list has THAT font's "default" width.
func TestC07_2_DefaultWidthOfTheAskedFont(t *testing.T) {
	dir, err := ioutil.TempDir("", "c07_2")
	if err != nil {
		t.Fatal(err)
	}
	defer os.RemoveAll(dir)
	cfg := `{
	  "defaultFontId": "small",
	  "fonts": {
	    "small": {"widths": {" ": 1, "default": 1}, "maxLineLength": 100, "numLines": 2, "cursorOverlapWidth": 0},
	    "big":   {"widths": {" ": 10, "default": 10}, "maxLineLength": 100, "numLines": 2, "cursorOverlapWidth": 0}
	  }
	}`
	path := filepath.Join(dir, "fonts.json")
	if err := ioutil.WriteFile(path, []byte(cfg), 0644); err != nil {
		t.Fatal(err)
	}
	fc, err := LoadFontConfig(path)
	if err != nil {
		t.Fatal(err)
	}
	// In font "big" every glyph is 10 wide: "aaaa bbbb" is 90 wide and fits 100,
	// "aaaa bbbb cccc" would be 140: the third word must move to the next line.
	got, err := fc.FormatText("aaaa bbbb cccc", 100, 0, "big", 2)
	if err != nil {
		t.Fatal(err)
	}
	want := "aaaa bbbb\\n\ncccc"
	if got != want {
		t.Errorf("font 'big': got %q, want %q (a 140 pixel line in a 100 pixel box)", got, want)
	}
}
