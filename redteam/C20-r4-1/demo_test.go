// place at: emitter/z4_c20_1_demo_test.go
package emitter_test

import (
	"strings"
	"testing"

	"github.com/huderlem/poryscript/emitter"
	"github.com/huderlem/poryscript/lexer"
	"github.com/huderlem/poryscript/parser"
)

// C20: a script label equal to a text label is rejected with an error reported on the line of the
// label; it is never compiled into something else.
func TestZ4C20_1_ScriptLabelEqualToTextLabelIsRejected(t *testing.T) {
	for name, src := range map[string]string{
		"hoisted text": `
script MyScript {
	lock
MyScript_Text_0:
	msgbox("Hello")
	release
}
`,
		"explicit text": `
script MyScript {
	lock
Greeting:
	msgbox(Greeting)
	release
}

text Greeting { "Hello" }
`,
		"inline map script": `
mapscripts MyMap {
	MAP_SCRIPT_ON_LOAD {
		lock
	Greeting:
		release
	}
}

text Greeting { "Hello" }
`,
	} {
		p := parser.New(lexer.New(src), parser.CommandConfig{}, "", "", 0, nil)
		prog, err := p.ParseProgram()
		if err != nil {
			t.Fatalf("%s: unexpected parse error %v", name, err)
		}
		out, err := emitter.New(prog, false, false, "").Emit()
		if err == nil {
			t.Errorf("%s: accepted although a script label equals a text label; the output defines that label twice:\n%s", name, out)
			continue
		}
		pe, ok := err.(parser.ParseError)
		if !ok {
			t.Errorf("%s: error %v carries no source range", name, err)
			continue
		}
		if !strings.Contains(pe.Message, "duplicate text label") {
			t.Errorf("%s: unexpected message %q", name, pe.Message)
		}
		wantLine := 4
		if name == "inline map script" {
			wantLine = 5
		}
		if pe.LineNumberStart != wantLine {
			t.Errorf("%s: reported on line %d, the label is on line %d", name, pe.LineNumberStart, wantLine)
		}
	}
}
