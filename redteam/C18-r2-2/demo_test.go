// place at: parser/redteam_c18_2_test.go
package parser

import (
	"strings"
	"testing"

	"github.com/huderlem/poryscript/lexer"
)

// C18: "A returned error carries a line range inside the input with start not after end".
func TestRedteamC18_2_ErrorRangeStartNotAfterEnd(t *testing.T) {
	for _, input := range []string{
		"script S {\n\tlock\n\tporyswitch(GAME) {\n\t\tRUBY: msgbox(\"ruby\")\n\t}\n}\n",
		"text T {\n\tporyswitch(GAME) {\n\t\tRUBY: \"ruby\"\n\t}\n}\n",
		"movement M {\n\n\n\tporyswitch(GAME) { RUBY: walk_up }\n}\n",
		"mart M {\n\tITEM_A\n\tporyswitch(GAME) { RUBY: ITEM_B }\n}\n",
	} {
		numLines := strings.Count(input, "\n") + 1
		p := New(lexer.New(input), CommandConfig{}, "", "", 0, map[string]string{"GAME": "EMERALD"})
		_, err := p.ParseProgram()
		if err == nil {
			t.Fatalf("expected an error for a poryswitch without a matching case:\n%s", input)
		}
		pe, ok := err.(ParseError)
		if !ok {
			t.Fatalf("not a ParseError: %T %v", err, err)
		}
		if pe.LineNumberStart < 1 || pe.LineNumberEnd > numLines || pe.LineNumberStart > pe.LineNumberEnd {
			t.Errorf("error %q has line range %d..%d; want 1 <= start <= end <= %d", pe.Message, pe.LineNumberStart, pe.LineNumberEnd, numLines)
		}
		if pe.LineNumberStart == pe.LineNumberEnd && pe.CharStart > pe.CharEnd {
			t.Errorf("error %q has column range %d..%d on line %d", pe.Message, pe.CharStart, pe.CharEnd, pe.LineNumberStart)
		}
	}
}
